"""C13 — command tokenising is total, and quoting protects any argument.
Correspondence of lean/LimnoriaModel/C13/Model.lean with src/shlex.py, callbacks.Tokenizer,
callbacks.tokenize and utils.str.dqrepr; plus the property statement evaluated on the implementation."""
import codecs, json, os, re, sys, warnings
from vlib import wire, rng, leanbuild, verdict, bot, CORPUS, VERIF
from vlib.verdict import Case

PROPERTY = 'C13'
MANIFEST = {
 'level_text': 'Lean 4 theorems about a model of the command tokenizer (the shlex read_token/get_token state machine with pushback and backslash flag, Tokenizer.tokenize/_insideBrackets/_handleToken including the byte-level utf8 -> unicode_escape -> latin-1 -> utf8 decoding chain with \\N{name} escapes decoded through a name-table parameter and the final scalar-value check, callbacks.tokenize, utils.str.dqrepr): tokenising any string under any valid configuration and any name table yields a token tree or a syntax error, never another failure; every token is a string of Unicode scalar values; any list of arguments written in double quotes with backslash escaping, or with dqrepr, tokenises back to exactly that list (all Unicode, all bracket styles, pipe on/off, all quote sets containing the double quote); any tree rendered with brackets and quoted or bare-word leaves tokenises back to exactly that tree, and with nesting off the result has no sub-lists. Kernel-checked, constants regenerated from /repo on every run, model tied to the code by a differential correspondence run at several levels (tokenize with scoped configuration, Tokenizer, lexer, _handleToken, unicode_escape codec, writers) that also evaluates the property statement on the implementation.',
 'level_note': 'Trusted: Lean kernel (axioms propext/Classical.choice/Quot.sound only); Lean core UTF-8 codec (String.utf8EncodeChar / ByteArray.utf8Decode?, with the core round-trip theorem) standing for Python str.encode("utf8") / bytes.decode(); harness/extractors/tokenizer.py; the correspondence harness. Modelled and proved: shlex lexer as configured by Tokenizer (commenters empty - checked by the extractor), parser incl. pipe epilogue, codec chain incl. octal/hex/u/U/N escapes and all error branches, callbacks.tokenize configuration logic, dqrepr. Parameter: the Unicode name table of the codec (a partial map from the bytes between the braces of \\N{...} to a code point); the driver is given, for every name occurring in the inputs, what the real codec answers. Outside the model: CPython recursion limit (generators go as deep as one 512-byte IRC line allows, 470 brackets), input strings with lone surrogates, registry lookup (getSpecific) of the four configuration values (exercised by the scoped stream).',
 'technique': 'Lean 4 proof (induction on input / fuel, state invariant, measure) + table extraction + differential correspondence',
 'design_ref': 'DESIGN.md §6 C13',
}
THEOREMS = ['C13.tables_ok', 'C13.ws_subset_seps', 'C13.tokenize_total', 'C13.tokens_scalar', 'C13.surrogate_escape_rejected',
            'C13.quote_roundtrip', 'C13.nesting_exact', 'C13.nesting_exact_words', 'C13.nesting_disabled_flat',
            'C13.dqrepr_roundtrip']
TRUSTED = ['Lean 4.33.0 kernel; axioms ⊆ {propext, Classical.choice, Quot.sound}',
           'Lean core String.utf8EncodeChar / ByteArray.utf8Decode? as the meaning of Python utf-8 encode / strict decode (exercised differentially incl. overlong, surrogate and truncated sequences)',
           'harness/extractors/tokenizer.py (shlex whitespace, Tokenizer separators, commenters == "", ValidBrackets, ValidQuotes → Gen/Tokenizer.lean)',
           'harness/c13.py generators + canonicalisation; hex line protocol']
RULE = ('seeded streams: (raw) strings over an alphabet dense in quotes, backslashes, brackets, pipes, blanks, escapes and non-ASCII under '
        'every bracket style × pipe × nested × quote set; (quote) argument lists written with the manual quoter; (dqrepr) the same with '
        'utils.str.dqrepr; (nest) trees to depth 6 rendered with brackets; (lex) the shlex token stream under arbitrary whitespace/separator/'
        'quote sets; (handle) single tokens dense in escape sequences and near-miss UTF-8; (uesc) byte strings through the unicode_escape codec. '
        'A case is non-trivial when the model took a non-default branch (quoted token, escape kind, bracket, pipe, error kind); distinct = distinct input.')
FINDING_DQREPR = 'C13-dqrepr-latin1-reread'
FINDING_SURR = 'C13-surrogate-escape-token'

# --------------------------------------------------------------------------------------------
# canonical forms
# --------------------------------------------------------------------------------------------
def enc_cps(s):
    return '.'.join(str(ord(c)) for c in s)

def enc_tree(t):
    if isinstance(t, str):
        return 'l' + enc_cps(t)
    return '(' + ' '.join(enc_tree(x) for x in t) + ')'

def enc_trees(ts):
    return ' '.join(enc_tree(x) for x in ts)

def well_formed(t):
    if isinstance(t, str):
        return True
    return isinstance(t, list) and all(well_formed(x) for x in t)

def classify(msg):
    if msg == 'No closing quotation': return 'noClosingQuotation'
    if '\\ at end of string' in msg: return 'backslashAtEnd'
    if 'truncated \\xXX escape' in msg: return 'truncatedX'
    if 'truncated \\uXXXX escape' in msg: return 'truncatedU'
    if 'truncated \\UXXXXXXXX escape' in msg: return 'truncatedBigU'
    if 'illegal Unicode character' in msg: return 'illegalUnicode'
    if msg.startswith('Missing "'): return 'missingRight'
    if msg.startswith('Spurious "'): return 'spuriousRight'
    if 'nothing preceding' in msg: return 'pipeNothingBefore'
    if 'nothing following' in msg: return 'pipeNothingAfter'
    if 'malformed \\N character escape' in msg: return 'malformedN'
    if 'unknown Unicode character name' in msg: return 'unknownName'
    if 'surrogates not allowed' in msg: return 'surrogate'
    return 'other:' + msg[:60]

def valid_unicode(s):
    try:
        s.encode('utf-8'); return True
    except UnicodeEncodeError:
        return False

# --------------------------------------------------------------------------------------------
# implementation side
# --------------------------------------------------------------------------------------------
class Impl(object):
    def __init__(self):
        bot.light()
        warnings.simplefilter('ignore')
        from supybot import callbacks, conf, shlex, utils
        import supybot.utils.str as ustr
        self.callbacks = callbacks; self.conf = conf; self.shlex = shlex; self.ustr = ustr
        self._conf = None
        import io
        self.io = io

    # ---- configuration at global / network / channel / network+channel level ----
    NETS = ('vtneta', 'vtnetb')           # networks with an Irc object; vtneta always carries network-level values

    def ensure_networks(self):
        if getattr(self, '_nets', False):
            return
        from supybot import irclib, world
        for n in self.NETS:
            self.conf.registerNetwork(n)
            if world.getIrc(n) is None:
                irclib.Irc(n)
        self._nets = True

    def scoped_groups(self):
        c = self.conf.supybot.commands
        return {'brackets': c.nested.brackets, 'pipeSyntax': c.nested.pipeSyntax, 'quotes': c.quotes}

    def apply_scoped(self, sc):
        """sc: dict(nested=bool, glob={setting: v}, net={net: {setting: v}}, chan={chan: {setting: v}},
        netchan={(net, chan): {setting: v}}) — set in this order (parents before children)"""
        self.ensure_networks()
        self._conf = None
        c = self.conf.supybot.commands
        c.nested.setValue(sc['nested'])
        g = self.scoped_groups()
        for k, v in sc['glob'].items():
            g[k].setValue(v)
        for net, d in sc['net'].items():
            for k, v in d.items():
                g[k].get(':' + net).setValue(v)
        for chan, d in sc['chan'].items():
            for k, v in d.items():
                g[k].get(chan).setValue(v)
        for (net, chan), d in sc['netchan'].items():
            for k, v in d.items():
                g[k].get(':' + net).get(chan).setValue(v)

    def tokenize_at(self, s, network, channel):
        try:
            r = self.callbacks.tokenize(s, channel=channel, network=network)
        except SyntaxError as e:
            return 'syntax\t' + classify(str(e)), None
        except RecursionError:
            return 'crash\tRecursionError', None
        except Exception as e:
            return 'crash\t' + type(e).__name__, None
        if not well_formed(r):
            return 'crash\tnot-a-tree', None
        return 'tree\t' + enc_trees(r), r

    def set_conf(self, nested, brackets, pipe, quotes):
        key = (nested, brackets, pipe, quotes)
        if key == self._conf:
            return
        c = self.conf.supybot.commands
        c.nested.setValue(nested)
        c.nested.brackets.setValue(brackets)
        c.nested.pipeSyntax.setValue(pipe)
        c.quotes.setValue(quotes)
        self._conf = key

    def tokenize(self, cf, s):
        """-> (canonical, python result or None)"""
        self.set_conf(*cf)
        try:
            r = self.callbacks.tokenize(s)
        except SyntaxError as e:
            return 'syntax\t' + classify(str(e)), None
        except RecursionError:
            return 'crash\tRecursionError', None
        except Exception as e:
            return 'crash\t' + type(e).__name__, None
        if not well_formed(r):
            return 'crash\tnot-a-tree', None
        return 'tree\t' + enc_trees(r), r

    def tokenizeT(self, brackets, pipe, quotes, s):
        try:
            r = self.callbacks.Tokenizer(brackets=brackets, pipe=pipe, quotes=quotes).tokenize(s)
        except SyntaxError as e:
            return 'SyntaxError\t' + classify(str(e))
        except UnicodeDecodeError as e:
            return 'ValueError\t' + classify(str(e))
        except ValueError as e:
            return 'ValueError\t' + classify(str(e))
        except Exception as e:
            return 'crash\t' + type(e).__name__
        return 'ok\t' + enc_trees(r)

    def lex(self, ws, seps, quotes, s):
        lx = self.shlex.shlex(self.io.StringIO(s))
        lx.commenters = ''
        lx.whitespace = ws
        lx.separators = seps
        lx.quotes = quotes
        out = []
        for _ in range(2 * len(s) + 3):
            try:
                t = lx.get_token()
            except ValueError:
                return wire.enc_list(out) + '\tValueError'
            except Exception as e:      # anything else the lexer raises is reported, never the harness's problem
                return wire.enc_list(out) + '\t' + type(e).__name__
            if not t:
                return wire.enc_list(out) + '\teof'
            out.append(t)
        return 'fuel'

    def handle(self, quotes, token):
        try:
            r = self.callbacks.Tokenizer(quotes=quotes)._handleToken(token)
        except ValueError as e:
            return 'ValueError\t' + classify(str(e))
        except Exception as e:
            return 'crash\t' + type(e).__name__
        return 'ok\t' + enc_cps(r)

    def uesc(self, b):
        try:
            r = codecs.getdecoder('unicode_escape')(b)[0]
        except ValueError as e:
            return 'ValueError\t' + classify(str(e))
        except Exception as e:
            return 'crash\t' + type(e).__name__
        return 'ok\t' + enc_cps(r)

def effective(sc, network, channel):
    """the configuration in force for (network, channel), from what the harness SET (never asking the
    registry): a network counts only if the bot is connected to it, a channel only if it is a channel
    name; network+channel beats network beats channel beats global"""
    net = network if network in Impl.NETS else None
    chan = channel if (channel and channel[:1] in '#&+!') else None
    out = {}
    for k, gv in sc['glob'].items():
        v = gv
        if chan is not None and k in sc['chan'].get(chan, {}):
            v = sc['chan'][chan][k]
        if net is not None and k in sc['net'].get(net, {}):
            v = sc['net'][net][k]
        if net is not None and chan is not None and k in sc['netchan'].get((net, chan), {}):
            v = sc['netchan'][(net, chan)][k]
        out[k] = v
    return (sc['nested'], out['brackets'], out['pipeSyntax'], out['quotes'])

_scope_counter = [0]
def gen_scoped(r):
    _scope_counter[0] += 1
    k = _scope_counter[0]
    cx, cy, cz = '#s%dx' % k, '#s%dy' % k, '#s%dz' % k
    def vals():
        return {'brackets': r.choice(BRACKETS), 'pipeSyntax': r.random() < 0.5, 'quotes': r.choice(['"', '"', '"\'', '`"', "'", ''])}
    def some(d):
        return {kk: v for kk, v in d.items() if r.random() < 0.6}
    sc = dict(nested=r.random() < 0.9, glob=vals(), net={'vtneta': vals()}, chan={cx: some(vals())},
              netchan={('vtneta', cx): some(vals()), ('vtnetb', cy): some(vals())})
    if r.random() < 0.5:
        sc['chan'][cy] = some(vals())
    return sc, [cx, cy, cz]

def quote(x):
    """the argument written in double quotes with backslash escaping (the property's writer)"""
    return '"' + x.replace('\\', '\\\\').replace('"', '\\"') + '"'

def tokens_of(t):
    for x in t:
        if isinstance(x, str):
            yield x
        else:
            for y in tokens_of(x):
                yield y

def unencodable_tokens(r):
    return [t for t in tokens_of(r) if not valid_unicode(t)]

def in_surrogate_class(s, r):
    """known-finding class: a token of the result contains a code point in U+D800..U+DFFF (a str that
    cannot be encoded) and the input text contains a backslash-u / backslash-U escape (the only source:
    the unicode_escape decoder accepts \\ud800..\\udfff and the latin-1/utf-8 step then gives up)"""
    return ('\\u' in s or '\\U' in s) and any(0xD800 <= ord(c) <= 0xDFFF for t in unencodable_tokens(r) for c in t)

def in_dqrepr_class(x):
    """known-finding class: every code point <= U+00FF, at least one non-ASCII, and the code points
    read as bytes are valid UTF-8 (then _handleToken's latin-1/utf-8 hack re-reads them)."""
    if not x or max(map(ord, x)) > 0xFF or max(map(ord, x)) < 0x80:
        return False
    try:
        bytes(map(ord, x)).decode('utf-8')
    except UnicodeDecodeError:
        return False
    return True

# --------------------------------------------------------------------------------------------
# generators
# --------------------------------------------------------------------------------------------
BRACKETS = ['', '[]', '<>', '{}', '()']
QUOTESETS = ['"', '"', '"', '"\'', '\'"', '"`', '`\'"', '', "'", '`', '""', "'`", '"\'`"']
SPECIAL = ['"', '"', '\\', '\\', ' ', ' ', '[', ']', '|', "'", '<', '>', '{', '}', '(', ')', '`',
           '\t', '\r', '\n', '\0', '  ', '\\"', '\\\\', '""', '" "', '[]', '] [', ' | ', '||']
ESCAPES = ['\\n', '\\t', '\\x41', '\\x4', '\\xc3\\xa9', '\\xc2\\x80', '\\x80', '\\xff', '\\u00e9', '\\u4e2d', '\\u12',
           '\\U0001f600', '\\U00110000', '\\U0010ffff', '\\ud800', '\\udfff', '\\101', '\\777', '\\400', '\\7', '\\18', '\\08',
           '\\q', '\\ ', '\\\n', '\\a', '\\b', '\\f', '\\v', '\\r', "\\'", '\\e9', '\\xe9', '\\XE9', '\\xE9', '\\xeg',
           '\\xed\\xa0\\x80', '\\xc0\\x80', '\\xe0\\x80\\x80', '\\xf4\\x90\\x80\\x80', '\\xf0\\x9f\\x98\\x80', '\\xe4\\xb8', '\\u00c3\\u00a9',
           '\\303\\251', '\\0', '\\U0000', '\\u', '\\x', '\\U', '\\', '\\N{DIGIT ONE}', '\\N{bad}', '\\N', '\\N{}', '\\N{digit one}', '\\N{LATIN SMALL LETTER E WITH ACUTE}',
           '\\N{LF}', '\\N{LATIN SMALL LETTER A WITH MACRON AND GRAVE}', '\\N{CJK UNIFIED IDEOGRAPH-4E2D}', '\\N{DIGIT ONE', '\\Nx', '\\N{é}']
WORDS = ['a', 'b', 'foo', 'bar', 'x1', 'é', 'ß', 'Â', '\x80', '\xa0', '\xff', 'Ã©', 'Â\x80', 'λ', '中', '好', '😀', 'ÿ', 'Ā', 'à¤', '\x7f', '\x1f', 'N', '~']

def gen_conf(r):
    return (r.random() < 0.85, r.choice(BRACKETS + ['[]', '[]']), r.random() < 0.4, r.choice(QUOTESETS))

def gen_raw(r):
    n = r.randint(0, 14)
    out = []
    for _ in range(n):
        x = r.random()
        if x < 0.45: out.append(r.choice(SPECIAL))
        elif x < 0.62: out.append(r.choice(ESCAPES))
        elif x < 0.9: out.append(r.choice(WORDS))
        else: out.append(chr(r.choice([r.randint(1, 0x7f), r.randint(0x80, 0x7ff), r.randint(0x800, 0xd7ff), r.randint(0xe000, 0xffff), r.randint(0x10000, 0x10ffff)])))
    return ''.join(out)

def gen_arg(r):
    k = r.randint(0, 9)
    if k == 0: return ''
    if k == 1: return r.choice(WORDS)
    if k == 2: return ''.join(r.choice(SPECIAL) for _ in range(r.randint(1, 5)))
    if k == 3: return ''.join(chr(r.randint(0x80, 0xff)) for _ in range(r.randint(1, 4)))          # latin-1 range
    if k == 4:                                                                                  # mojibake: utf-8 bytes read as latin-1
        return ''.join(chr(b) for b in r.choice(WORDS[5:]).encode('utf-8')) + r.choice(['', 'a', 'é'])
    if k == 5: return ''.join(r.choice(ESCAPES) for _ in range(r.randint(1, 3)))
    return gen_raw(r)

def gen_args(r):
    return [gen_arg(r) for _ in range(r.choice([0, 1, 1, 2, 3, 5]))]

def gen_tree(r, depth):
    """list of items; item = str | list"""
    out = []
    for _ in range(r.choice([0, 1, 2, 2, 3, 4])):
        if depth > 0 and r.random() < 0.4:
            out.append(gen_tree(r, depth - 1))
        else:
            out.append(gen_arg(r))
    return out

BARE = 'abcxyzABC0189_-.,;:!?#@$%&*+=/~^éß中😀'
def gen_bare_tree(r, depth):
    """items: ('w', bare word) | ('q', any text, written quoted) | list"""
    out = []
    for _ in range(r.choice([0, 1, 2, 2, 3, 4])):
        x = r.random()
        if depth > 0 and x < 0.4:
            out.append(gen_bare_tree(r, depth - 1))
        elif x < 0.8:
            out.append(('w', ''.join(r.choice(BARE) for _ in range(r.randint(1, 5)))))
        else:
            out.append(('q', gen_arg(r)))
    return out

def render_bare(r, items, l, rr):
    """blanks only where two bare words would run together (else optional)"""
    out = ''
    prev = None
    for it in items:
        if isinstance(it, list):
            piece = l + render_bare(r, it, l, rr) + rr; kind = 'b'
        elif it[0] == 'w':
            piece = it[1]; kind = 'w'
        else:
            piece = quote(it[1]); kind = 'q'
        # a word directly followed by a quote char would swallow it (shlex appends quotes inside a word)
        need = prev is not None and (prev == 'w' and kind in 'wq')
        if prev is not None and (need or r.random() < 0.5):
            out += r.choice([' ', ' ', '  ', '\t'])
        out += piece
        prev = kind
    return out

def bare_value(items):
    return [bare_value(it) if isinstance(it, list) else it[1] for it in items]

def render(t, l, rr, sep):
    if isinstance(t, str):
        return quote(t)
    return l + sep.join(render(x, l, rr, sep) for x in t) + rr

LEXSETS = [' \t\r\n', ' ', '', ' a', 'ab', '"', ' "', '\x00\r\n \t[]"', '\x00\r\n \t|"\'', 'xyz |', 'a"', " '"]
def gen_lexcfg(r):
    k = r.randint(0, 3)
    if k == 0:
        b = r.choice(BRACKETS); q = r.choice(QUOTESETS)
        return ' \t\r\n', '\x00\r\n \t' + b + ('|' if r.random() < 0.5 else '') + q, q
    return r.choice(LEXSETS), r.choice(LEXSETS), r.choice(QUOTESETS + ['a', ' ', 'a"', '" '])

def gen_token(r):
    k = r.randint(0, 5)
    q = r.choice(['"', '"', '"', "'", '`'])
    body = ''.join(r.choice(ESCAPES + WORDS + ['\\\\', '\\"', ' ', '[', '|']) for _ in range(r.randint(0, 5)))
    if k == 0: return body or 'x'
    if k == 1: return q
    if k == 2: return q + body
    return q + body + q

def gen_bytes(r):
    out = b''
    for _ in range(r.randint(0, 8)):
        x = r.random()
        if x < 0.6: out += r.choice(ESCAPES).encode('utf-8')
        elif x < 0.8: out += bytes([r.randint(0, 255)])
        else: out += r.choice(WORDS).encode('utf-8')
    return out

# --------------------------------------------------------------------------------------------
# one exploration
# --------------------------------------------------------------------------------------------
def conf_input(cf):
    return {'nested': cf[0], 'brackets': cf[1], 'pipeSyntax': cf[2], 'quotes': cf[3]}

def conf_line(cf, s):
    return 'tok\t%d\t%s\t%d\t%s\t%s' % (cf[0], wire.enc(cf[1]), cf[2], wire.enc(cf[3]), wire.enc(s))

class Explorer(object):
    def __init__(self, impl):
        self.impl = impl
        self.cases = []; self.lines = []; self.pend = []

    def add(self, case, line):
        self.cases.append(case); self.lines.append(line); self.pend.append(case)

    def tok(self, cf, s, kind, expect=None, finding=None, extra_tags=(), at=None, scope=None, history=None):
        """expect: python tree the property statement requires (None = only totality).
        at = (network, channel): tokenize is called with these arguments under the scoped configuration
        `scope` already applied; `cf` is then the effective configuration computed by the harness"""
        if not valid_unicode(s):
            return
        if at is not None:
            out, r = self.impl.tokenize_at(s, at[0], at[1])
        else:
            out, r = self.impl.tokenize(cf, s)
        ok = True; msg = ''
        if out.startswith('crash'):
            ok = False; msg = 'tokenize(%r) under %r: %s (neither a token tree nor a SyntaxError)' % (s, conf_input(cf), out.split('\t')[1])
        elif expect is not None and r != expect:
            ok = False; msg = 'tokenize(%r) under %r gives %s, required %r' % (s, conf_input(cf), (repr(r) if r is not None else out), expect)
        elif (not cf[0] or (cf[1] == '' and not cf[2])) and r is not None and any(not isinstance(x, str) for x in r):
            ok = False; msg = 'nesting is off but tokenize(%r) contains a sub-list: %r' % (s, r)
        elif r is not None and unencodable_tokens(r):
            ok = False; msg = 'tokenize(%r) contains a token that is not a string of Unicode scalar values (cannot be encoded): %r' % (s, unencodable_tokens(r))
        tags = list(extra_tags)
        o = out.split('\t')
        if o[0] == 'syntax': tags.append('err:' + o[1])
        if o[0] == 'tree':
            if '(' in o[1]: tags.append('node')
            if '"' in s and '"' in cf[3]: tags.append('dq')
            if '\\' in s: tags.append('backslash')
            if cf[2] and cf[0] and '|' in s: tags.append('pipe')
        c = Case(dict(op='tok', s=s, **conf_input(cf)), impl=out, oracle_ok=ok, oracle_msg=msg, kind=kind,
                 tags=tags, finding=(finding if not ok else None))
        if at is not None:
            c.input['network'] = at[0]; c.input['channel'] = at[1]
            if history is not None:
                # what happened before in this scope: the first configuration, then every tokenize call and every change
                c.input['history'] = [list(h) for h in history]
            c.input['scope'] = dict(nested=scope['nested'], glob=scope['glob'], net=scope['net'], chan=scope['chan'],
                                    netchan=[[n, ch, d] for (n, ch), d in scope['netchan'].items()])
            if not ok:
                c.oracle_msg = 'with the configuration set at global/network/channel level as in input.scope, network=%r channel=%r (effective %r): %s' % (
                    at[0], at[1], conf_input(cf), msg)
        if expect is not None:
            c.input['expect'] = expect
        self.add(c, conf_line(cf, s))

    def simple(self, op, fields, impl_out, kind, tags, inp):
        c = Case(dict(op=op, **inp), impl=impl_out, kind=kind, tags=tags)
        self.add(c, op + '\t' + '\t'.join(fields))

def explore(impl, r, n, corpus=()):
    """n: dict stream -> count"""
    ex = Explorer(impl)
    for item in corpus:
        cf = (item.get('nested', True), item.get('brackets', '[]'), item.get('pipeSyntax', False), item.get('quotes', '"'))
        if 'xs' in item:
            w = item.get('writer', 'quote')
            f = quote if w == 'quote' else impl.ustr.dqrepr
            xs = item['xs']
            fnd = None
            ex.tok(cf, ' '.join(f(x) for x in xs), 'corpus', expect=xs, finding=fnd, extra_tags=('w:' + w,))
        else:
            ex.tok(cf, item['s'], 'corpus')
    for _ in range(n.get('raw', 0)):
        ex.tok(gen_conf(r), gen_raw(r), 'raw')
    for _ in range(n.get('quote', 0)):
        cf = gen_conf(r)
        if '"' not in cf[3]:
            cf = cf[:3] + ('"' + cf[3],)
        xs = gen_args(r)
        if not all(valid_unicode(x) for x in xs): continue
        ex.tok(cf, ' '.join(quote(x) for x in xs), 'quote', expect=xs, extra_tags=('w:quote', 'n%d' % min(len(xs), 3)))
    for _ in range(n.get('dqrepr', 0)):
        cf = gen_conf(r)
        if '"' not in cf[3]:
            cf = cf[:3] + ('"' + cf[3],)
        xs = gen_args(r)
        if not all(valid_unicode(x) for x in xs): continue
        fnd = None
        ex.tok(cf, ' '.join(impl.ustr.dqrepr(x) for x in xs), 'dqrepr', expect=xs, finding=fnd,
               extra_tags=('w:dqrepr',) + (('latin1-utf8-text',) if any(in_dqrepr_class(x) for x in xs) else ()))
    for _ in range(n.get('nest', 0)):
        b = r.choice(BRACKETS[1:])
        cf = (True, b, r.random() < 0.4, r.choice(['"', '"', '"\'', '`"']))
        t = gen_tree(r, r.randint(0, 6))
        sep = r.choice([' ', ' ', '  ', ' \t'])
        s = sep.join(render(x, b[0], b[1], sep) for x in t)
        if not valid_unicode(s): continue
        ex.tok(cf, s, 'nest', expect=t, extra_tags=('w:nest',))
    for _ in range(n.get('nestw', 0)):
        b = r.choice(BRACKETS[1:])
        cf = (True, b, r.random() < 0.3, r.choice(['"', '"', '"\'', '`"']))
        items = gen_bare_tree(r, r.randint(0, 5))
        s = render_bare(r, items, b[0], b[1])
        if not valid_unicode(s): continue
        ex.tok(cf, s, 'nestw', expect=bare_value(items), extra_tags=('w:nestw',))
    n_sc = n.get('scoped', 0)
    hist = []
    def scoped_round(sc, chans, count):
        for _ in range(count):
            at = (r.choice([None, None, 'vtneta', 'vtnetb', 'nonet']), r.choice([None] + chans + chans + ['notachannel']))
            cf = effective(sc, at[0], at[1])
            hist.append(['tok', at[0], at[1]])
            x = r.random()
            if x < 0.3:
                ex.tok(cf, gen_raw(r), 'scoped', at=at, scope=sc, extra_tags=('scoped',), history=hist[:-1])
            elif x < 0.5 and '"' in cf[3]:
                xs = gen_args(r)
                if all(valid_unicode(a) for a in xs):
                    ex.tok(cf, ' '.join(quote(a) for a in xs), 'scoped', expect=xs, at=at, scope=sc, extra_tags=('scoped', 'w:quote'), history=hist[:-1])
            elif x < 0.75 and cf[0] and cf[1] and '"' in cf[3]:
                t = gen_tree(r, r.randint(0, 3))
                s2 = ' '.join(render(a, cf[1][0], cf[1][1], ' ') for a in t)
                ex.tok(cf, s2, 'scoped', expect=t, at=at, scope=sc, extra_tags=('scoped', 'w:nest'), history=hist[:-1])
            else:
                # the pipe syntax: on => `a | b` is `b [a]`; off => `|` is an ordinary word
                seg = lambda: [''.join(r.choice('abcxyz019') for _ in range(r.randint(1, 4))) for _ in range(r.randint(1, 3))]
                a, b = seg(), seg()
                want = (b + [a]) if (cf[0] and cf[2]) else (a + ['|'] + b)
                ex.tok(cf, ' '.join(a) + ' | ' + ' '.join(b), 'scoped', expect=want, at=at, scope=sc,
                       extra_tags=('scoped', 'pipe-on' if (cf[0] and cf[2]) else 'pipe-off'), history=hist[:-1])
    while n_sc > 0:
        sc, chans = gen_scoped(r)
        impl.apply_scoped(sc)
        del hist[:]
        hist.append(['scope', dict(nested=sc['nested'], glob=sc['glob'], net=sc['net'], chan=sc['chan'],
                                   netchan=[[n_, c_, d_] for (n_, c_), d_ in sc['netchan'].items()])])
        scoped_round(sc, chans, 6); n_sc -= 6
        # a HISTORY: the owner changes one value at one level (`config [network x] [channel #y] …`), commands are
        # tokenised again at the same and at other (network, channel) pairs, several rounds; the effective
        # configuration is recomputed from what was set after every change
        for _round in range(3):
            k = r.choice(['brackets', 'pipeSyntax', 'quotes'])
            v = {'brackets': r.choice(BRACKETS), 'pipeSyntax': r.random() < 0.5, 'quotes': r.choice(['"', '"\'', '`"', "'", ''])}[k]
            level = r.choice(['glob', 'net', 'chan', 'netchan', 'netchan'])
            sc = dict(sc, glob=dict(sc['glob']), net={a: dict(b) for a, b in sc['net'].items()},
                      chan={a: dict(b) for a, b in sc['chan'].items()}, netchan={a: dict(b) for a, b in sc['netchan'].items()})
            g = impl.scoped_groups()[k]
            if level == 'glob':
                sc['glob'][k] = v; g.setValue(v); hist.append(['set', k, None, None, v])
            elif level == 'net':
                sc['net'].setdefault('vtneta', {})[k] = v; g.get(':vtneta').setValue(v); hist.append(['set', k, 'vtneta', None, v])
            elif level == 'chan':
                ch = r.choice(chans)
                sc['chan'].setdefault(ch, {})[k] = v; g.get(ch).setValue(v); hist.append(['set', k, None, ch, v])
            else:
                key = (r.choice(['vtneta', 'vtnetb']), r.choice(chans))
                sc['netchan'].setdefault(key, {})[k] = v; g.get(':' + key[0]).get(key[1]).setValue(v)
                hist.append(['set', k, key[0], key[1], v])
            scoped_round(sc, chans, 4); n_sc -= 4
    impl._conf = None
    for _ in range(n.get('deep', 0)):
        # as deep as one IRC line can carry: 512 bytes minus ':nick!user@host PRIVMSG #c :@' leave about 470
        d = r.randint(50, 470)
        b = r.choice(BRACKETS[1:])
        cf = (True, b, False, '"')
        k = r.randint(0, 3)
        if k == 3:
            ex.tok(cf, 'echo ' + b[0] * (d - 5), 'deep', extra_tags=('deep',)); continue
        if k == 0:
            d = min(d, 230)               # `[[…"x"…]]` takes two characters per level
            t = 'x'
            for _ in range(d): t = [t]
            ex.tok(cf, render(t, b[0], b[1], ' '), 'deep', expect=[t], extra_tags=('deep',))
        elif k == 1:
            ex.tok(cf, b[0] * d + 'x', 'deep', extra_tags=('deep',))
        else:
            ex.tok(cf, b[0] * (d // 2) + b[1] * (d // 2 + 1), 'deep', extra_tags=('deep',))
    for _ in range(n.get('T', 0)):
        b = r.choice(BRACKETS + ['[]', 'x', 'xy', '[]]', '||', '""', '  '])
        p = r.random() < 0.5; q = r.choice(QUOTESETS); s = gen_raw(r)
        if not valid_unicode(s): continue
        ex.simple('T', [wire.enc(b), '%d' % p, wire.enc(q), wire.enc(s)], impl.tokenizeT(b, p, q, s), 'T',
                  ('T', 'pipe' if p else 'nopipe'), dict(brackets=b, pipe=p, quotes=q, s=s))
    for _ in range(n.get('lex', 0)):
        ws, sp, q = gen_lexcfg(r); s = gen_raw(r)
        if not valid_unicode(s): continue
        o = impl.lex(ws, sp, q, s)
        if o == 'fuel': o = 'hang'
        ex.simple('lex', [wire.enc(ws), wire.enc(sp), wire.enc(q), wire.enc(s)], o, 'lex',
                  ('lex', o.split('\t')[-1]), dict(whitespace=ws, separators=sp, quotes=q, s=s))
    for _ in range(n.get('handle', 0)):
        q = r.choice(QUOTESETS); t = gen_token(r)
        if not valid_unicode(t): continue
        o = impl.handle(q, t)
        ex.simple('handle', [wire.enc(q), wire.enc(t)], o, 'handle', ('handle', o.split('\t')[0]) + tuple('e:' + o.split('\t')[1] for _ in [0] if o.startswith('ValueError')), dict(quotes=q, token=t))
    for _ in range(n.get('uesc', 0)):
        b = gen_bytes(r)
        o = impl.uesc(b)
        ex.simple('uesc', [b.hex()], o, 'uesc', ('uesc', o.split('\t')[0]), dict(bytes=b.hex()))
    for _ in range(n.get('writers', 0)):
        x = gen_arg(r)
        if not valid_unicode(x): continue
        ex.simple('dqrepr', [wire.enc(x)], wire.enc(impl.ustr.dqrepr(x)), 'writers', ('dqrepr',), dict(s=x))
        ex.simple('quote', [wire.enc(x)], wire.enc(quote(x)), 'writers', ('quote',), dict(s=x))
    return ex

NAME_RE = re.compile(rb'\\N\{([^}]*)\}')
def name_table(lines):
    """the parameter `names` of the model: for every \\N{...} name occurring in the inputs, what the
    codec's own name table answers (asked through the codec, one name at a time)"""
    names = set()
    for l in lines:
        for f in l.split('\t')[1:]:
            try:
                b = bytes.fromhex(f)
            except ValueError:
                continue
            names.update(NAME_RE.findall(b))
    out = []
    for nm in sorted(names):
        if not nm:
            continue
        try:
            r = codecs.getdecoder('unicode_escape')(b'\\N{' + nm + b'}')[0]
        except ValueError:
            continue
        if len(r) == 1:
            out.append('uname\t%s\t%d' % (nm.hex(), ord(r)))
    return out

def fill_model(ex):
    tab = name_table(ex.lines)
    outs = wire.run_driver(PROPERTY, tab + ex.lines)
    if any(o != 'ok' for o in outs[:len(tab)]):
        raise RuntimeError('driver rejected a name-table line')
    for c, o in zip(ex.pend, outs[len(tab):]):
        c.model = o
    return ex.cases

def load_corpus():
    p = os.path.join(CORPUS, 'C13', 'cases.json')
    try:
        return json.load(open(p))
    except OSError:
        return []

def finding_status(impl):
    st = {}
    for f in verdict.load_findings(PROPERTY):
        w = f.get('witness', {})
        cf = (w.get('nested', True), w.get('brackets', '[]'), w.get('pipeSyntax', False), w.get('quotes', '"'))
        if 'xs' in w:
            xs = w['xs']
            out, r = impl.tokenize(cf, ' '.join(impl.ustr.dqrepr(x) for x in xs))
            st[f['id']] = (r != xs, 'tokenize(dqrepr(%r)) = %r' % (xs, r if r is not None else out))
        else:
            out, r = impl.tokenize(cf, w['s'])
            bad = unencodable_tokens(r) if r is not None else []
            st[f['id']] = (bool(bad), 'tokenize(%r) = %r: a token that cannot be encoded (lone surrogate)' % (w['s'], r if r is not None else out))
    return st

COUNTS_QUICK = dict(raw=80000, quote=30000, dqrepr=20000, nest=12000, nestw=12000, scoped=12000, deep=40, T=15000, lex=25000, handle=25000, uesc=20000, writers=6000)

def run(ctx):
    build = leanbuild.ensure(PROPERTY, THEOREMS, thorough=ctx.thorough, extractors=['Tokenizer'])
    impl = Impl()
    scale = 12 if ctx.thorough else 1
    n = {k: v * scale for k, v in COUNTS_QUICK.items()}
    if ctx.thorough:
        n['scoped'] = COUNTS_QUICK['scoped'] * 2      # every scope registers fresh channel children: cost grows quadratically
    corpus = load_corpus() + [dict(xs=f['witness']['xs'], writer='dqrepr') for f in verdict.load_findings(PROPERTY) if 'xs' in f.get('witness', {})] \
        + [dict(s=f['witness']['s']) for f in verdict.load_findings(PROPERTY) if 's' in f.get('witness', {})]
    try:
        ex = explore(impl, rng.make('c13'), n, corpus)
        cases = fill_model(ex) if build.driver_ok else ex.cases
    except Exception as e:
        # an exception that comes out of the implementation's own code while the harness drives it through a path
        # it has no wrapper for is a failure of the implementation, reported with the traceback — not exit 2
        import traceback
        tb = traceback.extract_tb(e.__traceback__)
        from vlib import REPO
        if not (tb and os.path.realpath(tb[-1].filename).startswith(os.path.realpath(REPO))):
            raise
        cases = [Case(dict(op='drive', where='%s:%d %s' % (tb[-1].filename, tb[-1].lineno, tb[-1].name)),
                      oracle_ok=False, kind='drive', tags=('drive',),
                      oracle_msg='driving the implementation raised %s: %s\n%s' % (type(e).__name__, e, ''.join(traceback.format_tb(e.__traceback__)[-4:])))]
    def search(disagreements, broken):
        import random
        rr = random.Random('%d/c13-search' % ctx.seed)
        seeds = []
        for d in disagreements[:200]:
            i = d.input
            if i.get('op') == 'tok':
                seeds.append(dict(s=i['s'], nested=i['nested'], brackets=i['brackets'], pipeSyntax=i['pipeSyntax'], quotes=i['quotes']))
            elif 's' in i or 'token' in i:
                # a lexer/handle/T-level disagreement: try the text as arguments and as raw input under every style
                t = i.get('s', i.get('token', ''))
                for b in BRACKETS:
                    seeds.append(dict(s=t, brackets=b, pipeSyntax=bool(i.get('pipe', False)), quotes=i.get('quotes', '"') or '"'))
                    seeds.append(dict(xs=[t], brackets=b, quotes='"'))
        more = explore(impl, rr, dict(raw=60000, quote=40000, nest=15000, nestw=15000, scoped=20000, deep=20), seeds)
        return [c for c in more.cases if c.oracle_ok is False]
    return verdict.conclude(PROPERTY, ctx.tier, ctx.seed, build, cases, search=search, rule=RULE,
                            finding_status=finding_status(impl), trusted_base=TRUSTED,
                            assumptions=['input strings are sequences of Unicode scalar values (no lone surrogates)',
                                         'nesting depth: everything that fits in one IRC line (up to 470 brackets; CPython recursion limit itself is not modelled)',
                                         'configuration values passed validation (ValidBrackets, ValidQuotes)'],
                            t0=ctx.t0)

def replay(ctx, path):
    if not os.path.isabs(path) and not os.path.exists(path):
        path = os.path.join(VERIF, path)
    d = json.load(open(path))
    impl = Impl()
    c = d.get('case') or d.get('first_disagreement')
    print(json.dumps(c, indent=1, ensure_ascii=True))
    if not c:
        return 0
    i = c['input']
    if i.get('op') == 'tok' and 'history' in i:
        # re-live the scope: first configuration, then every earlier tokenize call and configuration change
        for h in i['history']:
            if h[0] == 'scope':
                sc = dict(h[1]); sc['netchan'] = {(n, ch): d for n, ch, d in sc['netchan']}
                impl.apply_scoped(sc)
            elif h[0] == 'tok':
                impl.tokenize_at('x', h[1], h[2])
            else:
                g = impl.scoped_groups()[h[1]]
                if h[2]: g = g.get(':' + h[2])
                if h[3]: g = g.get(h[3])
                g.setValue(h[4])
                print('config change: %s network=%r channel=%r := %r' % (h[1], h[2], h[3], h[4]))
        out, r = impl.tokenize_at(i['s'], i['network'], i['channel'])
        print('implementation now: tokenize(%r, channel=%r, network=%r) -> %s' % (i['s'], i['channel'], i['network'], repr(r) if r is not None else out))
        if 'expect' in i:
            print('required (effective pipeSyntax=%r brackets=%r quotes=%r nested=%r): %r   %s' % (
                i['pipeSyntax'], i['brackets'], i['quotes'], i['nested'], i['expect'], 'OK' if r == i['expect'] else 'FAILS'))
    elif i.get('op') == 'tok' and 'scope' in i:
        sc = dict(i['scope']); sc['netchan'] = {(n, ch): d for n, ch, d in sc['netchan']}
        impl.apply_scoped(sc)
        out, r = impl.tokenize_at(i['s'], i['network'], i['channel'])
        print('implementation now: tokenize(%r, channel=%r, network=%r) -> %s' % (i['s'], i['channel'], i['network'], repr(r) if r is not None else out))
        if 'expect' in i:
            print('required (effective pipeSyntax=%r brackets=%r quotes=%r nested=%r): %r   %s' % (
                i['pipeSyntax'], i['brackets'], i['quotes'], i['nested'], i['expect'], 'OK' if r == i['expect'] else 'FAILS'))
    elif i.get('op') == 'tok':
        out, r = impl.tokenize((i['nested'], i['brackets'], i['pipeSyntax'], i['quotes']), i['s'])
        print('implementation now: tokenize(%r) -> %s' % (i['s'], repr(r) if r is not None else out))
        if 'expect' in i:
            print('required: %r   %s' % (i['expect'], 'OK' if r == i['expect'] else 'FAILS'))
    elif i.get('op') == 'T':
        print('implementation now:', impl.tokenizeT(i['brackets'], i['pipe'], i['quotes'], i['s']))
    elif i.get('op') == 'lex':
        print('implementation now:', impl.lex(i['whitespace'], i['separators'], i['quotes'], i['s']))
    elif i.get('op') == 'handle':
        print('implementation now:', impl.handle(i['quotes'], i['token']))
    elif i.get('op') == 'uesc':
        print('implementation now:', impl.uesc(bytes.fromhex(i['bytes'])))
    return 0
