"""C17 — a crash while saving never leaves a half-written database or configuration.

Implementation side (CrashBox): the real flush code of users / channels / networks / ignores /
registry / FlatfileMapping.vacuum runs in a forked child whose file-system primitives
(builtins.open and the returned file objects' write/close, os.rename/replace, os.unlink/remove,
os.sendfile, os.chmod/utime, os.path.getsize/exists) are wrapped; the child really dies
(os._exit, no buffer is flushed) immediately before / immediately after the k-th call, for every k.
The parent then reads the bytes on disk and reloads them with the real loader (in another child).

Model side: lean/LimnoriaModel/C17/Model.lean predicts, from the configuration, the old content and
the observed write chunks (+ how much of each the runtime pushed to disk), the sequence of
effectful calls and the on-disk state (target / temp / backup) after each of them; both are
compared exactly.  The property oracle (target bytes in {old, new}, loads, temp never read) is
evaluated on the implementation only."""
import builtins, errno, json, os, re, shutil, sys, time, traceback
from vlib import wire, rng, leanbuild, verdict, bot
from vlib.verdict import Case

PROPERTY = 'C17'
MANIFEST = {
 'level_text': 'Lean 4 theorems about a model of utils.file.AtomicFile over an explicit file-system state with process-side write buffers (every primitive call is one step; a crash keeps the disk and drops the buffers): for every old content, every chunking of the new content, every buffering schedule, every tmp/backup configuration and every crash index the target is the old or the new version (crash_atomic), also along arbitrary histories of completed / aborted / killed flushes (history_versions) and, file by file, when several files are flushed in a row by world.flush() (multi_flush_atomic, files_independent); a completed flush installs exactly the new content; rollback never touches the target; temp and backup names differ from the target name; generated inventories show that the only AtomicFile call sites of ircdb/registry/dbi are the modelled callers and that nothing else in src/ opens a file for writing except a fixed list of record-level / journal writers (atomic_sites_cover, direct_writers_known), of which dbi.FlatfileMapping.add/remove are modelled separately (flat_add_states, flat_add_atomic: below the counter line the file holds the old or the new records at every crash index; flat_remove_atomic) and FlatfileMapping.set now is an AtomicFile rewrite (flat_set_atomic). The model is tied to /repo by extraction (call order and tests of AtomicFile.close/rollback/__init__, defaults, every call site in ircdb/registry/dbi) and by a differential run in which the real flush code of the six callers is killed (fork + os._exit) before and after every file-system call and the bytes found on disk are compared with the model state at that index; the property statement (bytes are old or new, the real loader accepts them, only the target is read) is evaluated on the implementation at every crash point.',
 'level_note': 'Trusted: Lean kernel; axioms propext/Classical.choice/Quot.sound only; harness/extractors/atomicfile.py; the CrashBox wrappers (a file-system call the wrappers do not see is not a crash point); POSIX semantics assumed by the model: rename within one file system is atomic, open(p,"a") does not change existing content, process death loses exactly the user-space buffers (no power loss, no fsync reasoning). Modelled and proved: AtomicFile.__init__/write/writelines/close/rollback/__del__, shutil.copy (backup) and shutil.move call sequences, name construction (os.path.join/basename). Callers are exercised (their write patterns are arbitrary chunk lists in the model): users, channels, networks, ignores, a synthetic registry, the full supybot registry (registry.close as scripts/supybot and Config.export call it), FlatfileMapping.vacuum, and world.flush() over five files incl. userdata.conf; loaders are exercised only. Not modelled, and why: utils.transaction is imported by utils/__init__ but used nowhere (no Transaction(...) call site in src/ or plugins/); dbi.DirMapping is not offered by dbi.Mappings (unreachable; its crash run is in the evidence for information); cdb (the optional cdb mapping, not selected by any bundled plugin) is not usable on this tree at all: reading back a stored key raises KeyError (Reader.find), so db[k] after db[k] = v fails; its design (journal appended and flushed per modification, constant database rebuilt through Maker, an AtomicFile in wb mode, journal replayed on open) is inventoried only.',
 'technique': 'Lean 4 proof (invariants over call sequences, all crash indices) + source extraction + differential crash injection with real process death',
 'design_ref': 'DESIGN.md §6 C17',
}
THEOREMS = ['C17.crash_atomic', 'C17.flush_complete', 'C17.flush_skipped', 'C17.abort_safe',
            'C17.history_versions', 'C17.open_atomic', 'C17.multi_flush_atomic', 'C17.files_independent',
            'C17.temp_never_read', 'C17.backup_not_target', 'C17.temp_not_backup',
            'C17.cross_device_counter', 'C17.close_calls_ok', 'C17.callers_ok',
            'C17.direct_writers_known', 'C17.atomic_sites_cover',
            'C17.flat_set_atomic', 'C17.Flat.flat_add_states', 'C17.Flat.flat_add_atomic', 'C17.Flat.flat_remove_atomic',
            'C17.Flat.flat_add_counter', 'C17.Flat.flat_set_counter']
TRUSTED = ['Lean 4.33.0 kernel; axioms ⊆ {propext, Classical.choice, Quot.sound}',
           'harness/extractors/atomicfile.py (AtomicFile call order/tests/defaults/call sites → Gen/AtomicFile.lean)',
           'harness/c17.py CrashBox: wrappers around builtins.open/file.write/file.close/os.rename/os.replace/os.unlink/os.remove/os.sendfile/os.chmod/os.utime/os.path.getsize/os.path.exists; fork + os._exit',
           'POSIX: rename inside one file system is atomic; open(p,"a") leaves existing content alone; process death loses user-space buffers only',
           'parameter: mktemp() returns lower-case hex digits (checked on every observed temp name)']
RULE = ('one case = one (caller, old state, new state, tmp/backup/allowEmpty configuration, outcome) scenario: the real flush is traced '
        'once and then killed at every entry and every exit of every wrapped file-system call; the canonical "calls;states" string of the '
        'implementation is compared with the model.  A case is non-trivial when it has at least one tag (caller, size class, model '
        'branch: backup / skip-empty / created / exdev / abort); distinct = distinct scenario description.')

BLK = 2 ** 23          # shutil._fastcopy_sendfile: blocksize = max(filesize, 2**23)

# ------------------------------------------------------------------------------------------
# CrashBox
# ------------------------------------------------------------------------------------------
_real_open = builtins.open
_real = {}

class Die(BaseException):
    pass

class Box(object):
    """state of the wrappers inside a child"""
    def __init__(self, root, die_at=None, exdev=False, record=True, raise_at=None):
        self.raise_at = raise_at    # (index of the write call, exception factory): that write raises instead of writing
        self.nwrites = 0
        self.root = os.path.abspath(root) + os.sep
        self.die_at = die_at
        self.exdev = exdev
        self.points = 0
        self.events = []
        self.fdpath = {}
        self.reads = []
        self.record = record
        self.raised = False

    def mine(self, p):
        # by the path the code used, not by what a symbolic link resolves to
        try:
            return os.path.abspath(os.fspath(p)).startswith(self.root)
        except TypeError:
            return False

    def point(self):
        if self.die_at is not None and self.points == self.die_at:
            os._exit(99)
        self.points += 1

    def size(self, p):
        try:
            return _real['stat'](p).st_size
        except OSError:
            return None

    def call(self, kind, paths, fn, extra=None):
        """run fn() as one wrapped call: crash point, effect, crash point"""
        self.point()
        before = [self.size(p) for p in paths]
        try:
            r = fn()
        finally:
            after = [self.size(p) for p in paths]
            ev = {'k': kind, 'p': [os.path.abspath(p) for p in paths], 'before': before, 'after': after}
            if extra:
                ev.update(extra)
            self.events.append(ev)
            self.point()
        return r

class FileProxy(object):
    def __init__(self, box, f, path, kind):
        self.__dict__['_b'] = box; self.__dict__['_f'] = f; self.__dict__['_p'] = path; self.__dict__['_k'] = kind
        try:
            box.fdpath[f.fileno()] = path
        except Exception:
            pass
    def write(self, data):
        bx = self._b
        if bx.raise_at is not None and self._k in ('w', 'a'):
            j = bx.nwrites
            bx.nwrites += 1
            if j == bx.raise_at[0]:
                bx.raised = True
                raise bx.raise_at[1]()
        n = len(data.encode('utf-8')) if isinstance(data, str) else len(data)
        b = bytes(data.encode('utf-8') if isinstance(data, str) else data)
        return self._b.call('write', [self._p], lambda: self._f.write(data), {'n': n, 'd': b.hex()})
    def writelines(self, lines):
        lines = list(lines)
        j = ''.join(lines) if lines and isinstance(lines[0], str) else b''.join(lines)
        return self.write(j) if lines else None
    def flush(self):
        return self._b.call('flush', [self._p], lambda: self._f.flush())
    def close(self):
        if self._f.closed:
            return None
        k = 'close' if self._k in ('w', 'a') else 'closeR'
        return self._b.call(k, [self._p], lambda: self._f.close())
    def __enter__(self):
        return self
    def __exit__(self, *a):
        self.close()
    def __iter__(self):
        return iter(self._f)
    def __next__(self):
        return next(self._f)
    def __getattr__(self, name):
        return getattr(self._f, name)
    def __setattr__(self, name, v):
        setattr(self._f, name, v)

def install(box):
    _real.update(stat=os.stat, rename=os.rename, replace=os.replace, unlink=os.unlink, remove=os.remove,
                 sendfile=os.sendfile, chmod=os.chmod, utime=os.utime, getsize=os.path.getsize,
                 exists=os.path.exists)
    def w_open(file, mode='r', *a, **kw):
        if isinstance(file, int) or not box.mine(file):
            return _real_open(file, mode, *a, **kw)
        path = os.path.abspath(file)
        kind = 'w' if 'w' in mode or 'x' in mode else 'a' if 'a' in mode else 'r+' if '+' in mode else 'r'
        name = {'w': 'openW', 'a': 'openA', 'r': 'openR', 'r+': 'openRW'}[kind]
        if kind == 'r':
            box.reads.append(path)
        f = box.call(name, [path], lambda: _real_open(file, mode, *a, **kw))
        return FileProxy(box, f, path, kind)
    def w2(name, real):
        def f(src, dst, *a, **kw):
            if not (box.mine(src) or box.mine(dst)):
                return real(src, dst, *a, **kw)
            # simulated second file system: every directory of the scenario is its own device
            cross = box.exdev and os.path.dirname(os.path.abspath(src)) != os.path.dirname(os.path.abspath(dst))
            def go():
                if cross:
                    raise OSError(errno.EXDEV, 'Invalid cross-device link (simulated)')
                return real(src, dst, *a, **kw)
            return box.call('renameX' if cross else 'rename', [src, dst], go)
        return f
    def w1(kind, real):
        def f(p, *a, **kw):
            if isinstance(p, int) or not box.mine(p):
                return real(p, *a, **kw)
            return box.call(kind, [p], lambda: real(p, *a, **kw))
        return f
    def w_sendfile(out, inp, offset, count, *a, **kw):
        src = box.fdpath.get(inp); dst = box.fdpath.get(out)
        if src is None or dst is None:
            return _real['sendfile'](out, inp, offset, count, *a, **kw)
        res = {}
        def go():
            res['n'] = _real['sendfile'](out, inp, offset, count, *a, **kw)
            return res['n']
        box.point()
        before = box.size(dst)
        try:
            return go()
        finally:
            box.events.append({'k': 'copy', 'p': [src, dst], 'before': [None, before], 'after': [None, box.size(dst)]})
            box.point()
    builtins.open = w_open
    os.rename = w2('rename', _real['rename'])
    os.replace = w2('replace', _real['replace'])
    os.unlink = w1('unlink', _real['unlink'])
    os.remove = w1('unlink', _real['remove'])
    os.sendfile = w_sendfile
    os.chmod = w1('meta', _real['chmod'])
    os.utime = w1('meta', _real['utime'])
    os.path.getsize = w1('stat', _real['getsize'])
    os.path.exists = w1('stat', _real['exists'])

SILENT = ('stat', 'meta', 'openR', 'closeR', 'renameX')

def in_child(fn, timeout=60):
    """run fn() in a forked child; returns (exit status, JSON value the child reported or None)"""
    r, w = os.pipe()
    pid = os.fork()
    if pid == 0:
        rc = 0
        try:
            os.close(r)
            out = fn()
            data = json.dumps(out).encode()
            while data:
                n = os.write(w, data)
                data = data[n:]
        except BaseException:
            try:
                os.write(w, json.dumps({'__exc__': traceback.format_exc()[-1500:]}).encode())
            except Exception:
                pass
            rc = 3
        os._exit(rc)
    os.close(w)
    chunks = []
    t0 = time.time()
    while True:
        b = os.read(r, 1 << 16)
        if not b:
            break
        chunks.append(b)
    os.close(r)
    _, st = os.waitpid(pid, 0)
    code = os.WEXITSTATUS(st) if os.WIFEXITED(st) else -1
    raw = b''.join(chunks)
    try:
        val = json.loads(raw.decode()) if raw else None
    except ValueError:
        val = None
    return code, val

# ------------------------------------------------------------------------------------------
# scenarios: the six callers
# ------------------------------------------------------------------------------------------
HOSTS = ['*!*@host%d.example', 'nick%d!user@*.org', 'a%d!*@10.0.0.*', '*!ident%d@*']
CAPS = ['owner', 'admin', '-op', '#chan,op', 'trusted', '#x,-voice', 'channel']

def gen_state(r, kind, n):
    """a JSON-able description of a database state with n records"""
    recs = []
    for i in range(n):
        if kind == 'users':
            recs.append({'id': i + 1, 'name': 'user%d%s' % (i, rng.text(r, 4, 'abcxyz', 0, 0)),
                         'password': r.choice(['', 'pw%d' % r.randint(0, 999)]),
                         'caps': sorted(set(r.choice(CAPS) for _ in range(r.randint(0, 3)))),
                         'hostmasks': sorted(set(r.choice(HOSTS) % (10 * i + r.randint(0, 9)) for _ in range(r.randint(0, 2)))),
                         'secure': r.random() < 0.3})
        elif kind == 'channels':
            recs.append({'name': '#chan%d%s' % (i, rng.text(r, 3, 'abc', 0, 0)), 'lobotomized': r.random() < 0.3,
                         'defaultAllow': r.random() < 0.7,
                         'caps': sorted(set(r.choice(['op', '-voice', 'trusted', 'x']) for _ in range(r.randint(0, 2)))),
                         'bans': sorted(set(r.choice(HOSTS) % r.randint(0, 50) for _ in range(r.randint(0, 2))))})
        elif kind == 'networks':
            recs.append({'name': 'net%d' % i, 'sts': {'irc%d.example' % j: 'duration=%d,port=6697' % r.randint(1, 99999) for j in range(r.randint(0, 2))},
                         'disc': {'irc%d.example' % j: r.randint(1, 2 ** 31) for j in range(r.randint(0, 2))}})
        elif kind == 'ignores':
            recs.append({'mask': r.choice(HOSTS) % (10 * i + r.randint(0, 9)), 'exp': r.choice([0, 0, 4102444800 + r.randint(0, 999)])})
        elif kind in ('registry', 'conf', 'confexport'):
            recs.append({'name': 'val%d' % i, 'type': r.choice(['String', 'Integer', 'Boolean', 'Words']),
                         'v': r.randint(0, 10 ** r.randint(0, 6)), 's': rng.text(r, 14, 'abc xyz', 0.1, 0.1).replace('\0', ''),
                         'help': r.random() < 0.5})
        elif kind in ('flat', 'flatset'):
            recs.append({'s': rng.text(r, 20, 'abc:xyz,', 0, 0.1).replace('\n', ' ').replace('\r', ' '), 'dead': r.random() < 0.5})
    return recs

class Caller(object):
    """binds one real flush routine; `prepare(state, path)` returns (flush, loader)"""
    def __init__(self, b):
        self.b = b

    def users(self, state, path):
        ircdb = self.b.ircdb
        ud = ircdb.UsersDictionary()
        ud.noFlush = True
        for rec in state:
            u = ircdb.IrcUser(name=rec['name'], password=rec['password'], capabilities=rec['caps'], secure=rec['secure'],
                              hashed=False)
            for h in rec['hostmasks']:
                u.hostmasks.add(h)
            u.id = rec['id']
            ud.users[u.id] = u
            ud.nextId = max(ud.nextId, u.id)
        ud.noFlush = False
        ud.filename = path
        def load():
            d = ircdb.UsersDictionary()
            d.filename = path
            from supybot import unpreserve
            ircdb.IrcUserCreator.u = None
            unpreserve.Reader(ircdb.IrcUserCreator, d).readFile(path)
            return [[i, u.name, u.password, sorted(u.capabilities), sorted(u.hostmasks), u.secure] for i, u in sorted(d.users.items())]
        def reopen():
            # the real start-up / reload path: read the file, then flush what was read (UsersDictionary.open)
            d = ircdb.UsersDictionary()
            ircdb.IrcUserCreator.u = None
            d.open(path)
        fl = lambda: ud.flush()
        fl.reopen = reopen
        return fl, load

    def channels(self, state, path):
        ircdb = self.b.ircdb
        cd = ircdb.ChannelsDictionary()
        for rec in state:
            c = ircdb.IrcChannel(lobotomized=rec['lobotomized'], defaultAllow=rec['defaultAllow'])
            for cap in rec['caps']:
                c.addCapability(cap)
            for m in rec['bans']:
                c.addBan(m, 0)
            cd.channels[rec['name']] = c
        cd.filename = path
        def load():
            d = ircdb.ChannelsDictionary()
            from supybot import unpreserve
            ircdb.IrcChannelCreator.name = None
            unpreserve.Reader(ircdb.IrcChannelCreator, d).readFile(path)
            return [[n, c.lobotomized, c.defaultAllow, sorted(c.capabilities), sorted(c.bans)] for n, c in sorted(d.channels.items())]
        def reopen():
            d = ircdb.ChannelsDictionary()
            ircdb.IrcChannelCreator.name = None
            d.open(path)
        fl = lambda: cd.flush()
        fl.reopen = reopen
        return fl, load

    def networks(self, state, path):
        ircdb = self.b.ircdb
        nd = ircdb.NetworksDictionary()
        for rec in state:
            nd.networks[rec['name']] = ircdb.IrcNetwork(stsPolicies=dict(rec['sts']), lastDisconnectTimes=dict(rec['disc']))
        nd.filename = path
        def load():
            d = ircdb.NetworksDictionary()
            from supybot import unpreserve
            unpreserve.Reader(ircdb.IrcNetworkCreator, d).readFile(path)
            return [[n, sorted(x.stsPolicies.items()), sorted(x.lastDisconnectTimes.items())] for n, x in sorted(d.networks.items())]
        def reopen():
            d = ircdb.NetworksDictionary()
            d.open(path)
        fl = lambda: nd.flush()
        fl.reopen = reopen
        return fl, load

    def ignores(self, state, path):
        ircdb = self.b.ircdb
        db = ircdb.IgnoresDB()
        for rec in state:
            db.hostmasks[rec['mask']] = rec['exp']
        db.filename = path
        def load():
            d = ircdb.IgnoresDB()
            d.open(path)
            return sorted(d.hostmasks.items())
        return db.flush, load

    def registry(self, state, path):
        registry = self.b.registry
        g = registry.Group()
        g.setName('vt')
        for rec in state:
            t = rec['type']; h = ('help for %s ' % rec['name']) * (3 if rec['help'] else 0)
            # defaults are benign (a default containing a line break is written raw into the '# Default value:'
            # comment and makes the file unloadable: that is C15's subject, not a crash matter); values are set
            if t == 'String': v = registry.String('dflt', h); v.setValue(rec['s'])
            elif t == 'Integer': v = registry.Integer(0, h); v.setValue(rec['v'])
            elif t == 'Boolean': v = registry.Boolean(False, h); v.setValue(bool(rec['v'] % 2))
            else: v = registry.SpaceSeparatedListOfStrings([], h); v.setValue(rec['s'].split())
            g.register(rec['name'], v)
        def load():
            registry.open_registry(path, clear=True)
            return sorted(registry._cache.items())
        return (lambda: registry.close(g, path)), load

    def flatset(self, state, path):
        """FlatfileMapping.set: since its repair a rewrite of the whole database through AtomicFile"""
        from supybot import dbi
        def seed_file():
            m = dbi.FlatfileMapping(path, maxSize=10 ** 4)
            ids = [m.add(rec['s']) for rec in state]
            for i, rec in zip(ids, state):
                if rec['dead'] and i != ids[0]:
                    m.remove(i)
        def flush():
            dbi.FlatfileMapping(path, maxSize=10 ** 4).set(1, 'the new text of record one')
        def load():
            m = dbi.FlatfileMapping(path, maxSize=10 ** 4)
            return [m.currentId] + [list(x) for x in m]
        flush.seed_file = seed_file
        return flush, load

    def conf(self, state, path, private=True):
        """the bot's whole configuration: registry.close(conf.supybot, filename), as scripts/supybot does on exit"""
        registry = self.b.registry; conf = self.b.conf
        nick = 'bot' + ''.join(str(rec['v'] % 10) for rec in state)
        words = [rec['name'] for rec in state]
        def flush():
            conf.supybot.nick.setValue(nick)
            conf.supybot.nick.alternates.setValue(words)
            registry.close(conf.supybot, path, private=private)
        def load():
            registry.open_registry(path, clear=True)
            return [registry._cache.get('supybot.nick'), registry._cache.get('supybot.nick.alternates'), len(registry._cache)]
        return flush, load

    def confexport(self, state, path):
        """Config.export: registry.close(conf.supybot, filename, private=False)"""
        return self.conf(state, path, private=False)

    def flat(self, state, path):
        """FlatfileMapping.vacuum: the old file is what add/remove left; the new one has no dead records"""
        from supybot import dbi
        def seed_file():
            m = dbi.FlatfileMapping(path, maxSize=10 ** 4)
            ids = [m.add(rec['s']) for rec in state]
            for i, rec in zip(ids, state):
                if rec['dead']:
                    m.remove(i)
        def flush():
            dbi.FlatfileMapping(path, maxSize=10 ** 4).vacuum()
        def load():
            m = dbi.FlatfileMapping(path, maxSize=10 ** 4)
            return [m.currentId] + [list(x) for x in m]
        flush.seed_file = seed_file
        return flush, load

KINDS = ['users', 'channels', 'networks', 'ignores', 'registry', 'flat', 'flatset']
BIG_KINDS = ['conf', 'confexport']      # the real supybot registry: thousands of writes, crash points sampled

# configurations: (name, tmp, backup, allowEmpty, exdev)
CONFIGS = [('conf', 'tmp', 'backup', True, False),       # what conf.py installs: tmp and backup directories
           ('bare', None, None, True, False),            # utils used stand-alone: temp next to the target
           ('nobackup', 'tmp', '/dev/null', True, False),
           ('noempty', None, 'backup', False, False)]
CONFIGS_X = [('conf-exdev', 'tmp', 'backup', True, True), ('nobackup-exdev', 'tmp', '/dev/null', True, True)]

# size classes: (name, old records or None = no old file, new records)
SIZES = [('created', None, 2), ('emptied', 2, 0), ('smaller', 3, 1), ('same', 2, 2), ('larger', 1, 3), ('from-empty', 0, 1)]

TEMP_RE = re.compile(r'^(.*)\.([0-9a-f]{40})$')
BACKUP_RE = re.compile(r'^(.*)\.backup\.(\d+)$')

def sym(old, new, x):
    if x is None: return 'A'
    if old is not None and x == old: return 'O'
    if x == new: return 'N'
    if x == b'': return 'E'
    if new.startswith(x): return 'n%d' % len(x)
    if (old or b'').startswith(x): return 'o%d' % len(x)
    return 'X' + x.hex()

class Scenario(object):
    def __init__(self, root, kind, sizename, old_state, new_state, cfg, outcome='flush', tvariant='regular'):
        self.tvariant = tvariant    # 'regular' | 'symlink-same-dir' | 'symlink-other-dir': what the configured path is
        self.root = root; self.kind = kind; self.sizename = sizename
        self.old_state = old_state; self.new_state = new_state
        self.cfgname, self.tmp, self.backup, self.allow_empty, self.exdev = cfg
        self.outcome = outcome      # 'flush' | 'abort'
        if root is not None:
            self.bind(root)
    def bind(self, root):
        self.root = root
        self.target = os.path.join(root, 'conf', self.kind + '.db')
        self.linkdest = None
        if self.tvariant == 'symlink-same-dir':
            self.linkdest = os.path.join(root, 'conf', self.kind + '.real')
        elif self.tvariant == 'symlink-other-dir':
            self.linkdest = os.path.join(root, 'elsewhere', self.kind + '.real')
    def describe(self):
        return {'caller': self.kind, 'size': self.sizename, 'old_state': self.old_state, 'new_state': self.new_state,
                'config': self.cfgname, 'tmpDir': self.tmp, 'backupDir': self.backup, 'allowEmptyOverwrite': self.allow_empty,
                'exdev': self.exdev, 'outcome': self.outcome, 'target_path': self.tvariant}
    def tmpdir(self):
        return None if self.tmp is None else os.path.join(self.root, self.tmp)
    def backupdir(self):
        return None if self.backup is None else (self.backup if self.backup.startswith('/') else os.path.join(self.root, self.backup))

DIRS = ('conf', 'tmp', 'backup', 'elsewhere')

def reset_dir(sc, old_bytes, plain=False):
    """fresh directories; the old version is put where the configured path leads (a regular file, or the
    destination of the symbolic link the configured path is)"""
    for sub in DIRS:
        d = os.path.join(sc.root, sub)
        shutil.rmtree(d, ignore_errors=True)
        os.makedirs(d)
    dest = sc.target
    if sc.linkdest is not None and not plain:
        dest = sc.linkdest
        os.symlink(os.path.basename(dest) if sc.tvariant == 'symlink-same-dir' else dest, sc.target)
    if old_bytes is not None:
        with _real_open(dest, 'wb') as f:
            f.write(old_bytes)

def temp_role(sc, p):
    """'t' (the AtomicFile temp) or 's' (the copy next to the target made in the cross-device case)"""
    td = sc.tmpdir()
    if td is not None:
        return 't' if os.path.realpath(os.path.dirname(p)) == os.path.realpath(td) else 's'
    return None     # same directory: decided by order of appearance

def snapshot(sc):
    """what is on disk: target / temp / backup / sibling bytes (None = absent), other stray files"""
    def rd(p):
        try:
            with _real_open(p, 'rb') as f:
                return f.read()
        except OSError:
            return None
    got = {'T': rd(sc.target), 't': None, 'b': None, 's': None}
    stray = []
    for sub in DIRS:
        d = os.path.join(sc.root, sub)
        for fn in sorted(os.listdir(d)):
            p = os.path.join(d, fn)
            if p == sc.target or p == sc.linkdest:
                continue
            if TEMP_RE.match(fn):
                r = temp_role(sc, p) or ('t' if got['t'] is None else 's')
                if got[r] is None:
                    got[r] = rd(p)
                    continue
            elif BACKUP_RE.match(fn) and got['b'] is None:
                got['b'] = rd(p)
                continue
            stray.append(os.path.relpath(p, sc.root))
    return got, stray

def set_defaults(b, sc):
    AF = b.utils_file.AtomicFile
    AF.default.tmpDir = sc.tmpdir()
    AF.default.backupDir = sc.backupdir()
    AF.default.allowEmptyOverwrite = sc.allow_empty
    AF.default.makeBackupIfSmaller = True

class Raiser(Exception):
    pass

# what really interrupts a flush in production
EXC = {'SystemExit': lambda: SystemExit(0),                       # the SIGTERM handler of scripts/supybot
       'KeyboardInterrupt': lambda: KeyboardInterrupt(),
       'OSError': lambda: OSError(errno.ENOSPC, 'No space left on device (injected)'),
       'UnicodeEncodeError': lambda: UnicodeEncodeError('utf-8', '\udc80', 0, 1, 'surrogates not allowed (injected)')}

def parse_outcome(o):
    """'flush' | 'abort' | 'raise:<class>:<index of the write that raises>'"""
    if o.startswith('raise:'):
        _, cls, j = o.split(':')
        return 'raise', cls, int(j)
    return o, None, None

def run_flush(b, sc, flush, die_at, exdev):
    """inside a child: install the wrappers and run the real flush"""
    okind, ocls, oj = parse_outcome(sc.outcome)
    box = Box(sc.root, die_at=die_at, exdev=exdev, raise_at=(oj, EXC[ocls]) if okind == 'raise' else None)
    set_defaults(b, sc)
    install(box)
    err = None
    try:
        if okind == 'abort':
            # the caller raises after its writes: the AtomicFile object is dropped un-closed
            AF = b.utils_file.AtomicFile
            orig_close = AF.close
            def close(self):
                raise Raiser()
            AF.close = close
            try:
                flush()
            except Raiser:
                pass
            finally:
                AF.close = orig_close
            import gc; gc.collect()
        elif okind == 'raise':
            # a write in the middle of the flush raises what the real process sees there; whatever propagates
            # is dropped here (as the main loop / the exit path does) and the objects are collected
            try:
                flush()
            except BaseException as e:
                if isinstance(e, Die):
                    raise
                err_cls = type(e).__name__
                del e
            import gc; gc.collect()
        else:
            flush()
    except Exception as e:
        err = '%s: %s' % (type(e).__name__, e)
    return {'events': box.events, 'points': box.points, 'err': err, 'raised': box.raised}


def run_load(b, sc, load):
    box = Box(sc.root)
    install(box)
    try:
        dump = load()
        return {'ok': True, 'dump': dump, 'reads': box.reads}
    except Exception as e:
        return {'ok': False, 'err': '%s: %s' % (type(e).__name__, e), 'reads': box.reads}

def role(sc, p, order):
    p = os.path.abspath(p)
    if p == os.path.abspath(sc.target): return 'T'
    if sc.linkdest is not None and p == os.path.abspath(sc.linkdest): return 'L'
    fn = os.path.basename(p)
    if TEMP_RE.match(fn):
        r = temp_role(sc, p)
        if r is None:
            if p not in order:
                order.append(p)
            r = 't' if order.index(p) == 0 else 's'
        return r
    if BACKUP_RE.match(fn): return 'b'
    return 'x' + p.encode().hex()

def canon_events(sc, events, order):
    out = []
    for e in events:
        k = e['k']
        r = [role(sc, p, order) for p in e['p']]
        if k in SILENT:
            continue
        if k == 'write':
            out.append('write.%s.%d.%d' % (r[0], e['n'], (e['after'][0] or 0) - (e['before'][0] or 0)))
        elif k == 'copy':
            out.append('copy.%s.%s.%d' % (r[0], r[1], (e['after'][1] or 0) - (e['before'][1] or 0)))
        elif k in ('rename', 'replace'):
            out.append('rename.%s.%s' % (r[0], r[1]))
        else:
            out.append('%s.%s' % (k, r[0]))
    return out

def explore_scenario(b, callers, sc, loader_cache, sample_points=None):
    """trace + kill at every crash point; returns (Case, model input line, names case or None, observed state indices)"""
    prep = getattr(callers, sc.kind)
    # old bytes: what an un-crashed flush of the old state writes (in a clean directory)
    reset_dir(sc, None, plain=True)
    old_bytes = None
    set_defaults(b, sc)
    if sc.kind in ('flat', 'flatset'):
        flush, load = prep(sc.old_state or [], sc.target)
        in_child(lambda: flush.seed_file())
        with _real_open(sc.target, 'rb') as f:
            old_bytes = f.read()
    elif sc.old_state is not None:
        oflush, _ = prep(sc.old_state, sc.target)
        in_child(lambda: oflush())
        with _real_open(sc.target, 'rb') as f:
            old_bytes = f.read()
    if sc.kind not in ('flat', 'flatset'):
        flush, load = prep(sc.new_state, sc.target)
    if sc.outcome == 'open':
        # not a flush called by somebody, but the database being opened at start-up / by reload(): the real open()
        # reads the file and then flushes what it has read
        flush = prep(sc.old_state, sc.target)[0].reopen
    # trace run
    reset_dir(sc, old_bytes)
    code, tr = in_child(lambda: run_flush(b, sc, flush, None, sc.exdev))
    if not tr or 'events' not in tr:
        raise RuntimeError('trace run failed: %r %r' % (code, tr))
    events = tr['events']
    okind, ocls, oj = parse_outcome(sc.outcome)
    aborted = okind == 'abort' or (okind == 'raise' and tr.get('raised'))
    eff_outcome = 'abort' if aborted else 'flush'
    order = []
    ops = canon_events(sc, events, order)
    roles = [[role(sc, p, order) for p in e['p']] for e in events]
    writes = [(bytes.fromhex(e['d']), (e['after'][0] or 0) - (e['before'][0] or 0)) for e, rl in zip(events, roles)
              if e['k'] == 'write' and rl[0] == 't']
    # the new version = everything the caller wrote (normally all of it goes to the temp file; a caller or an
    # AtomicFile that writes to the target directly is still judged against the full new content)
    new_bytes = b''.join(bytes.fromhex(e['d']) for e, rl in zip(events, roles) if e['k'] == 'write' and rl[0] in ('t', 'T'))
    if sc.outcome == 'open':
        # the new version is what a completed open() leaves in the file (all of what it read, written once)
        final = snapshot(sc)[0]['T']
        new_bytes = final if final is not None else b''
    # names seen
    seen_path = {}
    now = 0
    for e, rl in zip(events, roles):
        for p, r_ in zip(e['p'], rl):
            seen_path.setdefault(r_, p)
    token = TEMP_RE.match(os.path.basename(seen_path['t'])).group(2) if 't' in seen_path else None
    token2 = TEMP_RE.match(os.path.basename(seen_path['s'])).group(2) if 's' in seen_path else None
    if 'b' in seen_path:
        now = int(BACKUP_RE.match(os.path.basename(seen_path['b'])).group(2))
    npoints = tr['points']
    # effectful calls completed before each crash point
    eff = []
    done = 0
    for e in events:
        eff.append(done)               # entry of this call
        if e['k'] not in SILENT:
            done += 1
        eff.append(done)               # exit of this call
    eff.append(done)                   # after the last call
    states = {}
    problems = []
    pts = list(range(npoints + 1))
    if sample_points is not None and len(pts) > sample_points[1]:
        r = sample_points[0]
        # always keep the points around the non-write calls; sample among the writes
        keep = set([0, npoints])
        for i, e in enumerate(events):
            if e['k'] != 'write':
                keep.update((2 * i, 2 * i + 1))
        rest = [p for p in pts if p not in keep]
        r.shuffle(rest)
        keep.update(rest[:max(0, sample_points[1] - len(keep))])
        pts = sorted(keep)
    empty_ok = old_bytes is None
    for p in pts:
        reset_dir(sc, old_bytes)
        code, _ = in_child(lambda: run_flush(b, sc, flush, p, sc.exdev))
        if p < npoints and code != 99:
            problems.append('crash point %d: child did not die there (exit %s)' % (p, code))
        got, stray = snapshot(sc)
        t = got['T']
        st = '/'.join(sym(old_bytes, new_bytes, got[x]) for x in ('T', 't', 'b', 's'))
        states.setdefault(eff[p], set()).add(st)
        i = p // 2
        where = 'crash point %d (%s)' % (p, ('%s call #%d %s:%s' % ('before' if p % 2 == 0 else 'after', i, events[i]['k'], '>'.join(roles[i])))
                                         if i < len(events) else 'after the last call')
        # ---- property oracle on the implementation ----
        if aborted:
            # a flush cut short by an exception must not install anything: the old version, untouched
            if t != old_bytes:
                problems.append('%s: the flush was interrupted by %s at write #%s, yet the target holds %r instead of the old version %r '
                                '(a half-written database was committed)' % (where, ocls or 'an exception', oj, None if t is None else t[:60],
                                                                            None if old_bytes is None else old_bytes[:60]))
        else:
            good = (t == old_bytes) or (t == new_bytes) or (empty_ok and t in (None, b''))
            if not good:
                problems.append('%s: target holds %r, which is neither the old (%r) nor the new (%r) version' % (
                    where, None if t is None else t[:60], None if old_bytes is None else old_bytes[:60], new_bytes[:60]))
        if stray:
            problems.append('%s: unexpected files %r' % (where, stray))
        if t is not None:
            key = (sc.kind, t)
            if key not in loader_cache:
                c2, res = in_child(lambda: run_load(b, sc, load))
                loader_cache[key] = res if res else {'ok': False, 'err': 'loader child died (exit %s)' % c2, 'reads': []}
            res = loader_cache[key]
            if not res.get('ok'):
                problems.append('%s: the loader rejects the file found on disk: %s' % (where, res.get('err')))
            bad_reads = [x for x in res.get('reads', []) if os.path.abspath(x) != os.path.abspath(sc.target)]
            if bad_reads:
                problems.append('%s: the loader read %r (not the target)' % (where, bad_reads))
    for tk in (token, token2):
        if tk is not None and not re.match(r'^[0-9a-f]+$', tk):
            problems.append('mktemp() contract: token %r is not lower-case hex' % tk)
    if token is not None and token == token2:
        problems.append('mktemp() contract: the same token twice')
    if tr.get('err'):
        problems.append('flush raised %s' % tr['err'])
    # completed run: the loader must give back the state that was flushed
    nst = max(states) if states else 0
    impl_states = ['|'.join(sorted(states[j])) if j in states else '?' for j in range(nst + 1)]
    impl = ','.join(ops) + ';' + ','.join(impl_states)
    # model input
    td = sc.tmpdir(); bd = sc.backupdir()
    mb = '0' if sc.kind in ('flat', 'flatset') else '1'
    tok2 = token2 or ('f' * 40 if token != 'f' * 40 else 'e' * 40)
    line = '\t'.join([eff_outcome, wire.enc(sc.target), wire.enc_opt(td), wire.enc_opt(bd), mb, '1' if sc.allow_empty else '0',
                      wire.enc(token or ''), wire.enc(tok2), wire.enc(str(now)), '0' if sc.exdev else '1', str(BLK),
                      '~' if old_bytes is None else old_bytes.hex(),
                      '-' if not writes else ','.join('%s:%d' % (d.hex(), n) for d, n in writes)])
    names = None
    if token is not None:
        nl = '\t'.join(['names', wire.enc(sc.target), wire.enc_opt(td), wire.enc_opt(bd), wire.enc(token), wire.enc(tok2), wire.enc(str(now))])
        have = [seen_path.get('t'), seen_path.get('b'), seen_path.get('s')]
        names = (nl, have)
    tags = [sc.kind, 'size:' + sc.sizename, 'cfg:' + sc.cfgname, eff_outcome, 'target:' + sc.tvariant]
    if okind == 'raise':
        tags.append('raise:' + ocls + ('' if aborted else ':not-reached'))
    if any(o.startswith('openW.b') for o in ops): tags.append('backup-made')
    if eff_outcome == 'flush' and not any(o.startswith('openA.T') for o in ops): tags.append('skip-empty')
    if old_bytes is None: tags.append('no-old-file')
    if not new_bytes: tags.append('new-empty')
    if sc.exdev: tags.append('exdev')
    if any(w[1] for w in writes): tags.append('spill')
    c = Case(sc.describe(), impl=impl, oracle_ok=not problems, oracle_msg='; '.join(problems[:4]), tags=tags,
             kind=sc.cfgname, finding=None)
    c.input['crash_points'] = len(pts)
    c.input['calls'] = ops
    seen = sorted(set(eff[p] for p in pts))
    return c, line, names, seen

def mask_model(out, seen):
    """keep only the model states that were observed on the implementation (sampling)"""
    if ';' not in out:
        return out
    ops, st = out.split(';', 1)
    st = st.split(',')
    n = max(seen) if seen else 0
    st2 = [s if j in seen else '?' for j, s in enumerate(st)]
    return ops + ';' + ','.join(st2)

def scenarios(ctx, root, r, thorough):
    out = []
    configs = CONFIGS + CONFIGS_X
    for kind in KINDS:
        for sizename, n_old, n_new in SIZES:
            if kind in ('flat', 'flatset') and sizename in ('created', 'from-empty'):
                continue
            for cfg in configs:
                if not thorough and cfg[0] in ('nobackup', 'nobackup-exdev') and sizename not in ('smaller', 'emptied'):
                    continue
                if not thorough and cfg[0] == 'noempty' and sizename not in ('emptied', 'same', 'created'):
                    continue
                if not thorough and cfg[4] and sizename not in ('smaller', 'larger', 'created'):
                    continue
                reps = 3 if thorough else 1
                for _ in range(reps):
                    if kind in ('flat', 'flatset'):
                        st = gen_state(r, kind, max(n_old or 0, n_new) + 1)
                        if sizename == 'same':
                            for x in st: x['dead'] = False
                        elif sizename == 'emptied':
                            for x in st: x['dead'] = True
                        out.append(Scenario(root, kind, sizename, st, st, cfg))
                    else:
                        old = None if n_old is None else gen_state(r, kind, n_old)
                        new = gen_state(r, kind, n_new)
                        if sizename == 'same' and r.random() < 0.7:
                            new = old
                        out.append(Scenario(root, kind, sizename, old, new, cfg))
        # the configured path is a symbolic link (same directory / another directory), with and without an old file
        for tv in ('symlink-same-dir', 'symlink-other-dir'):
            for sizename, n_old, n_new in (('smaller', 3, 1), ('larger', 1, 3), ('created', None, 2)):
                if kind in ('flat', 'flatset') and sizename == 'created':
                    continue
                for cfg in ((CONFIGS[0], CONFIGS[1]) if thorough or sizename != 'larger' else (CONFIGS[0],)):
                    if kind in ('flat', 'flatset'):
                        st = gen_state(r, kind, 4)
                        out.append(Scenario(root, kind, sizename, st, st, cfg, tvariant=tv))
                    else:
                        out.append(Scenario(root, kind, sizename, None if n_old is None else gen_state(r, kind, n_old),
                                            gen_state(r, kind, n_new), cfg, tvariant=tv))
        # contents larger than the runtime's write buffer: part of the temp file reaches the disk before close()
        if kind in ('users', 'registry', 'flat'):
            for cfg in (CONFIGS[0], CONFIGS[1]) + ((CONFIGS_X[0],) if thorough else ()):
                st_old = gen_state(r, kind, 70)
                st_new = gen_state(r, kind, 90)
                if kind == 'flat':
                    # well above the 8 KiB write buffer, with removed records in it
                    st_flat = gen_state(r, kind, 650)
                    for x in st_flat:
                        x['s'] = (x['s'] + ' padding') * 2
                    out.append(Scenario(root, kind, 'big', st_flat, st_flat, cfg))
                else:
                    out.append(Scenario(root, kind, 'big', st_old, st_new, cfg))
        # flushes cut short by what the real process sees in the middle of a write (SIGTERM -> SystemExit, ^C, a full disk,
        # a lone surrogate): nothing may be committed
        for cls in sorted(EXC):
            for j in ((0, 4, 17) if thorough else (r.choice([0, 1, 2]), r.choice([4, 9, 17]))):
                st_o = gen_state(r, kind, 2); st_n = gen_state(r, kind, 3)
                if kind in ('flat', 'flatset'):
                    for x in st_n: x['dead'] = False
                    st_n[0]['dead'] = True
                    out.append(Scenario(root, kind, 'interrupted', st_n, st_n, CONFIGS[0], outcome='raise:%s:%d' % (cls, j)))
                else:
                    out.append(Scenario(root, kind, 'interrupted', st_o, st_n, CONFIGS[0] if j else CONFIGS[1], outcome='raise:%s:%d' % (cls, j)))
        # the database being opened (start-up, reload()): open() reads the file and flushes once at the end; a crash anywhere
        # inside it must leave the old file or the completely re-written one
        if kind in ('users', 'channels', 'networks'):
            for n_old, cfg in ((3, CONFIGS[0]), (4, CONFIGS[1]), (1, CONFIGS[0])):
                st = gen_state(r, kind, n_old)
                out.append(Scenario(root, kind, 'reopened', st, st, cfg, outcome='open'))
        # aborted flushes (caller raises: rollback through __del__)
        for cfg in (CONFIGS[0], CONFIGS[1]):
            if kind not in ('flat', 'flatset'):
                out.append(Scenario(root, kind, 'larger', gen_state(r, kind, 1), gen_state(r, kind, 2), cfg, outcome='abort'))
    return out

# ------------------------------------------------------------------------------------------
# world.flush(): several files written one after the other by the registered flushers
# ------------------------------------------------------------------------------------------
WORLD_FILES = ['users', 'channels', 'networks', 'ignores', 'userdata']

def explore_world(b, callers, root, r, cfg, sample=None):
    """the real world.flush() over users/channels/networks/ignores + world._flushUserData, killed at every
    file-system call: each file must individually be its old or its new version, switch from old to new only
    inside its own flush, and load.  Returns one Case per file (compared with the single-flush model) ."""
    world = b.world
    scs = {}
    for k in WORLD_FILES:
        sc = Scenario(root, k if k != 'userdata' else 'registry', 'world', None, None, cfg)
        if k == 'userdata':
            sc.target = os.path.join(root, 'conf', 'userdata.conf')
        scs[k] = sc
    carrier = scs['users']
    olds = {k: gen_state(r, k, r.randint(0, 3)) for k in WORLD_FILES[:4]}
    news = {k: gen_state(r, k, r.randint(0, 3)) for k in WORLD_FILES[:4]}
    set_defaults(b, carrier)
    def flushers_for(states):
        fl = []
        loads = {}
        for k in WORLD_FILES[:4]:
            f, l = getattr(callers, k)(states[k], scs[k].target)
            fl.append(f); loads[k] = l
        fl.append(world._flushUserData)
        def load_userdata():
            b.registry.open_registry(scs['userdata'].target, clear=True)
            return sorted(b.registry._cache.items())
        loads['userdata'] = load_userdata
        return fl, loads
    def action_for(states):
        fl, loads = flushers_for(states)
        def action():
            b.conf.supybot.directories.conf.setValue(os.path.join(root, 'conf'))
            saved = world.flushers[:]
            world.flushers[:] = fl
            try:
                world.flush()
            finally:
                world.flushers[:] = saved
        return action, loads
    def read_all():
        out = {}
        for k, sc in scs.items():
            try:
                with _real_open(sc.target, 'rb') as f:
                    out[k] = f.read()
            except OSError:
                out[k] = None
        return out
    # old versions
    reset_dir(carrier, None, plain=True)
    old_action, _ = action_for(olds)
    in_child(lambda: run_flush(b, carrier, old_action, None, False))
    old_bytes = read_all()
    def restore():
        reset_dir(carrier, None, plain=True)
        for k, v in old_bytes.items():
            if v is not None:
                with _real_open(scs[k].target, 'wb') as f:
                    f.write(v)
    action, loads = action_for(news)
    restore()
    code, tr = in_child(lambda: run_flush(b, carrier, action, None, cfg[4]))
    if not tr or 'events' not in tr:
        raise RuntimeError('world trace run failed: %r %r' % (code, tr))
    events = tr['events']; npoints = tr['points']
    new_bytes = read_all()
    def owner(e):
        for k, sc in scs.items():
            base = os.path.basename(sc.target)
            if any(os.path.basename(p) == base or os.path.basename(p).startswith(base + '.') for p in e['p']):
                return k
        return None
    own = [owner(e) for e in events]
    order = [k for i, k in enumerate(own) if k is not None and (i == 0 or own[i - 1] != k)]
    problems = {k: [] for k in WORLD_FILES}
    if order != WORLD_FILES:
        for k in WORLD_FILES:
            problems[k].append('the flushers did not run one after the other in registration order: %r' % order)
    first = {k: min(i for i, o in enumerate(own) if o == k) for k in WORLD_FILES if k in own}
    last = {k: max(i for i, o in enumerate(own) if o == k) for k in WORLD_FILES if k in own}
    pts = list(range(npoints + 1))
    if sample is not None and len(pts) > sample[1]:
        keep = set([0, npoints])
        for i, e in enumerate(events):
            if e['k'] != 'write':
                keep.update((2 * i, 2 * i + 1))
        rest = [p for p in pts if p not in keep]
        sample[0].shuffle(rest)
        keep.update(rest[:max(0, sample[1] - len(keep))])
        pts = sorted(keep)
    loader_cache = {}
    for p in pts:
        restore()
        code, _ = in_child(lambda: run_flush(b, carrier, action, p, cfg[4]))
        got = read_all()
        ev = p // 2
        for k in WORLD_FILES:
            t = got[k]; o = old_bytes[k]; n = new_bytes[k]
            where = 'crash point %d of world.flush() (%s call #%d, in the flush of %s)' % (
                p, 'before' if p % 2 == 0 else 'after', ev, own[ev] if ev < len(own) else 'nothing')
            if not (t == o or t == n or (o is None and t in (None, b''))):
                problems[k].append('%s: %s holds %r, neither its old (%r) nor its new (%r) version' % (
                    where, os.path.basename(scs[k].target), None if t is None else t[:50], None if o is None else o[:50], None if n is None else n[:50]))
            elif o != n and k in first:
                # untouched before its own flush begins, done after it has ended
                if ev < first[k] and t != o and not (o is None and t in (None, b'')):
                    problems[k].append('%s: %s already changed before its flusher ran' % (where, os.path.basename(scs[k].target)))
                if ev > last[k] and t != n:
                    problems[k].append('%s: %s fell back after its flusher had finished' % (where, os.path.basename(scs[k].target)))
            if t is not None and (k, t) not in loader_cache:
                c2, res = in_child(lambda: run_load(b, scs[k], loads[k]))
                loader_cache[(k, t)] = res or {'ok': False, 'err': 'loader child died'}
            if t is not None and not loader_cache[(k, t)].get('ok'):
                problems[k].append('%s: %s does not load: %s' % (where, os.path.basename(scs[k].target), loader_cache[(k, t)].get('err')))
    out = []
    for k in WORLD_FILES:
        sc = scs[k]
        sl = [e for e, o in zip(events, own) if o == k]
        roles_order = []
        ops = canon_events(sc, sl, roles_order)
        roles = [[role(sc, q, roles_order) for q in e['p']] for e in sl]
        line = build_model_line(sc, sl, roles, old_bytes[k], 'flush')
        c = Case({'op': 'world.flush', 'file': os.path.basename(sc.target), 'old_states': olds, 'new_states': news,
                  'config': cfg[0], 'tmpDir': cfg[1], 'backupDir': cfg[2], 'exdev': cfg[4], 'crash_points': len(pts),
                  'calls': ops},
                 impl=','.join(ops), oracle_ok=not problems[k], oracle_msg='; '.join(problems[k][:3]),
                 tags=['world.flush', 'world:' + k, 'cfg:' + cfg[0]], kind='world')
        out.append((c, line))
    return out

def build_model_line(sc, events, roles, old_bytes, outcome):
    """the driver input describing one atomic write as observed (configuration, names, chunks with spills)"""
    writes = [(bytes.fromhex(e['d']), (e['after'][0] or 0) - (e['before'][0] or 0)) for e, rl in zip(events, roles)
              if e['k'] == 'write' and rl[0] == 't']
    seen_path = {}
    for e, rl in zip(events, roles):
        for q, r_ in zip(e['p'], rl):
            seen_path.setdefault(r_, q)
    token = TEMP_RE.match(os.path.basename(seen_path['t'])).group(2) if 't' in seen_path else ''
    token2 = TEMP_RE.match(os.path.basename(seen_path['s'])).group(2) if 's' in seen_path else None
    now = int(BACKUP_RE.match(os.path.basename(seen_path['b'])).group(2)) if 'b' in seen_path else 0
    tok2 = token2 or ('f' * 40 if token != 'f' * 40 else 'e' * 40)
    mb = '0' if sc.kind in ('flat', 'flatset') else '1'
    return '\t'.join([outcome, wire.enc(sc.target), wire.enc_opt(sc.tmpdir()), wire.enc_opt(sc.backupdir()), mb,
                      '1' if sc.allow_empty else '0', wire.enc(token), wire.enc(tok2), wire.enc(str(now)),
                      '0' if sc.exdev else '1', str(BLK), '~' if old_bytes is None else old_bytes.hex(),
                      '-' if not writes else ','.join('%s:%d' % (d.hex(), n) for d, n in writes)])

# ------------------------------------------------------------------------------------------
# the record-level writers that do not go through AtomicFile (dbi.FlatfileMapping / DirMapping): crash run
# ------------------------------------------------------------------------------------------
def explore_inplace(b, root, r):
    """kill FlatfileMapping.add/set/remove and DirMapping.add/set at every file-system call and look at what
    a fresh mapping object then reads.  These are not flushes (FlatfileMapping.flush is a no-op: every call
    writes in place), so this is reported in the evidence, classified, and never compared with the AtomicFile
    model.  Returns a list of dicts."""
    from supybot import dbi
    out = []
    sc = Scenario(root, 'flat', 'inplace', None, None, CONFIGS[1])
    def seed():
        m = dbi.FlatfileMapping(sc.target, maxSize=10 ** 4)
        for s_ in ('alpha', 'beta', 'gamma'):
            m.add(s_)
    def dump():
        m = dbi.FlatfileMapping(sc.target, maxSize=10 ** 4)
        recs = [list(x) for x in m]
        ids = [i for i, _ in recs]
        return {'next': m.currentId, 'records': recs, 'dup': len(ids) != len(set(ids)),
                'next_used': m.currentId in ids}
    ops = {'add': lambda: dbi.FlatfileMapping(sc.target, maxSize=10 ** 4).add('delta'),
           'remove': lambda: dbi.FlatfileMapping(sc.target, maxSize=10 ** 4).remove(2)}
    reset_dir(sc, None, plain=True)
    in_child(seed)
    with _real_open(sc.target, 'rb') as f:
        old = f.read()
    _, d_old = in_child(dump)
    for name, fn in ops.items():
        reset_dir(sc, old, plain=True)
        code, tr = in_child(lambda: run_flush(b, sc, fn, None, False))
        with _real_open(sc.target, 'rb') as f:
            new = f.read()
        _, d_new = in_child(dump)
        states = []
        for p in range((tr or {}).get('points', 0) + 1):
            reset_dir(sc, old, plain=True)
            in_child(lambda: run_flush(b, sc, fn, p, False))
            with _real_open(sc.target, 'rb') as f:
                t = f.read()
            if t == old: states.append('old')
            elif t == new: states.append('new')
            else:
                _, d = in_child(dump)
                states.append({'bytes': t.decode('latin-1'), 'reads_as': d})
        inter = [x for x in states if not isinstance(x, str)]
        seq = []
        for x in states:
            h = old.hex() if x == 'old' else new.hex() if x == 'new' else x['bytes'].encode('latin-1').hex()
            if not seq or seq[-1] != h:
                seq.append(h)
        off = old.index(b'0002:')
        mline = {'add': 'flatadd\t%s\t%s\t%s' % (old.hex(), b'0004:delta\n'.hex(), b'0005'.hex()),
                 'remove': 'flatremove\t%s\t%d\t%s' % (old.hex(), off, b'----'.hex())}[name]
        out.append({'writer': 'dbi.FlatfileMapping.' + name, 'state_sequence': seq, 'model_line': mline, 'calls': [e['k'] for e in (tr or {}).get('events', [])],
                    'crash_points': len(states), 'intermediate_states': len(inter),
                    'example_intermediate': inter[0] if inter else None,
                    'next_id_already_used': any(x['reads_as'] and x['reads_as'].get('next_used') for x in inter),
                    # what matters: does every state on disk READ as the old or the new database, ids never reused?
                    'bad_states': [x for x in inter if not x['reads_as'] or x['reads_as'].get('next_used') or x['reads_as'].get('dup')
                                   or x['reads_as'].get('records') not in (d_old['records'], d_new['records'])],
                    'old_reads_as': d_old, 'new_reads_as': d_new})
    # DirMapping: one file per record + 'max'
    droot = os.path.join(root, 'conf', 'dirmap')
    def dseed():
        os.makedirs(droot, exist_ok=True)
        m = dbi.DirMapping(droot)
        m.add('alpha'); m.add('beta')
    def ddump():
        m = dbi.DirMapping(droot)
        files = sorted(os.listdir(droot))
        return {'files': files, 'contents': {f: _real_open(os.path.join(droot, f)).read() for f in files}}
    for name, fn in {'add': lambda: dbi.DirMapping(droot).add('gamma'), 'set': lambda: dbi.DirMapping(droot).set(1, 'ALPHA-longer')}.items():
        def fresh():
            reset_dir(sc, None, plain=True)
            in_child(dseed)
        fresh()
        _, d_old = in_child(ddump)
        code, tr = in_child(lambda: run_flush(b, sc, fn, None, False))
        _, d_new = in_child(ddump)
        inter = []
        npts = (tr or {}).get('points', 0)
        for p in range(npts + 1):
            fresh()
            in_child(lambda: run_flush(b, sc, fn, p, False))
            _, d = in_child(ddump)
            if d != d_old and d != d_new:
                inter.append(d)
        out.append({'writer': 'dbi.DirMapping.' + name, 'calls': [e['k'] for e in (tr or {}).get('events', [])],
                    'crash_points': npts + 1, 'intermediate_states': len(inter),
                    'example_intermediate': inter[0] if inter else None, 'old_reads_as': d_old, 'new_reads_as': d_new})
    return out

def big_scenarios(root, r, thorough):
    out = []
    for kind in BIG_KINDS:
        for cfg in ((CONFIGS[0], CONFIGS[1]) if thorough else (CONFIGS[0],)):
            out.append(Scenario(root, kind, 'same', gen_state(r, kind, 2), gen_state(r, kind, 3), cfg))
        if thorough:
            out.append(Scenario(root, kind, 'created', None, gen_state(r, kind, 2), CONFIGS[0]))
            out.append(Scenario(root, kind, 'same', gen_state(r, kind, 2), gen_state(r, kind, 2), CONFIGS_X[0]))
    return out

def get_bot():
    b = bot.full(plugins=())
    import supybot.utils.file as uf
    b.utils_file = uf
    return b

def par_map(fn, items, nworkers=12):
    """run fn(item) for every item in forked workers (static round-robin split); results in item order"""
    nworkers = max(1, min(nworkers, len(items)))
    procs = []
    for w in range(nworkers):
        r, wfd = os.pipe()
        pid = os.fork()
        if pid == 0:
            rc = 0
            try:
                os.close(r)
                out = []
                for i in range(w, len(items), nworkers):
                    try:
                        out.append([i, fn(w, items[i])])
                    except Exception:
                        out.append([i, {'__exc__': traceback.format_exc()[-2000:]}])
                data = json.dumps(out).encode()
                while data:
                    n = os.write(wfd, data)
                    data = data[n:]
            except BaseException:
                rc = 3
            os._exit(rc)
        os.close(wfd)
        procs.append((pid, r))
    res = [None] * len(items)
    for pid, r in procs:
        chunks = []
        while True:
            bts = os.read(r, 1 << 16)
            if not bts:
                break
            chunks.append(bts)
        os.close(r)
        os.waitpid(pid, 0)
        try:
            for i, v in json.loads(b''.join(chunks).decode()):
                res[i] = v
        except ValueError:
            pass
    return res

def explore(ctx, thorough, seed_stream='c17', only=None, nworkers=12):
    b = get_bot()
    callers = Caller(b)
    r = rng.make(seed_stream)
    base = os.path.join(bot.scratch(), 'c17')
    scs = scenarios(ctx, None, r, thorough) + big_scenarios(None, r, thorough)
    if only is not None:
        scs = [s for s in scs if only(s)]
    seeds = [r.getrandbits(32) for _ in scs]
    def work(w, item):
        import random
        sc, sd = item
        root = os.path.join(base, 'w%d' % w)
        os.makedirs(root, exist_ok=True)
        sc.bind(root)
        samp = ((random.Random(sd), 400) if sc.kind in BIG_KINDS else None) if thorough else (random.Random(sd), 75)
        c, line, names, seen = explore_scenario(b, callers, sc, work.cache, samp)
        return {'case': c.as_dict(), 'line': line, 'names': names, 'seen': seen, 'target': sc.target,
                'td': sc.tmpdir(), 'bd': sc.backupdir()}
    work.cache = {}
    results = par_map(work, list(zip(scs, seeds)), nworkers)
    cases = []; lines = []; pend = []
    for sc, res in zip(scs, results):
        if not res or '__exc__' in res:
            raise RuntimeError('scenario %r failed in its worker: %s' % (sc.describe(), (res or {}).get('__exc__', 'worker died')))
        d = res['case']
        c = Case(d['input'], impl=d['impl'], oracle_ok=d['oracle_ok'], oracle_msg=d['oracle_msg'], tags=d['tags'],
                 kind=d['kind'], finding=None)
        seen = set(res['seen'])
        cases.append(c); lines.append(res['line']); pend.append((c, lambda o, seen=seen: mask_model(o, seen)))
        if res['names'] is not None:
            nl, have = res['names']
            impl = '\t'.join(wire.enc(x) if x else '?' for x in have)
            nc = Case({'op': 'names', 'target': res['target'], 'tmpDir': res['td'], 'backupDir': res['bd']},
                      impl=impl, tags=('names', 'cfg:' + sc.cfgname), kind='names')
            def fix(o, have=have):
                f = o.split('\t')
                return '\t'.join(x if h else '?' for x, h in zip(f, have)) if len(f) == len(have) else o
            cases.append(nc); lines.append(nl); pend.append((nc, fix))
    return cases, lines, pend

def fill_model(clp):
    cases, lines, pend = clp
    outs = wire.run_driver(PROPERTY, lines)       # one line per entry of pend (a case may have no model line)
    for (c, f), o in zip(pend, outs):
        c.model = f(o)
    return cases

def finding_status(ctx):
    return {}

F_INPLACE = 'C17-inplace-record-writers'

def dedup(xs):
    out = []
    for x in xs:
        if not out or out[-1] != x:
            out.append(x)
    return out

def extra_cases(ctx, thorough):
    """world.flush() over five files, and the in-place record writers; returns (cases, lines, pend, evidence extras)"""
    b = get_bot()
    callers = Caller(b)
    r = rng.make('c17-world')
    root = os.path.join(bot.scratch(), 'c17x')
    os.makedirs(root, exist_ok=True)
    cases = []; lines = []; pend = []
    saved = (b.utils_file.AtomicFile.default.tmpDir, b.utils_file.AtomicFile.default.backupDir,
             b.utils_file.AtomicFile.default.allowEmptyOverwrite, b.utils_file.AtomicFile.default.makeBackupIfSmaller)
    saved_conf = b.conf.supybot.directories.conf()
    try:
        cfgs = [CONFIGS[0], CONFIGS[1], CONFIGS_X[0]] if thorough else [CONFIGS[0]]
        for rep in range(3 if thorough else 1):
            for cfg in cfgs:
                for c, line in explore_world(b, callers, root, r, cfg, None if thorough else (r, 110)):
                    cases.append(c); lines.append(line); pend.append((c, lambda o: o.split(';')[0]))
        inplace = explore_inplace(b, root, r)
    finally:
        (b.utils_file.AtomicFile.default.tmpDir, b.utils_file.AtomicFile.default.backupDir,
         b.utils_file.AtomicFile.default.allowEmptyOverwrite, b.utils_file.AtomicFile.default.makeBackupIfSmaller) = saved
    for x in inplace:
        if x['writer'].startswith('dbi.DirMapping'):
            continue      # not reachable: dbi.Mappings offers 'flat' and 'cdb' only; reported in the evidence, judged nowhere
        badst = x.get('bad_states') or []
        msg = ''
        if badst:
            msg = ('%s killed between two of its file-system calls leaves a database that reads as neither the old nor the new one '
                   '(or hands out an id twice): %r' % (x['writer'], badst[0]))
        c = Case({'op': 'inplace', 'writer': x['writer'], 'calls': x['calls'], 'crash_points': x['crash_points']},
                 impl=','.join(x['state_sequence']) if 'state_sequence' in x else None, oracle_ok=not badst, oracle_msg=msg,
                 tags=['inplace', x['writer']], kind='inplace', finding=None)
        cases.append(c)
        if 'model_line' in x:
            lines.append(x['model_line']); pend.append((c, lambda o: ','.join(dedup(o.split(',')))))
        else:
            c.impl = None
    from extractors import writers as wx
    inv = []
    try:
        import glob
        from vlib import REPO
        for rel in sorted(set(['src/dbi.py', 'src/cdb.py', 'src/utils/transaction.py', 'src/utils/file.py', 'src/httpserver.py',
                               'src/registry.py', 'src/ircdb.py', 'src/world.py', 'src/conf.py', 'plugins/__init__.py'])):
            d, a = wx._scan(rel)
            inv += [{'file': f, 'function': fn, 'call': call, 'mode': m, 'via': 'direct'} for f, fn, call, m in d]
            inv += [{'file': f, 'function': fn, 'via': 'AtomicFile'} for f, fn in a]
    except Exception as e:
        inv = [{'error': str(e)}]
    extras = {'writers_inventory': inv,
              'inplace_crash_runs': [{k: v for k, v in x.items() if k not in ('model_line',)} for x in inplace]}
    return cases, lines, pend, extras

def finding_status(ctx):
    return {}

def run(ctx):
    build = leanbuild.ensure(PROPERTY, THEOREMS, thorough=ctx.thorough, extractors=['AtomicFile', 'Writers'])
    clp = explore(ctx, ctx.thorough)
    xc, xl, xp, extras = extra_cases(ctx, ctx.thorough)
    clp = (clp[0] + xc, clp[1] + xl, clp[2] + xp)
    cases = fill_model(clp) if build.driver_ok else clp[0]
    def search(disagreements, broken):
        os.environ['VERIF_SEED'] = str(ctx.seed + 7919)
        try:
            more, _, _ = explore(ctx, True, 'c17-search')
        finally:
            os.environ['VERIF_SEED'] = str(ctx.seed)
        return [c for c in more if c.oracle_ok is False]
    fstatus = {}
    extras.update({'crash_points_killed': sum(c.input.get('crash_points', 0) for c in cases),
                   'scenarios': len([c for c in cases if c.kind != 'names'])})
    return verdict.conclude(PROPERTY, ctx.tier, ctx.seed, build, cases, search=search, rule=RULE,
                            finding_status=fstatus, trusted_base=TRUSTED,
                            assumptions=['process death only (no power loss / fsync reasoning)', 'POSIX rename semantics',
                                         'Python asserts enabled', 'file contents below 8 MiB (one sendfile block)'],
                            extra=extras, t0=ctx.t0)

def replay(ctx, path):
    d = json.load(open(path))
    c = d.get('case') or d.get('first_disagreement')
    print(json.dumps(c, indent=1)[:4000])
    if not c:
        return 0
    inp = c['input']
    if inp.get('op') == 'names':
        return 0
    b = get_bot()
    callers = Caller(b)
    root = os.path.join(bot.scratch(), 'c17r')
    os.makedirs(root, exist_ok=True)
    cfg = (inp['config'], inp['tmpDir'], inp['backupDir'], inp['allowEmptyOverwrite'], inp['exdev'])
    sc = Scenario(root, inp['caller'], inp['size'], inp['old_state'], inp['new_state'], cfg, inp.get('outcome', 'flush'),
                  inp.get('target_path', 'regular'))
    c2, line, names, seen = explore_scenario(b, callers, sc, {})
    print('implementation now: oracle_ok=%s %s' % (c2.oracle_ok, c2.oracle_msg))
    print('implementation calls;states now:', c2.impl[:2000])
    return 0 if c2.oracle_ok else 1
