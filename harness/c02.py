"""C02 — nobody becomes owner (or gains a capability they are not entitled to) through the bot's commands,
also across flush+reload.  Correspondence of lean/LimnoriaModel/C02/Model.lean with a live bot (real
irclib.Irc, real Owner/User/Admin/Channel/Config plugins, world.testing False): histories of commands from
anonymous, registered, channel-op and admin hostmasks with hostile argument strings, interleaved with
flush+reload; after every step the complete account/channel/ignore/default-capability state is compared,
and the property statement is evaluated on the implementation."""
import json, os, sys, time
from vlib import wire, rng, leanbuild, verdict, bot, CORPUS
from vlib.verdict import Case
import c16

PROPERTY = 'C02'
MANIFEST = {
 'level_text': 'Lean 4 theorems, kernel-checked, about a model of every command through which IRC users change accounts, capabilities, channel capabilities, ignores and default capabilities (register, unregister, changename, identify, unidentify, hostmask add/remove, set password/secure, admin capability add/remove, channel capability add/remove/set/unset/setdefault, channel enable/disable, admin ignore add/remove, owner defaultcapability, config supybot.capabilities) with arguments ranging over all strings, composed with the proved model of the database files (C16) and with explicit events for everything that writes or reads them: flush+reload, a reload that reads the files as they are (SIGHUP, config reload), world.flush, the periodic upkeep with supybot.flush on or off, and the order in which Python wrote the capability sets. Proved: a step - a private message or one sent in a channel - never enlarges the owner set and changes anything only if the command gate let the sender pass (admin_gate: never a sender to whom -admin applies); a capability appears on an account only through a capability-add command whose guard held for the caller, and then it is the capability named; a reload of either kind never enlarges any capability set; by induction, over every finite history of all these events - commands acknowledged or failing half-way, loads completing or stopping at any record - the owners stay among the initial ones (history_owner_safe_ev), and under the stated run condition the saved file never holds a capability memory has dropped (history_safe_all_ev) and every capability held at the end was held at the beginning or was granted at some point of the history by a sender for whom the guard of the add command held and whom the command gate let pass (history_caps_entitled); the channels file never differs from the channels in memory as long as channel loads complete (history_chanAgree_ev: every command saves what it changes - true since repair 92c8e54, which this invariant led to). The model is tied to /repo by a differential run against a live bot (full state compared after every event, the saved files compared with the model\'s at every reload) that also evaluates the property statement on the implementation.',
 'level_note': 'Trusted: Lean kernel; axioms propext/Classical.choice/Quot.sound only; this harness (generators bound what the correspondence sees); C03.Model for capability decisions and C16.Model for the file format (each with its own correspondence check); harness/extractors/capsites.py and wrapspecs.py (the 18 capability-mutation call sites and the wrap() converter lists of the 21 modelled commands, regenerated from the source and matched against Cmd at build time). Modelled: bodies and converters of the listed commands with every argument explicit, sent privately or in a channel (channel-qualified command gate with the channel\'s defaultAllow, the private converter, the op converter taking the channel from the message), ignores, setUser (incl. hostmaskPatternsIntersect)/newUser/delUser with the in-place mutation that survives a refused setUser, IrcUser.addAuth/clearAuth, timeoutIdentification 0 or non-zero with the clock jumping past it (Ev.expire: all logins made so far are gone), stop and start of the bot (Ev.restart: world.flush, nothing left in the reader classes, databases read), the saved users/channels/ignores files as records, IrcUserCreator.u / IrcChannelCreator.name carried from a stopped load into the next. Parameters: saltHash (a line-safe stand-in), the written order of capability sets (environment event, accepted only as a permutation, checked in Lean). Run condition of history_safe_all_ev only (not of history_owner_safe_ev): a capability-changing command that is not acknowledged left the state alone; the harness reports whether the implementation met it. Not modelled: the tokenizer (arguments are arbitrary strings; C13), how a channel message is recognised as addressed to the bot and nested commands (C01/C14), caches (C04), gpg, commands of owners, conf.supybot.databases.* (they choose file names, not when files are written).',
 'technique': 'Lean 4 proof (case analysis over commands, invariant over histories, reader-machine invariant for reload) + differential correspondence against a live bot',
 'design_ref': 'DESIGN.md §6 C02',
}
THEOREMS = ['C02.capSites_table', 'C02.wrapSpecs_table', 'C02.cmd_sources_listed', 'C02.private_table', 'C02.step_changes_only_if_allowed', 'C02.admin_gate', 'C02.cap_growth_entitled', 'C02.no_new_owner_step', 'C02.not_granted_owner', 'C02.reload_caps_sub',
            'C02.no_new_owner_reload', 'C02.reload_preserves_inv', 'C02.reloadNoFlush_preserves_inv', 'C02.step_preserves_inv', 'C02.history_safe',
            'C02.step_preserves_fileOk', 'C02.reloadNoFlush_caps_sub', 'C02.no_new_owner_reloadNoFlush', 'C02.reloadUsersFrom_file', 'C02.reloadNoFlush_owners', 'C02.step_ownInv', 'C02.history_owner_safe', 'C02.permCaps_perm', 'C02.fileOrder_fileOk', 'C02.fileOrder_fileOwn', 'C02.stepEv_ownInv', 'C02.history_owner_safe_ev', 'C02.history_safe_all_ev', 'C02.order_immaterial_when_storable', 'C02.cap_growth_gated', 'C02.step_caps_all', 'C02.history_caps_entitled', 'C02.invert_ok_of_isCapability', 'C02.addCaps_complete', 'C02.removeCaps_complete', 'C02.chanCapSet_saved', 'C02.chanOf_put', 'C02.body_chanShape', 'C02.step_chanAgree_all', 'C02.fileOrder_chanAgree', 'C02.history_chanAgree_ev', 'C02.restartPrep_inv3', 'C02.restartPrep_ownInv', 'C02.uadd_keeps_antiOwner_out', 'C02.stepEv_ownInv', 'C02.flushReload_fileOk',
            'C02.reloadNoFlush_fileOk', 'C02.step_safe_all', 'C02.history_safe_all', 'C02.st0_inv3',
            'C02.st0_inv', 'C02.cfg0_hashSafe']
TRUSTED = ['Lean 4.33.0 kernel; axioms ⊆ {propext, Classical.choice, Quot.sound}',
           'harness/c02.py generators, snapshot and canonicalisation code, hex line protocol',
           'C03.Model (capability decision) and C16.Model (database files) — each tied to /repo by its own check',
           'parameter hash = utils.saltHash (injective, line-safe stand-in in the driver)']
RULE = ('histories of 10–60 events: commands from four non-owner hostmasks (unregistered, registered, #chan op, admin; a fifth, '
        'too wild to be stored, only registers) sent privately or, one in four, in a channel addressed by nick, over a hostile '
        'argument vocabulary (quoted escapes for CR/LF/TAB, blanks around words, owner in every spelling, anti and double-anti '
        'capabilities, channel forms, wildcard hostmasks that overlap without matching), interleaved with flush+reload, reloads '
        'that read the files as they are (SIGHUP), world.flush, upkeep with supybot.flush on/off, the clock passing timeoutIdentification, and the bot being stopped and started; before every reload the '
        'capability orders of the real files are handed to the model, which accepts them only as permutations of what it saved. '
        'After every step the whole state is compared with the model and the property statement (no new owner, growth only by '
        'an entitled sender who passed the command gate, nothing gained at reload or restart points, nobody newly passing the owner test of the bot, channel-op entitlement decided from the stored records alone) is evaluated on the implementation. '
        'non-trivial = the step changed the state, was sent in a channel, or was a reload/flush event; distinct = distinct '
        '(history prefix) input.')

OWNER = 'root!r@owner.host'
ACTORS = ['eve!e@evil.host', 'bob!b@bob.host', 'opp!o@op.host', 'adm!a@admin.host']
IN_CHANNELS = ['#chan', '#chan', '#other', '#CHAN', '#pub']
WILD = 'w!?@*'       # fewer than three non-wildcard characters (only ever sends `user register`)
PWS = ['pw1', 'pw2', 'root-pw', ' pw', 'p w']

_B = None
def B():
    global _B
    if _B is None:
        b = bot.full()
        bot.register_welcome(b)
        b.ircdb.log = c16.Rec()
        _B = b
    return _B

def H(p):
    return 'h' + wire.enc(p)

class _Clock(object):
    """stands in for the `time` module inside ircdb: logins are stamped and aged with this clock"""
    def __init__(self):
        import time as _t
        self._t = _t; self.offset = 0.0
    def time(self):
        return self._t.time() + self.offset
    def __getattr__(self, name):
        return getattr(self._t, name)

TIMEOUT = 3600

def reset(b):
    ircdb = b.ircdb
    if not isinstance(ircdb.time, _Clock):
        ircdb.time = _Clock()
    ud = ircdb.users
    ud.users.clear(); ud.nextId = 0; ud._nameCache.clear(); ud._hostmaskCache.clear()
    ircdb.channels.channels.clear()
    ircdb.ignores.hostmasks.clear()
    ircdb.IrcUserCreator.u = None; ircdb.IrcChannelCreator.name = None
    b.conf.supybot.capabilities.setValue(b.conf.supybot.capabilities._default)
    for f in (ud.filename, ircdb.channels.filename, ircdb.ignores.filename):
        if f and os.path.exists(f):
            os.unlink(f)
    b.ircutils._hostmaskPatternEqualCache.clear()

def api_user(b, name, pw, caps, hostmask):
    u = b.ircdb.users.newUser()
    u.name = name; u.setPassword(pw)
    for c in caps: u.addCapability(c)
    u.addHostmask(hostmask)
    b.ircdb.users.setUser(u)
    return u

def setup(b):
    reset(b)
    # the bot has seen every actor (irc.state.nickToHostmask resolves their nicks); the owner never speaks
    for a in ACTORS:
        b.irc.feedMsg(b.ircmsgs.IrcMsg(':%s NOTICE %s :hi' % (a, b.irc.nick)))
    bot.drain(b)
    api_user(b, 'root', 'root-pw', ['owner'], OWNER)
    api_user(b, 'bob', 'pw1', [], ACTORS[1])
    api_user(b, 'opp', 'pw1', ['#chan,op'], ACTORS[2])
    api_user(b, 'adm', 'pw2', ['admin'], ACTORS[3])

def clear_pw(u):
    if not u.password:
        return ''
    for p in PWS:
        if u.checkPassword(p):
            return H(p)
    return 'unknown:' + u.password

def snap_users(b):
    out = []
    for i, u in b.ircdb.users.users.items():
        d = c16.snap_user(u)
        d['password'] = clear_pw(u)
        out.append((i, d))
    return out

def snap(b):
    ircdb = b.ircdb
    users = snap_users(b)
    tmo = b.conf.supybot.databases.users.timeoutIdentification(); now = ircdb.time.time()
    auth = [(i, [h for (w, h) in u.auth if not (tmo and w + tmo < now)]) for i, u in ircdb.users.users.items()]
    auth = [(i, hs) for i, hs in auth if hs]
    chans = c16.snap_chans(ircdb.channels)
    ign = list(ircdb.ignores.hostmasks.items())
    dflt = sorted(str(x) for x in b.conf.supybot.capabilities())
    cu = ircdb.IrcUserCreator.u
    if cu is None:
        cue = '~'
    else:
        d = c16.canon_user(c16.snap_user(cu)); d['password'] = clear_pw(cu)
        cue = ('~' if cu.id is None else str(cu.id)) + ':' + c16.enc_user_body(d)
    return {'users': users, 'auth': auth, 'nextId': ircdb.users.nextId, 'chans': chans, 'ignores': ign, 'defaults': dflt, 'cu': cue}

DEFAULT_CHAN = {'lobotomized': False, 'defaultAllow': True, 'caps': ['-halfop', '-op', '-protected', '-voice'], 'bans': [], 'ignores': []}
def live_chans(cs):
    """ircdb.channels.getChannel() creates a default record as a side effect of merely asking about a channel
    (checkCapability does so); such a record is what getChannel would return anyway, so it is not compared"""
    return [(n, c) for n, c in c16.canon_chans(cs) if c != DEFAULT_CHAN]

def canon_auth(a):
    return a if a == '-' else ';'.join(sorted(a.split(';'), key=lambda e: int(e.split('=')[0])))

def enc_state(S):
    auth = '-' if not S['auth'] else ';'.join('%d=%s' % (i, c16.encL('+', hs)) for i, hs in S['auth'])
    return '\t'.join([c16.enc_users(c16.canon_users(S['users'])), canon_auth(auth), str(S['nextId']),
                      c16.enc_chans(live_chans(S['chans'])), c16.enc_entries(str, sorted(S['ignores'])),
                      c16.encL(',', S['defaults']), S['cu']])

def canon_model_state(fields):
    us, auth, nid, chans, ign, dflt, cu = fields
    if cu != '~':
        idp, rest = cu.split(':', 1)
        cu = idp + ':' + c16.enc_user_body(c16.canon_user(c16.dec_user_body(rest.split(':'))))
    return '\t'.join([c16.enc_users(c16.canon_users(c16.dec_users(us))), canon_auth(auth), nid,
                      c16.enc_chans(live_chans(c16.dec_chans(chans))),
                      c16.enc_entries(str, sorted(c16.dec_entries(int, ign))),
                      c16.encL(',', sorted(c16.decL(',', dflt))), cu])

def passes_owner_check(b):
    """accounts for which the bot's own owner test succeeds (not just those that hold the word 'owner')"""
    out = set()
    for i, u in b.ircdb.users.users.items():
        try:
            if u._checkCapability('owner'):
                out.add(i)
        except KeyError:
            pass
        except Exception:
            out.add(i)
    return out

def indep_chan_op(b, S, who_ids, chan):
    """does the sender hold #chan,op — decided from the snapshot S alone (the accounts' capability lists and the channel
    RECORDS that exist), without asking ircdb.checkCapability / getChannel.  True / False when a record decides it, None otherwise"""
    low = b.ircutils.toLower(chan)
    if len(who_ids) > 1:
        return None
    if len(who_ids) == 1:
        caps = dict(S['users']).get(who_ids[0], {}).get('caps', [])
        if 'owner' in caps or low + ',op' in caps: return True
        if low + ',-op' in caps: return False
    rec = [c_ for n, c_ in S['chans'] if b.ircutils.toLower(n) == low]
    ccaps = rec[0]['caps'] if rec else DEFAULT_CHAN['caps']       # no record: a fresh IrcChannel() (it has -op)
    if 'op' in ccaps: return True
    if '-op' in ccaps: return False
    return None

def owners_of(S):
    return {i for i, u in S['users'] if 'owner' in u['caps']}

# ---------------------------------------------------------------------------------------------
# vocabulary
# ---------------------------------------------------------------------------------------------
NAMES = ['bob', 'opp', 'adm', 'root', 'eve', 'mal', 'Bob', 'BOB', 'zed']
HOSTILE_NAMES = [' bob', 'bob ', 'x\n  capability owner', 'y\r  capability owner', 'a\tb', '', 'a!b@c', 'eve!e@evil.host',
                 # the other characters str.splitlines() breaks at (the file reader must not)
                 'v\x0b  capability owner', 'f\x0c  capability owner', 'g\x1c  capability owner', 'h\x1d  capability owner',
                 'i\x1e  capability owner', 'n\x85  capability owner', 'l\u2028  capability owner', 'p\u2029  capability owner',
                 'é', 'n m', '\x0bv', 'x\n', '*', 'root\n', ' ', 'owner']
BREAK_NAMES = ['x\r  capability owner', 'z\n  capability owner', 'q\r\n  capability owner', 'w\r  capability admin', 'k\rname root']
LINE_BREAKERS = '\r\n\x0b\x0c\x1c\x1d\x1e\x85\u2028\u2029'
CAPS = ['owner', 'admin', 'trusted', 'foo', 'bar', '-foo', '--foo', '-admin', '-owner', '-OWNER', '-Owner', 'OWNER', 'Owner', 'oWNER', 'FOO[',
        '--owner', '--OWNER', '----owner', '--admin', '#chan,--op', '#other,owner', '#other,foo', '#other,-foo',
        '#chan,op', '#chan,foo', '#chan,-foo', '#chan,owner', '#other,op', '#chan-ops,op', '#chan2,op', '#channel,foo', '#chanx,-op',
        '#others,op', 'user.register', '-user.register', '-register', '-user',
        '-add', '-admin.capability', 'admin.capability.add', 'halfop', 'op']
HOSTILE_CAPS = [' owner', 'owner ', '\towner', 'owner\n', '\nowner', 'own er', '', ' ', '\x0bowner', 'owner\x0c', '\xa0owner',
                'owner\r', '-owner ', ' -owner', 'a b', ',owner', '#chan, owner', 'owner,', '\\owner', '"owner"', 'ｏwner']
HOSTMASKS = ACTORS + [OWNER, '*!*@evil.host', '*!*@bob.host', 'x!y@z', 'mal!m@mal.host', '*!*@mal.host',
                      'a!b@c\n', '*!*@*', '?!?@?', 'x', '', 'all', 'EVE!E@EVIL.HOST', 'nick!user@ho st',
             'ev*!*@*', '*ve!*@*', 'm*!*@mal.host', '*l!m@*', 'ann*!*@*', '*bea!*@*', 'z?x!*@*', 'z*!q@*']      # pairs that share hostmasks without matching each other
CHANS = ['#chan', '#CHAN', '#other', '#chan\n', '#chan ', 'chan', '#a,b', '&x']
PLUGINS = ['User', 'user', 'USER', 'Admin', 'Channel', 'Misc', 'Owner', 'nosuch', '', 'Us er']
PCOMMANDS = ['register', 'whoami', 'capability', 'hostmask', 'ping', 'no-such', 'regi_ster', 'REGISTER', 'list', 'a b', '',
             'identify-', 'op', 'ignore', 'defaultcapability']

def pick(r, good, hostile, p=0.25):
    return r.choice(hostile) if r.random() < p else r.choice(good)

def gen_cmd(r, S=None):
    k = r.choice(['register', 'register', 'unregister', 'changename', 'changename', 'identify', 'unidentify', 'hostmaskAdd',
                  'hostmaskAdd', 'hostmaskRemove', 'setPassword', 'setSecure', 'capAdd', 'capAdd', 'capAdd', 'capAdd', 'capRemove',
                  'chanCapAdd', 'chanCapAdd', 'chanCapRemove', 'chanCapSet', 'chanCapUnset', 'chanSetDefault', 'chanSetDefault', 'ignoreAdd',
                  'ignoreRemove', 'defaultCapAdd', 'defaultCapRemove', 'configCaps', 'flushReload', 'flushReload',
                  'reload', 'reload', 'flushAll', 'upkeep', 'chanDisable', 'chanDisable', 'chanEnable', 'restart'])
    users = S['users'] if S else []
    live_names = [u['name'] for _, u in users if u['name']] or NAMES
    def name():
        x = r.random()
        if x < 0.45: return r.choice(live_names)
        return pick(r, NAMES, HOSTILE_NAMES)
    def pw(): return r.choice(PWS)
    def cap(): return pick(r, CAPS, HOSTILE_CAPS, 0.35)
    def held_cap(chan=False):
        """(name, cap) of a capability somebody really holds (so that removals can succeed)"""
        pairs = [(u['name'], c) for _, u in users for c in u['caps'] if (',' in c) == chan and u['name']]
        return r.choice(pairs) if pairs and r.random() < 0.7 else None
    if k == 'register':
        if r.random() < 0.1:        # a name the reader will strip into a name that is taken: the next load stops at that record
            return (k, [r.choice([' ', '  ', '\t']) + r.choice(live_names), pw()])
        return (k, [pick(r, NAMES, HOSTILE_NAMES), pw()])
    if k == 'unregister': return (k, [name(), r.choice(PWS + [None])])
    if k == 'changename':
        if r.random() < 0.12:       # a name that would be read back as several lines, by somebody who may rename the account
            return (k, [r.choice(live_names), r.choice(BREAK_NAMES), r.choice(['pw1', 'pw2'])])
        return (k, [name(), pick(r, NAMES, HOSTILE_NAMES, 0.4), pw()])
    if k == 'identify': return (k, [name(), pw()])
    if k == 'unidentify': return (k, [])
    if k == 'hostmaskAdd':
        if r.random() < 0.15: return (k, ['__PAIR__', '', ''])       # expanded in run_history: two masks sharing hostmasks
        return (k, [name(), r.choice(HOSTMASKS), pw()])
    if k == 'hostmaskRemove':
        hms = [(u['name'], h) for _, u in users for h in u['hostmasks'] if u['name']]
        if hms and r.random() < 0.6:
            n, h = r.choice(hms); return (k, [n, r.choice([h, h, 'all', h.upper()]), pw()])
        return (k, [name(), r.choice(HOSTMASKS), pw()])
    if k == 'setPassword': return (k, [name(), pw(), pw()])
    if k == 'setSecure': return (k, [pw(), r.choice([True, False, None])])
    if k == 'capAdd':
        if r.random() < 0.2:
            # towards a set holding a capability and its inverse: the holder of '--x' is given '-x'
            dbl = [(u['name'], c) for _, u in users for c in u['caps'] if c.startswith('--') and u['name']]
            if dbl:
                n, c = r.choice(dbl); return (k, [n, c[1:]])
            return (k, [r.choice(live_names), r.choice(['--foo', '--bar', '--admin'])])
        return (k, [name(), cap()])
    if k == 'capRemove':
        h = held_cap()
        return (k, list(h) if h else [name(), cap()])
    if k == 'chanCapAdd': return (k, [r.choice(CHANS), name(), cap()])
    if k == 'chanCapRemove':
        h = held_cap(chan=True)
        if h:
            ch, c = h[1].split(',', 1); return (k, [ch, h[0], c])
        return (k, [r.choice(CHANS), name(), cap()])
    if k == 'chanCapSet':
        if r.random() < 0.15: return (k, [r.choice(['#chan', '#other']), r.choice([['--foo', '-foo'], ['--op', '-op'], ['--bar', 'x', '-bar']])])
        return (k, [r.choice(CHANS), [cap() for _ in range(r.randint(1, 3))]])
    if k == 'chanCapUnset':
        chans = [(n, c['caps']) for n, c in (S['chans'] if S else []) if c['caps']]
        if chans and r.random() < 0.7:
            n, cs = r.choice(chans)
            if r.random() < 0.25:       # a capability that is held, then one that is not a capability at all
                return (k, [n, [r.choice(cs), r.choice(['\tx', 'x\x0c', '\x0bop'])]])
            return (k, [n, [r.choice(cs) for _ in range(r.randint(1, 2))]])
        return (k, [r.choice(CHANS), [cap() for _ in range(r.randint(1, 3))]])
    if k == 'chanSetDefault': return (k, [r.choice(CHANS), r.random() < 0.5])
    if k == 'upkeep': return (k, [r.random() < 0.5])
    if k == 'chanDisable':
        if r.random() < 0.5:
            pl, cm = r.choice([('User', 'register'), ('user', 'WhoAmI'), ('Admin', 'ignore'), ('Channel', 'op'), ('Misc', 'ping'),
                               ('Owner', 'default-capability'), ('USER', 'identify-')])
            return (k, [r.choice(['#chan', '#chan', '#CHAN', '#other']), pl, cm])
        return (k, [r.choice(CHANS), r.choice(PLUGINS), r.choice(PCOMMANDS)])
    if k == 'chanEnable':
        dis = [(n, c_) for n, ch in (S['chans'] if S else []) for c_ in ch['caps'] if c_.startswith('-') and '.' in c_]
        if dis and r.random() < 0.7:
            n, c_ = r.choice(dis); pl, cm = c_[1:].split('.', 1); return (k, [n, pl, cm])
        return (k, [r.choice(CHANS), r.choice(PLUGINS), r.choice(PCOMMANDS)])
    if k == 'ignoreAdd': return (k, [r.choice(HOSTMASKS + ['eve', 'bob', 'nobody'])])
    if k == 'ignoreRemove':
        ig = [h for h, _ in (S['ignores'] if S else [])]
        return (k, [r.choice(ig) if ig and r.random() < 0.7 else r.choice(HOSTMASKS)])
    if k in ('defaultCapAdd', 'defaultCapRemove'): return (k, [cap()])
    if k == 'configCaps': return (k, [[cap() for _ in range(r.randint(1, 2))]])
    return (k, [])

def gen_actor(r, k):
    """the actor most likely to get through the guard of `k`, most of the time"""
    x = r.random()
    if k == 'register' and x > 0.93:
        return WILD         # addHostmask refuses it after newUser(): the registration is rolled back
    if x < 0.5:
        if k.startswith('chanCap') or k in ('chanSetDefault', 'chanDisable', 'chanEnable'): return ACTORS[2]
        if k in ('capAdd', 'capRemove', 'ignoreAdd', 'ignoreRemove'): return ACTORS[3]
    return r.choice(ACTORS)

TEXT = {'register': 'user register', 'unregister': 'user unregister', 'changename': 'user changename', 'identify': 'user identify',
        'unidentify': 'user unidentify', 'hostmaskAdd': 'user hostmask add', 'hostmaskRemove': 'user hostmask remove',
        'setPassword': 'user set password', 'setSecure': 'user set secure', 'capAdd': 'admin capability add',
        'capRemove': 'admin capability remove', 'chanCapAdd': 'channel capability add', 'chanCapRemove': 'channel capability remove',
        'chanCapSet': 'channel capability set', 'chanCapUnset': 'channel capability unset',
        'chanSetDefault': 'channel capability setdefault', 'ignoreAdd': 'admin ignore add', 'ignoreRemove': 'admin ignore remove',
        'defaultCapAdd': 'owner defaultcapability add', 'defaultCapRemove': 'owner defaultcapability remove',
        'configCaps': 'config supybot.capabilities', 'chanDisable': 'channel disable', 'chanEnable': 'channel enable'}

def flat_args(k, args):
    out = []
    for a in args:
        if a is None: continue
        if isinstance(a, bool): out.append('True' if a else 'False')
        elif isinstance(a, list): out += a
        else: out.append(a)
    if k == 'configCaps':
        out = [' '.join(out)]
    return out

def irc_text(b, k, args):
    """command text whose tokens are exactly the wanted arguments, or None"""
    toks = TEXT[k].split() + flat_args(k, args)
    text = ' '.join(TEXT[k].split() + [b.callbacks.utils.str.dqrepr(a) for a in flat_args(k, args)])
    if any(c in text for c in '\r\n\0'):
        return None
    try:
        if b.callbacks.tokenize(text) != toks:
            return None
    except SyntaxError:
        return None
    return text

def enc_cmd(k, args):
    f = [k]
    for a in args:
        if a is None: f.append('~')
        elif isinstance(a, bool): f.append('1' if a else '0')
        elif isinstance(a, list): f.append(c16.encL(',', a))
        else: f.append(wire.enc(a))
    if k == 'configCaps':
        # the registry value is space separated: the model receives the words
        f = [k, c16.encL(',', ' '.join(args[0]).split())]
    if k == 'setSecure' and args[1] is None:
        f = [k, wire.enc(args[0]), '~']
    return '\t'.join(f)

def restart_databases(b):
    """what a new process does with the three databases: fresh objects (here: the same objects re-initialised, because
    functions all over the bot hold them as default arguments), nothing left in the reader classes, files read"""
    ircdb = b.ircdb
    ircdb.IrcUserCreator.u = None; ircdb.IrcChannelCreator.name = None
    for db in (ircdb.users, ircdb.ignores, ircdb.channels):
        fn = db.filename
        db.__init__()
        try:
            db.open(fn)
        except EnvironmentError:
            db.filename = fn

def guard_applies(k):
    return k not in ('flushReload', 'reload', 'flushAll', 'upkeep', 'expire', 'restart')

def replied_ok(out):
    for m in out:
        t = m.args[-1] if m.args else ''
        if 'The operation succeeded' in t or t.startswith('Secure flag set to'):
            return True
    return False

def entitled_grant(b, before_fn, prefix, k, args):
    """the guard of the property statement, evaluated on the implementation (state before the step)"""
    return before_fn

# ---------------------------------------------------------------------------------------------
def file_cap_orders(path, header):
    """[(key, [capabilities in file order])] of a users.conf / channels.conf as it stands on disk"""
    out = []
    try:
        with open(path, encoding='utf8', newline='\n') as f:
            data = f.read()
    except OSError:
        return out
    cur = None
    for line in data.split('\n'):
        if line.startswith(header + ' '):
            cur = (line[len(header) + 1:], [])
            out.append(cur)
        elif line.startswith('  capability ') and cur is not None:
            cur[1].append(line[len('  capability '):])
    return out

def plugins_line(b):
    tbl = []
    for cb in b.irc.callbacks:
        cmds = [c for c in dir(cb) if hasattr(cb, 'isCommandMethod') and cb.isCommandMethod(c)]
        tbl.append((cb.name(), cmds))
    return 'plugins\t' + c16.enc_entries(lambda cs: c16.encL('+', cs), tbl)

def run_history(b, r, n_steps, out, hist_id):
    ircdb = b.ircdb
    setup(b)
    S = snap(b)
    drv = [plugins_line(b), 'init\t%s\t%s\t%s\t-\t1' % (c16.enc_users(S['users']), c16.enc_chans(S['chans']), c16.encL(',', [str(x) for x in b.conf.supybot.capabilities()]))]
    steps = []
    prev = S
    prev_pass = passes_owner_check(b)
    trail = []
    # half of the histories run with supybot.databases.users.timeoutIdentification = 3600: the clock then jumps past
    # it now and then (Ev.expire: every login made so far is gone)
    tmo = TIMEOUT if r.random() < 0.5 else 0
    b.conf.supybot.databases.users.timeoutIdentification.setValue(tmo)
    pending = []
    kinds = []          # one entry per driver line after plugins/init: 'step' or 'order'
    I16 = type('I', (), {'ircdb': ircdb})
    for si in range(n_steps):
        where = None; gate_block = False; plugin_anti = ''; admin_guarded = False; admin_ok = True; who_ids = []
        forced_actor = None
        if pending:
            item = pending.pop(0)
            k, args = item[0], item[1]
            forced_actor = item[2] if len(item) > 2 else None
        else:
            k, args = gen_cmd(r, prev)
        if tmo and not pending and r.random() < 0.06:
            k, args = 'expire', []
        actor = forced_actor or (gen_actor(r, k) if k != 'expire' else ACTORS[0])
        if tmo and k == 'identify' and r.random() < 0.5:
            if r.random() < 0.5:        # the admin's password, from whatever hostmask
                args = ['adm', 'pw2']
            pending.append(('expire', []))
            if r.random() < 0.7:        # … and then the one who had logged in asks for something only the account may do
                pending.append(('capAdd', [r.choice(['bob', 'opp', 'zed']), r.choice(['admin', 'foo', '-bar'])], actor))
        if k in ('chanCapUnset', 'chanCapSet') and any(not ircdb.isCapability(x) for x in args[1]) and r.random() < 0.5:
            pending.append(('reload', []))      # a refused set/unset, then SIGHUP: nothing may have changed in between
        if k == 'register' and args[0] != args[0].strip() and not pending and r.random() < 0.6:
            pending.append(('reload', []))          # … and the load that stops there
        if k in ('register', 'changename') and any(ch in args[0 if k == 'register' else 1] for ch in LINE_BREAKERS) and r.random() < 0.6:
            pending.append(('flushReload', []))     # whatever such a name did, it must not come back as extra lines
        if k == 'hostmaskAdd' and args[0] == '__PAIR__':
            # one account takes a wildcard mask, another asks for a mask that shares hostmasks with it without matching it
            # as a literal string: setUser refuses, and the refusal must leave nothing behind
            m1, m2 = r.choice([('ann*!*@*', '*bea!*@*'), ('*bea!*@*', 'ann*!*@*'), ('z?x!*@*', 'z*!q@*'), ('q*!*@h.example', '*!u@*.example')])
            (n1, a1, p1), (n2, a2, p2) = r.sample([('bob', ACTORS[1], 'pw1'), ('opp', ACTORS[2], 'pw1'), ('adm', ACTORS[3], 'pw2')], 2)
            args = [n1, m1, p1]; actor = a1
            pending.insert(0, ('hostmaskAdd', [n2, m2, p2], a2))
        if k == 'chanCapSet' and not pending and r.random() < 0.3:
            # the op of #chan makes op (or something else) a channel-wide capability THERE; whoever is op nowhere then tries
            # the same in a channel nobody has configured
            args = ['#chan', [r.choice(['op', 'op', 'foo'])]]; forced_actor = ACTORS[2]; actor = ACTORS[2]
            pending.append(('chanCapAdd', [r.choice(['#other', '#pub', '#beta']), r.choice(['bob', 'opp', 'adm']), r.choice(['op', 'foo'])],
                            r.choice([ACTORS[0], ACTORS[1]])))
        if k == 'flushReload' and (any(c16.inverse_pair(I16, u['caps']) for _, u in prev['users']) or
                                   any(c16.inverse_pair(I16, c['caps']) for _, c in prev['chans'])):
            # finding C16-capability-inverse-pair: with both '--foo' and '-foo' in a set, which of them survives a
            # reload depends on the order the Python set was written in.  The order is an input of the model
            # (Ev.order): the files are written first, then read here, then reloaded
            k, args = 'flushAll', []
            pending.insert(0, ('reload', []))
        if k == 'flushReload':
            ircdb.log.clear()
            ircdb.users.flush(); ircdb.users.reload()
            ircdb.channels.flush(); ircdb.channels.reload()
            ircdb.ignores.flush(); ircdb.ignores.reload()
            ok = True
            guard = None
        elif k in ('flushAll', 'upkeep'):
            # world.flush() as run by the owner's `flush` command / shutdown, and the periodic world.upkeep()
            # whose flushing part is switched by supybot.flush
            if k == 'flushAll':
                b.world.flush()
            else:
                b.conf.supybot.flush.setValue(bool(args[0]))
                try: b.world.upkeep()
                finally: b.conf.supybot.flush.setValue(False)
            ok = True
            guard = None
        elif k == 'expire':
            ircdb.time.offset += TIMEOUT + 5
            ok = True
            guard = None
        elif k in ('reload', 'restart'):
            if k == 'restart':
                # the bot is stopped (world.flush() on the way out) and started again (Ev.restart)
                b.world.flush()
            # SIGHUP / 'config reload' (Config._reload): the files are read as they are, nothing is flushed first.
            # The order in which the capability sets stand in the files is told to the model (which accepts it
            # only as a permutation of what it has saved: a relation checked in Lean, C02.St.fileOrderOk)
            uo = [(key, caps) for key, caps in file_cap_orders(ircdb.users.filename, 'user') if len(caps) > 1]
            co = [(key, caps) for key, caps in file_cap_orders(ircdb.channels.filename, 'channel')
                  if len(caps) > 1 and sorted(caps) != DEFAULT_CHAN['caps']]
            if os.environ.get('C02_REVERSE_ORDER'):     # self-test of the harness: a wrong order must be noticed
                uo = [(key, caps[::-1]) for key, caps in uo]; co = [(key, caps[::-1]) for key, caps in co]
            order_fields = '%s\t%s' % (';'.join('%s=%s' % (key, c16.encL('+', caps)) for key, caps in uo) or '-',
                                       c16.enc_entries(lambda cs: c16.encL('+', cs), co))
            if k == 'reload':
                drv.append('order\t' + order_fields)
                kinds.append('order')
            inv_pair = any(c16.inverse_pair(I16, caps) for _, caps in uo + co)
            ircdb.log.clear()
            if k == 'restart':
                restart_databases(b)
            else:
                ircdb.users.reload(); ircdb.ignores.reload(); ircdb.channels.reload()
            ok = True
            guard = None
        else:
            text = irc_text(b, k, args)
            if text is None:
                continue
            if os.environ.get('C02_CLEAR_CACHES'):
                # the model has no _nameCache/_hostmaskCache (cache transparency is C04's statement)
                ircdb.users._nameCache.clear(); ircdb.users._hostmaskCache.clear()
            if k == 'identify':
                # a hostmask recognised as one account logging in to another one makes getUserId ambiguous
                # (DuplicateHostmask with hostmask removal, C04); stay in the unambiguous fragment
                try:
                    me = ircdb.users.getUserId(actor)
                    try:
                        tgt = ircdb.users.getUser(args[0])
                    except KeyError:        # the otherUser converter also accepts the nick of somebody seen
                        tgt = ircdb.users.getUser(b.irc.state.nickToHostmask(args[0]))
                    if tgt.id != me and tgt.checkPassword(args[1]):
                        ircdb.users._nameCache.clear(); ircdb.users._hostmaskCache.clear()
                        continue
                except (KeyError, ValueError):
                    pass
                ircdb.users._nameCache.clear(); ircdb.users._hostmaskCache.clear()
            # what the property allows, decided on the state BEFORE the command
            guard = None
            try:
                if k == 'capAdd':
                    cap = b.ircutils.toLower(args[1])
                    guard = ('admin', cap, bool(ircdb.isAntiCapability(cap) or ircdb.checkCapability(actor, cap)))
                elif k == 'chanCapAdd':
                    guard = ('channel', args[0], bool(ircdb.checkCapability(actor, ircdb.makeChannelCapability(args[0], 'op'))))
            except Exception:
                guard = (k, None, False)
            # theorem admin_gate / step_changes_only_if_allowed, evaluated on the implementation: the sender of a
            # command that changes anything is not one to whom the plugin's anti-capability applies
            where = r.choice(IN_CHANNELS) if r.random() < 0.25 else None
            closed = [n for n, c_ in prev['chans'] if not c_['defaultAllow']]
            if where and closed and r.random() < 0.6:
                where = r.choice(closed)        # a channel whose defaultAllow is off: the gate needs explicit capabilities there
            plugin_anti = '-' + TEXT[k].split()[0]
            try:
                gate_block = bool(ircdb.checkCapability(actor, plugin_anti)) or \
                    bool(where and ircdb.checkCapability(actor, ircdb.makeChannelCapability(where, plugin_anti)))
            except Exception:
                gate_block = True
            # who the sender is, found by asking every account (no cache): an Admin command that changes anything
            # comes from exactly one account, and that account holds admin or owner ('-admin' is a default capability)
            try:
                who_ids = [i for i, u_ in ircdb.users.users.items() if u_.checkHostmask(actor)]
            except Exception:
                who_ids = []
            admin_ok = len(who_ids) == 1 and any(c_ in ircdb.users.users[who_ids[0]].capabilities for c_ in ('admin', 'owner'))
            admin_guarded = plugin_anti == '-admin' and '-admin' in [str(x) for x in b.conf.supybot.capabilities()]
            # a quarter of the messages are sent in a channel, addressed to the bot by nick (Ev.cmdIn): the
            # command gate then also consults #chan,-command / #chan,command and the channel's defaultAllow,
            # `private` commands are refused, and the `op` converter may take the channel from the message
            if where:
                out_msgs = bot.feed(b, actor, where, '%s: %s' % (b.irc.nick, text))
            else:
                out_msgs = bot.feed(b, actor, b.irc.nick, text)
            ok = replied_ok(out_msgs)
        # a hostmask that two accounts recognise (login on one, pattern on another) makes getUserId raise
        # DuplicateHostmask and delete hostmasks (C04's territory): the history ends before that state
        if any(sum(1 for u in ircdb.users.users.values() if u.checkHostmask(a)) > 1 for a in ACTORS + [OWNER]):
            break
        cur = snap(b)
        trail.append({'actor': actor, 'cmd': k, 'args': args, 'where': where})
        # ---- property oracle on the implementation
        msgs = []
        new_owners = owners_of(cur) - owners_of(prev)
        cur_pass = passes_owner_check(b)
        if cur_pass - prev_pass:
            msgs.append('account(s) %s now pass the owner check (capabilities %s) after %s %r by %s'
                        % (sorted(cur_pass - prev_pass), {i: u['caps'] for i, u in cur['users'] if i in cur_pass - prev_pass}, k, args, actor))
        for i, u in cur['users']:
            if '-owner' in u['caps']:
                msgs.append('account %d holds -owner (UserCapabilitySet refuses it: whoever holds it passes every owner test)' % i)
        if new_owners:
            msgs.append('account(s) %s became owner through %s %r by %s' % (sorted(new_owners), k, args, actor))
        if k in ('flushReload', 'reload', 'restart'):
            # a channel capability (one that gives, not an anti-capability) appears at a reload point only if memory
            # and channels.conf had come apart (a command that changed the live record and then did not save it)
            cbefore = {b.ircutils.toLower(n): set(c_['caps']) for n, c_ in prev['chans']}
            for n, c_ in cur['chans']:
                g = {x for x in set(c_['caps']) - cbefore.get(b.ircutils.toLower(n), set()) if not x.startswith('-')}
                if g:
                    msgs.append('channel %s gained %s at %s' % (n, sorted(g), 'flush+reload' if k == 'flushReload' else
                                                                 'a reload without flush (SIGHUP / config reload)'))
        before = dict(prev['users'])
        for i, u in cur['users']:
            old = set(before[i]['caps']) if i in before else set()
            gained = set(u['caps']) - old
            if not gained:
                continue
            if k in ('flushReload', 'reload', 'restart'):
                msgs.append('account %d gained %s at %s' % (i, sorted(gained), {'flushReload': 'flush+reload', 'restart': 'a restart (flush, new process, load)'}.get(k, 'a reload without flush (SIGHUP / config reload)')))
            elif k not in ('capAdd', 'chanCapAdd'):
                msgs.append('account %d gained %s through %s' % (i, sorted(gained), k))
            elif guard is None or not guard[2]:
                msgs.append('account %d gained %s through %s by %s who was not entitled' % (i, sorted(gained), k, actor))
            elif k == 'capAdd' and gained != {guard[1]}:
                # the caller was entitled to grant exactly the (lower-cased) capability they named
                msgs.append('account %d gained %s through capAdd of %r by %s' % (i, sorted(gained), guard[1], actor))
            elif k == 'chanCapAdd' and indep_chan_op(b, prev, who_ids, args[0]) is False:
                msgs.append('account %d gained %s through chanCapAdd on %r by %s, who is not op there by any record: the sender\'s '
                            'accounts %s, channel records %s' % (i, sorted(gained), args[0], actor, who_ids,
                                                                 [n for n, _c in prev['chans']]))
            elif k == 'chanCapAdd':
                # holding #chan,op entitles to capabilities of #chan only
                want = b.ircutils.toLower(args[0])
                for x in gained:
                    ch = x.split(',', 1)[0] if ircdb.isChannelCapability(x) else None
                    if ch is None or b.ircutils.toLower(ch) != want:
                        msgs.append('account %d gained %r through chanCapAdd on %r by %s (entitled for that channel only)'
                                    % (i, x, args[0], actor))
        changed = enc_state(cur) != enc_state(prev)
        if k == 'hostmaskAdd' and not ok:
            hm_before = {i: sorted(u_['hostmasks']) for i, u_ in prev['users']}
            for i, u_ in cur['users']:
                if i in hm_before and sorted(u_['hostmasks']) != hm_before[i]:
                    msgs.append('hostmask add %r by %s was answered with an error, yet account %d now has the hostmasks %s (before: %s)'
                                % (args, actor, i, sorted(u_['hostmasks']), hm_before[i]))
        if changed and guard_applies(k) and admin_guarded and not admin_ok:
            msgs.append('%s by %s changed the state, but the accounts recognising that hostmask now are %s and none of them is '
                        'an admin (a login that has timed out?)' % (k, actor, who_ids))
        if changed and guard_applies(k) and gate_block:
            msgs.append('%s by %s%s changed the state although %s applies to the sender (the command gate must refuse)'
                        % (k, actor, ' in ' + where if where else '', plugin_anti))
        tags = [k] + (['changed'] if changed else []) + (['ok'] if ok else [])
        if where:
            tags.append('in-channel-ok' if ok else 'in-channel-refused')
        # the run condition of theorem history_safe_all, observed on the implementation (reported, not required)
        if k in ('capAdd', 'capRemove', 'chanCapAdd', 'chanCapRemove') and not ok and \
                c16.enc_users(c16.canon_users(cur['users'])) != c16.enc_users(c16.canon_users(prev['users'])):
            tags.append('goodrun-unacknowledged-change')
        if k in ('reload', 'restart'):
            tags.append('reload-with-order-event' if (uo or co) else 'reload-no-sets')
            if inv_pair:
                tags.append('reload-inverse-pair-state')
        if k in ('flushReload', 'reload', 'restart') and getattr(ircdb.log, 'exc', None):
            tags.append('load-stopped')
        if k in ('flushReload', 'reload', 'restart') and ircdb.IrcUserCreator.u is not None:
            tags.append('users-load-stopped')        # no longer a run condition: history_safe_all covers loads that stop
            # a load that stopped, then a revocation, then the bot is stopped and started: the revocation must hold
            held = [(u_['name'], c_) for _i, u_ in cur['users'] for c_ in u_['caps'] if u_['name'] and ',' not in c_ and c_ != 'owner']
            if held and not pending and ircdb.IrcUserCreator.u is not None and r.random() < 0.8:
                n_, c_ = r.choice(held)
                pending.append(('capRemove', [n_, c_], ACTORS[3]))
                pending.append(('restart', []))
        c = Case({'history': hist_id, 'step': si, 'timeoutIdentification': tmo, 'trail': list(trail)}, impl=('1' if ok else '0') + '\t' + enc_state(cur),
                 oracle_ok=(not msgs), oracle_msg='; '.join(msgs), kind='history', tags=tuple(tags) if (changed or where or k in ('flushReload', 'reload', 'flushAll', 'upkeep', 'expire', 'restart')) else ())
        steps.append(c)
        if k == 'restart':
            drv.append('restart\t' + order_fields)      # the orders the files were just written in are part of the event
        elif k == 'expire':
            drv.append(k)
        elif where:
            drv.append('cmdin\t%s\t%s\t%s' % (wire.enc(where), wire.enc(actor), enc_cmd(k, args)))
        else:
            drv.append('cmd\t%s\t%s' % (wire.enc(actor), enc_cmd(k, args)))
        kinds.append('step')
        prev = cur
        prev_pass = cur_pass
    def fill(o, steps=steps, kinds=kinds):
        # o[0] = plugins, o[1] = init echo; then one line per step, and one per order event
        res = []
        bad_order = None
        for kind, line in zip(kinds, o[2:]):
            if kind == 'order':
                if line != 'ok':
                    bad_order = line
                continue
            f = line.split('\t')
            try:
                m = f[0] + '\t' + canon_model_state(f[1:])
            except Exception as e:
                m = 'uncanonicalisable %r' % (line[:200],)
            if bad_order:
                m = 'saved files differ from the model\'s (%s)\t' % bad_order + m
                bad_order = None
            res.append(m)
        return res
    out.append((steps, drv, fill))

def explore(ctx, n_hist, seed_tag=''):
    b = B()
    r = rng.make('c02' + seed_tag)
    out = []
    for h in range(n_hist):
        run_history(b, r, r.randint(10, 60), out, h)
    return out

def fill_model(groups):
    lines = []
    spans = []
    for steps, drv, fill in groups:
        spans.append((len(lines), len(lines) + len(drv)))
        lines += ['reset-unknown'] if False else []
        lines += drv
    outs = wire.run_driver(PROPERTY, lines, timeout=1500)
    for (steps, drv, fill), (a, bb) in zip(groups, spans):
        res = fill(outs[a:bb])
        for c, m in zip(steps, res):
            c.model = m

def run(ctx):
    build = leanbuild.ensure(PROPERTY, THEOREMS, thorough=ctx.thorough, extractors=['Preserve', 'IrcDbCaps', 'CapSites', 'WrapSpecs'])
    n = 2000 if ctx.thorough else 150
    groups = explore(ctx, n)
    if build.driver_ok:
        fill_model(groups)
    cases = [c for g in groups for c in g[0]]
    # only the first disagreement of a history is meaningful (later states inherit it)
    for steps, _, _ in groups:
        seen = False
        for c in steps:
            if seen:
                c.model = None
            elif c.disagrees():
                seen = True
    def search(disagreements, broken):
        more = explore(ctx, 150, seed_tag='/search')
        return [c for g in more for c in g[0] if c.oracle_ok is False]
    return verdict.conclude(PROPERTY, ctx.tier, ctx.seed, build, cases, search=search, rule=RULE, trusted_base=TRUSTED,
                            assumptions=['Python asserts enabled', 'supybot.databases.users.timeoutIdentification = 0 (default) or 3600 with clock jumps past it (all logins expire at once)',
                                         'commands are sent in private or in a channel addressed by nick, with every argument explicit', 'actors are not owners'],
                            t0=ctx.t0)

def replay(ctx, path):
    d = json.load(open(path))        # before the bot moves the process to its scratch directory
    b = B()
    c = d.get('case') or d.get('first_disagreement')
    if not c:
        print(json.dumps(d, indent=1)[:3000]); return 0
    print('oracle:', c.get('oracle_msg'))
    setup(b)
    b.conf.supybot.databases.users.timeoutIdentification.setValue(c['input'].get('timeoutIdentification', 0))
    for st in c['input']['trail']:
        k, args, actor = st['cmd'], st['args'], st['actor']
        if k == 'expire':
            b.ircdb.time.offset += TIMEOUT + 5
            print('the clock jumps past timeoutIdentification')
        elif k == 'flushReload':
            b.ircdb.users.flush(); b.ircdb.users.reload(); b.ircdb.channels.flush(); b.ircdb.channels.reload()
            b.ircdb.ignores.flush(); b.ircdb.ignores.reload()
            print('flush+reload')
        elif k == 'reload':
            b.ircdb.users.reload(); b.ircdb.ignores.reload(); b.ircdb.channels.reload()
            print('reload without flush')
        elif k == 'restart':
            b.world.flush(); restart_databases(b); print('restart: world.flush(), new process, databases read')
        elif k == 'flushAll':
            b.world.flush(); print('world.flush()')
        elif k == 'upkeep':
            b.conf.supybot.flush.setValue(bool(args[0])); b.world.upkeep(); b.conf.supybot.flush.setValue(False); print('world.upkeep()')
        else:
            text = irc_text(b, k, args)
            where = st.get('where')
            if where:
                outm = bot.feed(b, actor, where, '%s: %s' % (b.irc.nick, text))
            else:
                outm = bot.feed(b, actor, b.irc.nick, text)
            print('%s%s: %s -> %s' % (actor, ' in ' + where if where else '', text, [m.args[-1] for m in outm][:1]))
        print('   owners:', sorted(owners_of(snap(b))), ' caps:', {i: u['caps'] for i, u in snap(b)['users']})
    return 0
