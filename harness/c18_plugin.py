"""C18, second layer — the Scheduler plugin on a live bot (real Owner load/unload/reload, real
`scheduler add/remind/remove/repeat/list` commands sent by an owner over IRC, the real global
schedule), with the virtual clock.  Correspondence with lean/LimnoriaModel/C18/Plugin.lean and the
property oracle on the replies: every added, never removed command runs exactly once."""
import os, re, sys, time, pickle, collections
from vlib import wire, rng, bot
from vlib.verdict import Case

_live = None

def enc_name(n):
    if isinstance(n, int): return 'N%d' % n
    return 'S' + wire.enc(n)

class Live(object):
    """the live bot (once per process)"""
    def __init__(self, clk):
        self.b = bot.full(plugins=('Owner', 'Misc', 'User', 'Utilities', 'Scheduler'))
        b = self.b
        self.clk = clk
        self.irc = b.irc
        u = b.ircdb.users.newUser(); u.name = 'boss'; u.addCapability('owner'); u.addHostmask('boss!b@h')
        b.ircdb.users.setUser(u)
        self.sched = b.schedule.schedule
        # what a periodic wrapper is for is recorded when it is made (not read out of its closure)
        self.wrappers = {}
        real_mk = self.sched.makePeriodicWrapper
        def makePeriodicWrapper(f, t, name=None, *a, **k):
            w = real_mk(f, t, name, *a, **k)
            self.wrappers[id(w)] = (w, f, t, name)
            return w
        self.sched.makePeriodicWrapper = makePeriodicWrapper
        self.pickle = b.conf.supybot.directories.data.dirize('Scheduler.pickle')
        b.irc.feedMsg(b.ircmsgs.IrcMsg(':server 001 test :Welcome'))
        self.drain()

    def drain(self):
        out = []
        for _ in range(500):
            self.irc.lastTake = -1e12          # the throttle compares with a frozen virtual clock
            m = self.irc.takeMsg()
            if m is None:
                break
            if m.command in ('PRIVMSG', 'NOTICE') and m.args[0] == 'boss':
                out.append(m.args[1])
        return out

    def say(self, text):
        self.irc.feedMsg(self.b.ircmsgs.privmsg('test', text, prefix='boss!b@h'))
        return self.drain()

    def plugin(self):
        return self.irc.getCallback('Scheduler')


def live(clk):
    global _live
    if _live is None:
        _live = Live(clk)
    return _live


def classify(replies):
    """reply texts of one command -> model reply word"""
    if not replies:
        return 'silent'
    r = replies[0]
    m = re.search(r'Event #(\d+) added', r)
    if m: return 'added:%s' % m.group(1)
    if r.startswith('The operation succeeded'): return 'ok'
    if 'Invalid event id' in r: return 'invalid'
    if 'already an event with that name' in r: return 'exists'
    if 'is not a valid command' in r: return 'notloaded'
    if r.startswith('There are currently no scheduled commands'): return 'list:-'
    if r.startswith('Error:'): return 'error'
    return '?' + r[:60]

def list_keys(replies):
    txt = ' '.join(replies)
    if txt.startswith('There are currently no scheduled commands'):
        return []
    return re.findall(r'(?:^|, | and )(\S+) \((?:in |every )', txt)

def cmd_of(text):
    m = re.search(r'c(\d+)\s*$', text)
    return int(m.group(1)) if m else -1


FINDING_DRIFT = 'C18-repeat-drifts'

class PlugImpl(object):
    def __init__(self, clk, heap_install):
        self.L = live(clk)
        self.clk = clk
        self.heap_install = heap_install
        self.gen = {}
        self.ngen = 0
        self.fails = []
        self.tags = set()
        self.opi = -1
        self.picks = []
        # oracle state (from replies only)
        self.oneshot = {}       # cmd token -> {'added': t, 'due': t, 'fired': [times], 'removed': time or None, 'id': n}
        self.repeat = {}        # cmd token -> {'period': p, 'fired': [...], 'removed': ..., 'name': s}
        self.byid = {}          # key string -> cmd token

    def fail(self, msg, finding=None):
        self.fails.append((self.opi, msg, finding))

    def mark_regrid(self):
        """the plugin instance was (re)created: _restoreEvents re-derives every repeating event's next run from its grid"""
        for o in self.repeat.values():
            if o['removed'] is None:
                o['regrid'] = self.clk.t

    def check_grid(self):
        """a repeating event is meant to run at first_run + k * period (that is what _restoreEvents
        re-establishes); the periodic wrapper re-schedules from the moment it ran (finding C18-repeat-drifts)"""
        due = dict((x[1], x[0]) for x in self.L.sched.schedule)
        for c, o in self.repeat.items():
            if o['removed'] is None and o['key'] in due and 'first' in o:
                t = int(due[o['key']])
                if (t - o['first']) % o['period'] != 0:
                    self.fail('the repeating command c%d (every %d s from %d) is now due at %d, off its grid by %d s: '
                              'the wrapper re-scheduled it from the time it ran, not from the time it was due'
                              % (c, o['period'], o['first'], t, (t - o['first']) % o['period']), finding=FINDING_DRIFT)
                    self.tags.add('p-repeat-drifted')
                    o['first'] = t          # report each shift once

    # ---- lifecycle
    def fresh(self, now):
        L = self.L
        time.time = self.clk.virtual
        time.sleep = lambda s: None
        self.clk.t = now
        cb = L.plugin()
        if cb is not None:
            L.irc.removeCallback('Scheduler')
            cb.die()
        L.sched.reset(); L.sched.counter = 0
        try: os.unlink(L.pickle)
        except OSError: pass
        mod = L.b.plugin.loadPluginModule('Scheduler')
        L.b.plugin.loadPluginClass(L.irc, mod)
        L.drain()
        self.note_instance()

    def close(self):
        L = self.L
        cb = L.plugin()
        L.sched.reset()
        time.time = self.clk.real
        time.sleep = self.clk.real_sleep

    def note_instance(self):
        cb = self.L.plugin()
        if cb is not None and id(cb) not in self.gen:
            self.ngen += 1
            self.gen[id(cb)] = (self.ngen, cb)      # keep the object alive: ids stay unique
            # what the user sees now: event ids may have changed after a restart
            txt = ' '.join(self.L.say('scheduler list'))
            for key, c in re.findall(r'(\S+) \((?:in|every)[^:]*\): "(?:echo )?c(\d+)"', txt):
                c = int(c)
                self.byid[key] = c
                o = self.oneshot.get(c) or self.repeat.get(c)
                if o is not None:
                    o['key'] = key

    # ---- description of what is scheduled
    def describe(self, f):
        tag = getattr(f, '_vt_tag', None)
        if tag is not None:
            return 'f%d' % tag
        w = self.L.wrappers.get(id(f))
        if w is not None:                               # periodic wrapper
            _, inner, t, name = w
            try:
                ic = dict(zip(inner.__code__.co_freevars, [c.cell_contents for c in inner.__closure__]))
                g = self.gen.get(id(ic['self']), (0,))[0]
                return 'r%d/%s/%d/%d' % (g, wire.enc(name), int(t), cmd_of(ic['command']))
            except Exception:
                return '?'
        try:
            cells = dict(zip(f.__code__.co_freevars, [c.cell_contents for c in f.__closure__]))
        except Exception:
            return '?'
        g = self.gen.get(id(cells.get('self')), (0,))[0]
        text = cells.get('command', cells.get('text', ''))
        eid = getattr(f, 'eventId', -1)
        return 's%d/%s/%d' % (g, eid if isinstance(eid, int) else repr(eid), cmd_of(text))

    @staticmethod
    def enc_table(d):
        out = []
        for k, ev in d.items():
            if ev['type'] == 'single':
                out.append('I%s=%d/%d/0' % (k, int(ev['time']), cmd_of(ev['command'])))
            else:
                out.append('S%s=%d/%d/%d' % (wire.enc(k), int(ev['time']), cmd_of(ev['command']), int(ev['first_run'])))
        return ';'.join(out) or '-'

    def state(self):
        try:
            return self._state()
        except Exception as e:      # a broken plugin must not take the harness down
            return '?state: %s: %s' % (type(e).__name__, e)

    def _state(self):
        L = self.L
        S = L.sched
        ents = sorted('%d/%s/%s' % (int(x[0]), enc_name(x[1]), self.describe(S.events.get(x[1]))) for x in S.schedule)
        cb = L.plugin()
        table = self.enc_table(cb.events) if cb is not None else '-'
        try:
            with open(L.pickle, 'rb') as fd:
                pk = self.enc_table(pickle.load(fd))
        except OSError:
            pk = '~'
        return '%d|%d|%d\t%s\t%s\t%s' % (self.clk.t, S.counter, 1 if cb is not None else 0, ';'.join(ents) or '-', table, pk)

    # ---- oracle on the replies
    def on_fired(self, texts):
        now = self.clk.t
        out = []
        for t in texts:
            c = cmd_of(t)
            if c < 0:
                continue
            out.append(c)
            if c in self.oneshot:
                o = self.oneshot[c]
                o['fired'].append(now)
                if len(o['fired']) > 1:
                    self.fail('the one-shot command c%d (event %s, due %d) ran %d times: at %r'
                              % (c, o['key'], o['due'], len(o['fired']), o['fired']))
                if o['removed'] is not None:
                    self.fail('the command c%d ran at %d although its event was removed at %d' % (c, now, o['removed']))
                if now < o['due']:
                    self.fail('the command c%d ran at %d, before its due time %d' % (c, now, o['due']))
                self.tags.add('p-oneshot-ran')
            elif c in self.repeat:
                o = self.repeat[c]
                if o['removed'] is not None:
                    self.fail('the repeating command c%d ran at %d although it was removed at %d' % (c, now, o['removed']))
                if o['fired'] and now - o['fired'][-1] < o['period']:
                    # Two runs closer than the period.  While the plugin stays loaded the wrapper re-schedules from
                    # the moment it ran, so this cannot happen.  After a (re)load or restart _restoreEvents puts the
                    # event back on its grid first_run + k * period: a run that was late (finding C18-repeat-drifts)
                    # followed by the next grid point is then legitimately closer than the period -- provided a grid
                    # point lies strictly after the previous run and not after this one (a second run for the SAME
                    # occurrence, e.g. a reload that runs the command at once, is still a failure).
                    prev = o['fired'][-1]
                    ok_grid = False
                    if o.get('regrid') is not None and o['regrid'] >= prev:
                        g = o['grid0'] + ((now - o['grid0']) // o['period']) * o['period']
                        ok_grid = prev < g <= now
                        if ok_grid:
                            self.tags.add('p-repeat-regridded-short-interval')
                    if not ok_grid:
                        self.fail('the repeating command c%d (every %d s) ran at %d and again at %d' % (c, o['period'], prev, now))
                o['fired'].append(now)
                self.tags.add('p-repeat-ran')
            else:
                self.fail('a command c%d ran that was never scheduled' % c)
        return out

    def final_check(self):
        """after the closing phase (plugin loaded, clock far ahead, run): nothing may be left behind"""
        for c, o in sorted(self.oneshot.items()):
            if o['removed'] is None and len(o['fired']) != 1:
                self.fail('the one-shot command c%d (event %s, due %d) ran %d times by the end (now %d)'
                          % (c, o['key'], o['due'], len(o['fired']), self.clk.t))

    # ---- operations
    def do(self, op):
        self.opi += 1
        L = self.L
        k = op[0]
        if k == 'pnew':
            self.fresh(op[1])
            return 'ok\t-\t' + self.state()
        reply = 'ok'; ran = []
        loaded = L.plugin() is not None
        now = self.clk.t
        if k == 'padd':
            sec, c, remind = op[1], op[2], op[3]
            r = L.say(('scheduler remind %d c%d' if remind else 'scheduler add %d echo c%d') % (sec, c))
            reply = classify(r)
            if reply.startswith('added:'):
                key = reply.split(':')[1]
                self.oneshot[c] = {'due': now + sec, 'fired': [], 'removed': None, 'key': key}
                self.byid[key] = c
                self.tags.add('p-remind' if remind else 'p-add')
        elif k == 'premove':
            key = op[1]
            target = int(key) if is_id(key) else key           # the name the event is scheduled under
            before = set(x[1] for x in L.sched.schedule)
            r = L.say('scheduler remove %s' % key)
            reply = classify(r)
            after = set(x[1] for x in L.sched.schedule)
            c = self.byid.get(key)
            gone = before - after
            if gone - set([target]):
                self.fail('"scheduler remove %s" took %s out of the schedule: not the event that was named'
                          % (key, ', '.join(sorted(map(repr, gone - set([target]))))))
            if reply == 'ok' and target in after:
                self.fail('"scheduler remove %s" answered success but the event %r is still scheduled' % (key, target))
            if reply == 'invalid' and loaded and c is not None and target in before:
                o_ = self.oneshot.get(c) or self.repeat.get(c)
                if o_ is not None and o_['removed'] is None and o_['key'] == key:
                    self.fail('"scheduler remove %s" answered "Invalid event id" although that event is scheduled: '
                              'it cannot be removed and keeps running' % key)
            if reply == 'ok' and c is not None:
                o = self.oneshot.get(c) or self.repeat.get(c)
                if o is not None and o['removed'] is None and not (c in self.oneshot and o['fired']):
                    o['removed'] = now
                self.tags.add('p-removed')
            elif reply == 'invalid':
                self.tags.add('p-remove-invalid')
        elif k == 'prepeat':
            name, period, c, delay = op[1:5]
            r = L.say('scheduler repeat %s%s %d echo c%d' % ('--delay %d ' % delay if delay else '', name, period, c))
            reply = classify(r)
            if reply == 'silent':
                self.repeat[c] = {'period': period, 'fired': [], 'removed': None, 'key': name, 'first': self.clk.t + delay, 'grid0': self.clk.t + delay, 'regrid': None}
                self.byid[name] = c
                self.tags.add('p-repeat')
        elif k == 'plist':
            r = L.say('scheduler list')
            # a long list is paged by the reply machinery: fetch the rest with `more` (Misc)
            for _ in range(40):
                if not (r and re.search(r'\(\d+ more messages?\)\x02?\s*$', r[-1])):
                    break
                r[-1] = re.sub(r'\s*\x02?\(\d+ more messages?\)\x02?\s*$', '', r[-1])
                nxt = L.say('more')
                if not nxt:
                    break
                r += nxt
            reply = classify(r)
            if reply != 'notloaded':
                keys = list_keys(r)
                reply = 'list:' + (','.join(sorted(('I' + x) if is_id(x) else 'S' + wire.enc(x) for x in keys)) or '-')
                self.tags.add('p-list-%d' % min(len(keys), 2))
        elif k == 'pflush':
            cb = L.plugin()
            if cb is not None:
                for f in list(L.b.world.flushers):
                    if getattr(f, '__self__', None) is cb:
                        f()
        elif k in ('pload', 'punload', 'preload'):
            r = L.say('%s Scheduler' % k[1:])
            reply = classify(r)
            self.note_instance()
            if k in ('pload', 'preload'):
                self.mark_regrid()
            self.tags.add('p-' + k[1:] + ('' if reply == 'ok' else '-refused'))
        elif k == 'prestart':
            if loaded:
                L.say('unload Scheduler')
            L.sched.reset(); L.sched.counter = 0
            r = L.say('load Scheduler')
            reply = classify(r)
            self.note_instance()
            self.mark_regrid()
            self.tags.add('p-restart')
        elif k == 'pforeign':
            def ff(): pass
            ff._vt_tag = op[1]
            try:
                L.sched.addEvent(ff, op[2])
            except AssertionError:
                # `assert name not in self.events`: the counter name was already taken
                self.fail('an anonymous schedule.addEvent(f, t) by another component failed with AssertionError: '
                          'the counter name %r is already scheduled (names in use: %r); that event never runs'
                          % (L.sched.counter - 1, sorted(map(repr, L.sched.events))))
                self.tags.add('p-foreign-refused')
            self.tags.add('p-foreign')
        elif k == 'ptick':
            self.clk.t += op[1]
        elif k == 'prun':
            del self.picks[:]
            self.heap_install(self)
            try:
                L.sched.run()
            except Exception as e:
                self.fail('run() raised %s: %s' % (type(e).__name__, e))
            texts = L.drain()
            ran = self.on_fired(texts)
            self.tags.add('p-run-%d' % min(len(self.picks), 3))
            self.check_grid()
        elif k == 'pfinal':
            self.final_check()
            return None
        rs = ','.join('R%d' % c for c in ran) or '-'
        return '%s\t%s\t%s' % (reply, rs, self.state())

    def on_pop(self, item, heap):
        self.picks.append(item[1])
        if len(self.picks) > 2000:
            raise RuntimeError('run() does not terminate')


def model_line(op, picks=None):
    k = op[0]
    if k == 'pnew': return 'pnew\t%d' % op[1]
    if k == 'padd': return 'padd\t%d\t%d' % (op[1], op[2])
    if k == 'premove': return 'premove\t%s' % (('I' + op[1]) if is_id(op[1]) else 'S' + wire.enc(op[1]))
    if k == 'prepeat': return 'prepeat\t%s\t%d\t%d\t%d' % (wire.enc(op[1]), op[2], op[3], op[4])
    if k == 'pforeign': return 'pforeign\t%d\t%d' % (op[1], op[2])
    if k == 'ptick': return 'ptick\t%d' % op[1]
    if k == 'prun': return 'prun\t%s' % (','.join(enc_name(p) for p in picks) or '-')
    return k

def canon_model(line):
    f = line.split('\t')
    if len(f) != 6:
        return line
    if f[0].startswith('list:') and f[0] != 'list:-':
        f[0] = 'list:' + ','.join(sorted(f[0][5:].split(',')))
    # the model reports runs on behalf of a live (R) or dead (X) instance; the replies only show the command
    f[1] = ','.join('R' + x[1:] for x in f[1].split(',') if x[:1] in 'RX') or '-'
    f[3] = ';'.join(sorted(f[3].split(';'))) if f[3] != '-' else '-'
    return '\t'.join(f)

# names of repeating events: anything nonInt accepts — a leading '#' (next to the same name without it), digits that
# int() reads but supybot's integer syntax does not ('08')
NAMES = ['ra', 'rb', '#ra', '08', '#rb']

def is_id(k):
    """the key of a one-shot event: the decimal of its integer id"""
    return k.isdigit() and k == str(int(k))

def gen_ops(r, maxlen=30):
    ops = [['pnew', 1000 + r.randint(0, 20)]]
    c = 0
    ids = []
    def foreign():
        return ['pforeign', r.randint(1, 9), 1000 + r.choice([5, 30, 60])]
    if r.random() < 0.35:
        # one-shot events with the first ids of the process, still pending at the first restart
        for _ in range(r.randint(1, 3)):
            if r.random() < 0.3: ops.append(foreign())
            c += 1
            ops.append(['padd', r.choice([40, 60, 90]), c, r.random() < 0.25])
    for _ in range(r.randint(4, maxlen)):
        x = r.random()
        if x < 0.24:
            c += 1
            ops.append(['padd', r.choice([1, 2, 5, 10, 10, 20, 40]), c, r.random() < 0.25])
        elif x < 0.32:
            ops.append(['premove', r.choice([str(r.randint(0, max(1, c))), r.choice(NAMES), r.choice(NAMES), '0%d' % r.randint(0, 9)])])
        elif x < 0.40:
            c += 1
            ops.append(['prepeat', r.choice(NAMES), r.choice([3, 5, 7, 12, 30]), c, r.choice([0, 0, 4, 15])])
        elif x < 0.45:
            ops.append(['plist'])
        elif x < 0.49:
            ops.append(['pflush'])
        elif x < 0.60:
            ops.append(['preload'])
        elif x < 0.66:
            ops.append(['punload'])
        elif x < 0.73:
            ops.append(['pload'])
        elif x < 0.76:
            ops.append(['prestart'])
            # a fresh process: other components schedule their own (anonymous) events right away
            for _ in range(r.choice([0, 1, 1, 2, 3])):
                ops.append(foreign())
        elif x < 0.79:
            ops.append(foreign())
            if r.random() < 0.3:
                ops.append(r.choice([['preload'], ['prestart']])); ops.append(foreign())
        elif x < 0.89:
            ops.append(['ptick', r.choice([1, 2, 3, 5, 8, 13, 30])])
            if r.random() < 0.5:
                ops.append(['prun'])
        else:
            ops.append(['prun'])
    # closing phase: plugin loaded, repeating events removed, clock far ahead, everything due runs
    ops.append(['pload'])
    for n in NAMES:
        ops.append(['premove', n])
    ops += [['ptick', 100], ['prun'], ['ptick', 5], ['prun'], ['pfinal']]
    return ops

def run_case(ops, kind, clk, heap_install):
    im = PlugImpl(clk, heap_install)
    obs = []; lines = []
    try:
        for op in ops:
            o = im.do(op)
            if o is None:
                continue
            obs.append(o)
            lines.append(model_line(op, list(im.picks) if op[0] == 'prun' else None))
    finally:
        im.close()
    ok = not im.fails
    msg = ''
    if not ok:
        i = im.fails[0][0]
        msg = 'op #%d %r: %s' % (i, ops[i] if i < len(ops) else None, im.fails[0][1])
    finding = None
    if not ok and all(f[2] is not None for f in im.fails):
        finding = im.fails[0][2]
    elif not ok:
        # a failure outside the known class decides
        first = [f for f in im.fails if f[2] is None][0]
        i = first[0]
        msg = 'op #%d %r: %s' % (i, ops[i] if i < len(ops) else None, first[1])
    c = Case({'plugin_ops': ops}, impl='\n'.join(obs), oracle_ok=ok, oracle_msg=msg,
             tags=tuple(sorted(im.tags)), kind=kind, finding=finding)
    return c, lines
