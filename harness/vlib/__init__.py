"""Shared library of the /verif correspondence harness."""
import os
VERIF = os.path.dirname(os.path.dirname(os.path.dirname(os.path.abspath(__file__))))
REPO = os.environ.get('VERIF_REPO', '/repo')
LEAN = os.path.join(VERIF, 'lean')
DRIVERDIR = os.path.join(LEAN, '.lake', 'build', 'bin')
EVIDENCE = os.path.join(VERIF, 'evidence')
REPLAYS = os.path.join(VERIF, 'replays')
CORPUS = os.path.join(VERIF, 'corpus')
ALLOWED_AXIOMS = {'propext', 'Classical.choice', 'Quot.sound'}

# The implementation under test is REPO's working tree.  REPO/supybot is a symlink to REPO/src, so
# putting REPO first on sys.path makes `import supybot` resolve there (default /repo, which is also
# what the venv's editable install points at; VERIF_REPO=<worktree> checks a scratch copy instead).
import sys as _sys
if REPO not in _sys.path:
    _sys.path.insert(0, REPO)
