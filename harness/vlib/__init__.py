"""Shared library of the /verif correspondence harness."""
import os
VERIF = os.path.dirname(os.path.dirname(os.path.dirname(os.path.abspath(__file__))))
REPO = os.environ.get('VERIF_REPO', '/repo')
LEAN = os.path.join(VERIF, 'lean')
DRIVERDIR = os.path.join(LEAN, '.lake', 'build', 'bin')
EVIDENCE = os.path.join(VERIF, 'evidence')
REPLAYS = os.path.join(VERIF, 'replays')
CORPUS = os.path.join(VERIF, 'corpus')
ALLOWED_AXIOMS = {'propext', 'Classical.choice', 'Quot.sound'}
