"""Verdict logic shared by all checks (DESIGN.md §3) and the evidence writer."""
import json, os, sys, time, hashlib
from . import VERIF, EVIDENCE, REPLAYS, ALLOWED_AXIOMS

class Case(object):
    """One explored case.
    input     : JSON-able description sufficient to replay the case
    impl      : canonical output of the implementation (str) or None if not compared
    model     : canonical output of the Lean model (str) or None if not compared
    oracle_ok : True/False/None — the property statement evaluated on the IMPLEMENTATION
    oracle_msg: what was required vs observed when oracle_ok is False
    tags      : model-branch / coverage tags
    finding   : id of the known-finding class this case falls in (or None)
    kind      : generator stream"""
    __slots__ = ('input', 'impl', 'model', 'oracle_ok', 'oracle_msg', 'tags', 'finding', 'kind')
    def __init__(self, input, impl=None, model=None, oracle_ok=None, oracle_msg='', tags=(), finding=None, kind=''):
        self.input = input; self.impl = impl; self.model = model
        self.oracle_ok = oracle_ok; self.oracle_msg = oracle_msg
        self.tags = tuple(tags); self.finding = finding; self.kind = kind
    def disagrees(self):
        return self.impl is not None and self.model is not None and self.impl != self.model
    def as_dict(self):
        return {'input': self.input, 'impl': self.impl, 'model': self.model, 'oracle_ok': self.oracle_ok,
                'oracle_msg': self.oracle_msg, 'tags': list(self.tags), 'finding': self.finding, 'kind': self.kind}

def load_findings(prop):
    p = os.path.join(VERIF, 'KNOWN_FINDINGS.json')
    try:
        data = json.load(open(p))
    except OSError:
        return []
    return [f for f in data.get('findings', []) if f.get('property') == prop]

def write_replay(prop, name, payload):
    os.makedirs(REPLAYS, exist_ok=True)
    path = os.path.join(REPLAYS, '%s_%s.json' % (prop, name))
    with open(path, 'w') as f:
        json.dump(payload, f, indent=1, sort_keys=True, default=str)
    return os.path.relpath(path, VERIF)

def conclude(prop, tier, seed, build, cases, search=None, finding_status=None, rule='',
             level_text='', trusted_base=(), assumptions=(), extra=None, t0=None,
             nontrivial=None, sample_n=5):
    """Apply the verdict table; write evidence; print VIOLATION / KNOWN-FINDING lines; return exit code.
    build          : leanbuild.BuildReport
    cases          : list of Case
    search         : callable(disagreeing_cases, broken_obligations) -> list of Case with oracle_ok False
    finding_status : dict finding_id -> (still_reproduces: bool, what_fails: str) for LISTED findings
    nontrivial     : callable(Case)->bool; default = has at least one tag"""
    t0 = t0 or time.time()
    listed = {f['id']: f for f in load_findings(prop)}
    finding_status = finding_status or {}
    nontrivial = nontrivial or (lambda c: bool(c.tags))
    violations = [c for c in cases if c.oracle_ok is False and (c.finding is None or c.finding not in listed)]
    disagreements = [c for c in cases if c.disagrees()]
    exit_code = 0
    lines = []
    replay = None
    searched = 0
    if violations:
        c = violations[0]
        replay = write_replay(prop, 'violation', {'property': prop, 'kind': 'failing-input',
                 'case': c.as_dict(), 'other_failing_cases': [v.as_dict() for v in violations[1:20]]})
        lines.append('VIOLATION property=%s replay=%s' % (prop, replay))
        exit_code = 1
    elif disagreements or not build.ok:
        found = []
        if search is not None:
            try:
                found = [c for c in (search(disagreements, list(build.failures)) or [])
                         if c.oracle_ok is False and (c.finding is None or c.finding not in listed)]
            except Exception as e:  # search is best effort
                sys.stderr.write('search failed: %r\n' % (e,))
            searched = 1
        if found:
            replay = write_replay(prop, 'violation', {'property': prop, 'kind': 'failing-input',
                     'case': found[0].as_dict(), 'broken_obligations': build.failures,
                     'first_disagreement': disagreements[0].as_dict() if disagreements else None})
            lines.append('VIOLATION property=%s replay=%s' % (prop, replay))
        else:
            replay = write_replay(prop, 'unproved', {'property': prop, 'kind': 'no-failing-input-found',
                     'broken_obligations': build.failures,
                     'correspondence_disagreements': len(disagreements),
                     'first_disagreement': disagreements[0].as_dict() if disagreements else None,
                     'build_log_tail': build.log[-3000:]})
            lines.append('VIOLATION property=%s replay=%s no-failing-input-found' % (prop, replay))
        exit_code = 1
    # listed findings: print when they still reproduce
    for fid, f in sorted(listed.items()):
        st = finding_status.get(fid)
        hit = [c for c in cases if c.finding == fid and c.oracle_ok is False]
        if (st and st[0]) or hit:
            what = (st[1] if st else None) or f.get('what_fails', '')
            lines.append('KNOWN-FINDING: property=%s %s: %s' % (prop, fid, what))
    for l in lines:
        print(l)
    # evidence
    keyset = set()
    for c in cases:
        if nontrivial(c):
            keyset.add(hashlib.sha1(json.dumps(c.input, sort_keys=True, default=str).encode()).hexdigest())
    taghist = {}
    kindhist = {}
    for c in cases:
        for t in c.tags:
            taghist[t] = taghist.get(t, 0) + 1
        kindhist[c.kind] = kindhist.get(c.kind, 0) + 1
    samples = [c.as_dict() for c in cases[:1]] + [c.as_dict() for c in cases[1::max(1, len(cases) // max(1, sample_n))][:sample_n]]
    cov = {
        'obligations': build.obligations + 1,          # + the correspondence relation
        'discharged': build.discharged + (0 if disagreements else 1),
        'checker_cmd': 'cd lean && lake build LimnoriaModel.%s.Props && lake env lean <#print axioms audit>; correspondence: harness/%s.py vs lean/.lake/build/bin/vdriver_%s' % (prop, prop.lower(), prop),
        'trusted_base': list(trusted_base),
        'evaluations': len(cases),
        'distinct_nontrivial': len(keyset),
        'rule': rule,
        'samples': samples or [{'note': 'no cases run'}],
        'axioms': build.axioms,
        'broken_obligations': build.failures,
        'correspondence_disagreements': len(disagreements),
        'oracle_failures_unlisted': len(violations),
        'oracle_failures_in_known_finding_classes': len([c for c in cases if c.oracle_ok is False and c.finding in listed]),
        'model_branch_histogram': dict(sorted(taghist.items())),
        'generator_stream_histogram': kindhist,
        'failing_input_search_ran': bool(searched),
        'build_wall_s': round(build.wall, 2),
    }
    if extra:
        cov.update(extra)
    ev = {
        'property_id': prop, 'tier': tier, 'seed': seed, 'level': 'proof',
        'coverage': cov,
        'assumptions': list(assumptions),
        'wall_s': round(time.time() - t0, 2),
        'violations': 1 if exit_code else 0,
    }
    os.makedirs(EVIDENCE, exist_ok=True)
    with open(os.path.join(EVIDENCE, prop + '.json'), 'w') as f:
        json.dump(ev, f, indent=1, sort_keys=True, default=str)
    return exit_code
