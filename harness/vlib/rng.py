"""One PRNG per run, derived from VERIF_SEED, so a disagreement replays exactly."""
import os, random

def seed():
    try:
        return int(os.environ.get('VERIF_SEED', '0'))
    except ValueError:
        return 0

def make(stream=''):
    return random.Random('%d/%s' % (seed(), stream))

# string vocabularies reused by several generators
ASCII_WORD = 'abcXYZ019_-'
NASTY = ['\r', '\n', '\0', '\t', ' ', ':', ';', '=', '\\', '@', '!', '"', "'", '#', ',', '[', ']', '{', '}', '|', '~', '^', '*', '?']
UNI = ['é', 'ß', 'Â', '\x80', '\xa0', 'λ', '中', '文', '😀', ' ', '​', '﻿', 'İ', 'ǅ']

def text(r, maxlen=12, alphabet=None, nasty=0.2, uni=0.15):
    n = r.randint(0, maxlen)
    out = []
    for _ in range(n):
        x = r.random()
        if alphabet is not None and x >= nasty + uni:
            out.append(r.choice(alphabet))
        elif x < nasty:
            out.append(r.choice(NASTY))
        elif x < nasty + uni:
            out.append(r.choice(UNI))
        else:
            out.append(r.choice(ASCII_WORD))
    return ''.join(out)
