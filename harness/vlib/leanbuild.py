"""Extraction of Gen/*.lean from /repo, `lake build`, axiom audit, source hygiene grep."""
import os, re, subprocess, fcntl, time, sys
from . import VERIF, LEAN, ALLOWED_AXIOMS

FORBIDDEN = re.compile(r'\bsorry\b|\badmit\b|^\s*axiom\s|native_decide|bv_decide|implemented_by|\bunsafe\s|maxHeartbeats\s+0\b')

class BuildReport(object):
    def __init__(self):
        self.failures = []      # list of strings naming what no longer checks
        self.axioms = {}        # theorem -> sorted list of axioms
        self.obligations = 0
        self.discharged = 0
        self.log = ''
        self.wall = 0.0
        self.driver_ok = False
    @property
    def ok(self):
        return not self.failures

def _strip_comments(src):
    # remove /- ... -/ (nested not used in this project) and -- comments
    src = re.sub(r'/-.*?-/', lambda m: '\n' * m.group(0).count('\n'), src, flags=re.S)
    return '\n'.join(l.split('--', 1)[0] for l in src.split('\n'))

def hygiene(paths):
    bad = []
    for p in paths:
        if not os.path.exists(p):
            continue
        src = _strip_comments(open(p, encoding='utf-8').read())
        for i, l in enumerate(src.split('\n'), 1):
            if FORBIDDEN.search(l):
                bad.append('%s:%d: %s' % (os.path.relpath(p, VERIF), i, l.strip()[:80]))
    return bad

def lean_sources(prop):
    out = []
    for sub in ('Py', 'Gen', 'Driver', prop):
        d = os.path.join(LEAN, 'LimnoriaModel', sub)
        if os.path.isdir(d):
            for root, _, files in os.walk(d):
                out += [os.path.join(root, f) for f in files if f.endswith('.lean')]
    return sorted(out)

def _run(cmd, timeout):
    p = subprocess.run(cmd, cwd=LEAN, stdout=subprocess.PIPE, stderr=subprocess.STDOUT, timeout=timeout)
    return p.returncode, p.stdout.decode('utf-8', 'replace')

def ensure(prop, theorems, props_module=None, extra_modules=(), thorough=False, extractors=None):
    """Regenerate Gen from /repo, build the property's Lean modules and driver, audit axioms.
    `theorems`: fully qualified names of the property theorems (obligations)."""
    from . import extractlib
    rep = BuildReport()
    t0 = time.time()
    props_module = props_module or 'LimnoriaModel.%s.Props' % prop
    lock = open(os.path.join(VERIF, '.build.lock'), 'w')
    fcntl.flock(lock, fcntl.LOCK_EX)
    try:
        # 1. extraction (fails closed)
        ex_fail = extractlib.run_all(only=extractors)
        rep.obligations += 1
        if ex_fail:
            rep.failures += ['extraction: ' + f for f in ex_fail]
        else:
            rep.discharged += 1
        # 2. build
        rc, log = _run(['lake', 'build', props_module] + list(extra_modules), 3000)
        rep.log += log[-6000:]
        built = (rc == 0)
        rc2, log2 = _run(['lake', 'build', 'vdriver_' + prop], 3000)
        rep.driver_ok = (rc2 == 0)
        if not rep.driver_ok:
            rep.log += log2[-3000:]
            rep.failures.append('build: model driver vdriver_%s does not build' % prop)
        # 3. audit
        adir = os.path.join(LEAN, '.audit')
        os.makedirs(adir, exist_ok=True)
        if built:
            af = os.path.join(adir, 'Audit_%s_%d.lean' % (prop, os.getpid()))
            with open(af, 'w') as f:
                f.write('import %s\n' % props_module)
                for m in extra_modules:
                    f.write('import %s\n' % m)
                for t in theorems:
                    f.write('#print axioms %s\n' % t)
            rc, alog = _run(['lake', 'env', 'lean', af], 1200)
            os.unlink(af)
            cur = None
            for l in alog.split('\n'):
                m = re.match(r"'([^']+)' depends on axioms: \[(.*)\]", l)
                m2 = re.match(r"'([^']+)' does not depend on any axioms", l)
                if m:
                    rep.axioms[m.group(1)] = sorted(x.strip() for x in m.group(2).split(',') if x.strip())
                    cur = m.group(1) if not l.rstrip().endswith(']') else None
                elif m2:
                    rep.axioms[m2.group(1)] = []
            # multi-line axiom lists: re-parse whole text
            for m in re.finditer(r"'([^']+)' depends on axioms: \[(.*?)\]", alog, flags=re.S):
                rep.axioms[m.group(1)] = sorted(x.strip() for x in m.group(2).replace('\n', ' ').split(',') if x.strip())
            if rc != 0:
                rep.log += alog[-3000:]
        for t in theorems:
            rep.obligations += 1
            if not built:
                rep.failures.append('theorem %s: %s does not build' % (t, props_module))
            elif t not in rep.axioms:
                rep.failures.append('theorem %s: not found by the audit' % t)
            elif not set(rep.axioms[t]) <= ALLOWED_AXIOMS:
                rep.failures.append('theorem %s: depends on axioms %s' % (t, rep.axioms[t]))
            else:
                rep.discharged += 1
        # 4. hygiene
        bad = hygiene(lean_sources(prop))
        rep.obligations += 1
        if bad:
            rep.failures += ['hygiene: ' + b for b in bad]
        else:
            rep.discharged += 1
        # 5. independent re-check (thorough)
        if thorough and built:
            rep.obligations += 1
            rc, clog = _run(['lake', 'env', 'leanchecker', props_module] + list(extra_modules), 3000)
            if rc != 0:
                rep.failures.append('leanchecker rejects %s' % props_module)
                rep.log += clog[-3000:]
            else:
                rep.discharged += 1
    finally:
        fcntl.flock(lock, fcntl.LOCK_UN)
        lock.close()
    rep.wall = time.time() - t0
    return rep
