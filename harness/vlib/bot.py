"""Importing / bootstrapping the real Limnoria code from /repo inside the harness process."""
import os, sys, tempfile, shutil, atexit
from . import REPO

_scratch = None

def scratch():
    """fresh scratch directory outside /repo and /verif, removed at exit; cwd is moved there
    (supybot creates logs/ data/ relative to cwd when imported)."""
    global _scratch
    if _scratch is None:
        _scratch = tempfile.mkdtemp(prefix='vlimn_')
        atexit.register(lambda: shutil.rmtree(_scratch, ignore_errors=True))
        os.chdir(_scratch)
    return _scratch

def light():
    """import supybot's pure modules (ircmsgs, ircutils, utils, registry ...) without a bot"""
    scratch()
    import supybot
    src = os.path.realpath(os.path.dirname(supybot.__file__))
    want = os.path.realpath(os.path.join(REPO, 'src'))
    if src != want:
        raise RuntimeError('supybot imported from %s, expected %s' % (src, want))
    import logging
    logging.disable(logging.CRITICAL)
    return supybot


# ------------------------------------------------------------------------------------------
# full bot: a real irclib.Irc with real plugins, world.testing == False (production firewall
# and capability paths).  See memory/limnoria-harness-gotchas for why each line is here.
# ------------------------------------------------------------------------------------------
_REGISTRY = """
supybot.directories.data: %(d)s/data
supybot.directories.conf: %(d)s/conf
supybot.directories.log: %(d)s/logs
supybot.directories.backup: %(d)s/backup
supybot.directories.data.tmp: %(d)s/tmp
supybot.directories.data.web: %(d)s/web
supybot.reply.whenNotCommand: True
supybot.log.stdout: False
supybot.log.stdout.level: CRITICAL
supybot.log.level: CRITICAL
supybot.log.format: %%(levelname)s %%(message)s
supybot.log.plugins.individualLogfiles: False
supybot.protocols.irc.throttleTime: 0
supybot.reply.whenAddressedBy.chars: @
supybot.networks.test.server: should.not.need.this
supybot.networks.test.ssl: False
supybot.nick: test
supybot.databases.users.allowUnregistration: True
supybot.abuse.flood.command: False
supybot.abuse.flood.command.invalid: False
supybot.abuse.flood.ctcp: False
"""

class Bot(object):
    """handle on the live bot: .irc, .conf, .ircdb, .world, .ircmsgs, .callbacks ..."""
    pass

_bot = None

def full(plugins=('Owner', 'Misc', 'User', 'Admin', 'Config', 'Channel', 'Utilities'),
         plugin_dirs=(), extra_registry='', nick='test'):
    """Build (once per process) a live bot in a scratch dir.  Returns a Bot handle.
    The process must be ended with os._exit (plugins may start non-daemon threads);
    harness/main.py does that."""
    global _bot
    if _bot is not None:
        return _bot
    d = scratch()
    for sub in ('data', 'conf', 'logs', 'backup', 'tmp', 'web'):
        os.makedirs(os.path.join(d, sub), exist_ok=True)
    rf = os.path.join(d, 'conf', 'test.conf')
    with open(rf, 'w') as f:
        f.write(_REGISTRY % {'d': d})
        f.write(extra_registry)
    import supybot
    src = os.path.realpath(os.path.dirname(supybot.__file__))
    if src != os.path.realpath(os.path.join(REPO, 'src')):
        raise RuntimeError('supybot imported from %s' % src)
    import supybot.registry as registry
    registry.open_registry(rf)
    import supybot.log as log
    import supybot.conf as conf
    conf.allowEval = True
    conf.supybot.flush.setValue(False)
    import logging
    logging.disable(logging.CRITICAL)
    import supybot.world as world, supybot.ircdb as ircdb, supybot.irclib as irclib
    import supybot.ircmsgs as ircmsgs, supybot.callbacks as callbacks, supybot.plugin as plugin
    import supybot.ircutils as ircutils, supybot.schedule as schedule, supybot.drivers as drivers
    assert world.testing is False
    world.startedAt = 0
    conf.supybot.directories.plugins.setValue([os.path.join(REPO, 'plugins')] + list(plugin_dirs))
    conf.registerNetwork('test')
    irc = irclib.Irc('test')
    b = Bot()
    b.dir = d; b.irc = irc; b.conf = conf; b.world = world; b.ircdb = ircdb; b.irclib = irclib
    b.ircmsgs = ircmsgs; b.callbacks = callbacks; b.plugin = plugin; b.ircutils = ircutils
    b.schedule = schedule; b.drivers = drivers; b.registry = registry; b.log = log
    b.nick = nick
    b.loaded = []
    for name in plugins:
        load_plugin(b, name)
    _bot = b
    return b

def load_plugin(b, name):
    module = b.plugin.loadPluginModule(name)
    cb = b.plugin.loadPluginClass(b.irc, module)
    b.loaded.append(name)
    return cb

def drain(b, limit=1000):
    """take every queued outgoing message"""
    out = []
    for _ in range(limit):
        m = b.irc.takeMsg()
        if m is None:
            break
        out.append(m)
    return out

def register_welcome(b, nick=None):
    """feed 001/376-ish so that irc.nick / afterConnect are set (no real server)"""
    nick = nick or b.nick
    b.irc.feedMsg(b.ircmsgs.IrcMsg(':server 001 %s :Welcome' % nick))
    return drain(b)

def feed(b, prefix, target, text):
    """deliver a PRIVMSG from `prefix` to `target` and return the messages the bot queued"""
    m = b.ircmsgs.privmsg(target, text, prefix=prefix)
    b.irc.feedMsg(m)
    return drain(b)
