"""Importing / bootstrapping the real Limnoria code from /repo inside the harness process."""
import os, sys, tempfile, shutil, atexit
from . import REPO

_scratch = None

def scratch():
    """fresh scratch directory outside /repo and /verif, removed at exit; cwd is moved there
    (supybot creates logs/ data/ relative to cwd when imported)."""
    global _scratch
    if _scratch is None:
        _scratch = tempfile.mkdtemp(prefix='vlimn_')
        atexit.register(lambda: shutil.rmtree(_scratch, ignore_errors=True))
        os.chdir(_scratch)
    return _scratch

def light():
    """import supybot's pure modules (ircmsgs, ircutils, utils, registry ...) without a bot"""
    scratch()
    import supybot
    src = os.path.realpath(os.path.dirname(supybot.__file__))
    want = os.path.realpath(os.path.join(REPO, 'src'))
    if src != want:
        raise RuntimeError('supybot imported from %s, expected %s' % (src, want))
    import logging
    logging.disable(logging.CRITICAL)
    return supybot
