"""Line protocol shared with lean/LimnoriaModel/Py/Wire.lean: TAB-separated fields,
strings as lower-case hex of their UTF-8 encoding."""
import subprocess, os
from . import DRIVERDIR

def enc(s):
    if isinstance(s, str):
        s = s.encode('utf-8')
    return s.hex()

def dec(f):
    return bytes.fromhex(f).decode('utf-8')

def dec_bytes(f):
    return bytes.fromhex(f)

def enc_opt(s):
    return '~' if s is None else enc(s)

def dec_opt(f):
    return None if f == '~' else dec(f)

def enc_list(xs):
    xs = list(xs)
    return '-' if not xs else ','.join(enc(x) for x in xs)

def dec_list(f):
    return [] if f == '-' else [dec(x) for x in f.split(',')]

def enc_nat(n):
    return str(int(n))

class DriverError(Exception):
    pass

def run_driver(prop, lines, timeout=600):
    """Pipe `lines` (already formatted, no newline) to `vdriver <prop>`; return output lines."""
    DRIVER = os.path.join(DRIVERDIR, 'vdriver_' + prop)
    if not os.path.exists(DRIVER):
        raise DriverError('driver executable missing: %s' % DRIVER)
    data = ('\n'.join(lines) + '\n').encode('ascii') if lines else b''
    p = subprocess.run([DRIVER], input=data, stdout=subprocess.PIPE,
                       stderr=subprocess.PIPE, timeout=timeout)
    if p.returncode != 0:
        raise DriverError('driver exit %d: %s' % (p.returncode, p.stderr.decode('utf-8', 'replace')[:500]))
    out = p.stdout.decode('ascii').split('\n')
    if out and out[-1] == '':
        out.pop()
    if len(out) != len(lines):
        raise DriverError('driver produced %d lines for %d inputs' % (len(out), len(lines)))
    return out
