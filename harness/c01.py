"""C01 — capability-gated commands never take effect for callers lacking the capability.

Correspondence of lean/LimnoriaModel/C01/Model.lean (gate = checkCommandCapability + the prefix loop
of Commands._callCommand, capability converters, spec driver, ignore test of Owner.doPrivmsg,
Config write guard, DefaultCapabilities.setValue) with the live bot: a real irclib.Irc with real
plugins, world.testing == False.  Every command of every loaded plugin (rows of the extracted table
Gen/Commands.lean + what only exists at run time) x caller roles x addressing forms x invocation
wrappers; the model predicts the gate / converter outcome from a copy of the bot's databases; the
property oracle ("no effect other than an error reply; nothing at all when ignored") is evaluated
on the implementation alone: state snapshot before = after, the command body did not run, the
output is at most one error reply."""
import contextlib, io, json, os, re, sys, threading, time, warnings
warnings.filterwarnings('ignore', category=SyntaxWarning)
from vlib import wire, rng, leanbuild, verdict, bot, VERIF
from vlib.verdict import Case

PROPERTY = 'C01'
MANIFEST = {
 'level_text': 'Lean 4 theorems about a model of Limnoria\'s capability gate, for all database states, callers, channels, plugin names and command paths: the prefix loop of _callCommand allows exactly when every one of its checks (Y, P, P.X, P.X.Y) allows (gate_allow_iff), and a plugin whose name does not lower-case to its canonical name is refused wholesale; a caller for whom -Y, -P, -P.X or -P.X.Y answers true, globally or scoped to the message\'s channel, never reaches the command (gate_forbidden, gate_forbidden_channel); a caller who is not a recognised non-ignored owner is refused every command of a plugin named Owner whenever -owner is a default capability, and the reply names owner (gate_antiowner, gate_antiowner_reply), same for any plugin P with -p among the defaults (gate_antiplugin, Admin instance); a wrapped command with owner/admin/checkCapability/checkCapabilityButIgnoreOwner/op/halfop/voice/checkChannelCapability at top level of its spec is reached only if that check answered true for the channel getChannel chose, whatever the other converters do (converter_guard*, chancap_first_channel, invoke_body_requires, owner_plugin_body_needs_owner, guarded_body_needs_capability); a caller ignored globally (ignore flag, ignores database, defaultIgnore) or by the recipient channel (ignore, ban, lobotomy) is dropped before anything is tokenised, trusted users never (ignored_silent, channel_ignored_silent, received_dispatch_requires, ...); Config writes pass only with owner, or #chan,op when every group on the path is op-settable, never for read-only names (config_write_guard); assigning supybot.capabilities always leaves -owner in and owner out (defaults_antiowner_not_owner); the lazily created channel record changes no decision (gate_touch); for EVERY database, also with inconsistent or garbage capability sets, checkCapability on a valid capability returns a boolean and the gate answers allow / denied / default-denied, never an assertion failure or escaping KeyError (checkCapability_total, gate_no_crash, inventory_names_plain); at every re-dispatch site (nested, piped, Aka, Alias, apply, let, cif, Network.command/cmdall) the gate is asked about the message being handled, for Scheduler add/repeat about the message stored by the scheduling caller (site_msg_is_current, site_msg_scheduled, scheduled_owner_command_refused), Admin.acmd dispatches nothing (it assigns to a tuple), and MessageParser asks about the SPEAKER of the matching line, not the user who stored the action — the full statement "a stored command is gated against whoever stored it" is false there, with a proved counter-example (trigger_runs_with_speakers_authority; known finding C01-trigger-runs-as-speaker, replayed on the live bot every run); the flood guard of Owner.doPrivmsg dispatches only unignored callers within the rate or trusted, and a punished caller is ignored while the entry lives (flood_dispatch_requires, flood_punishment_ignores). Kernel-checked. The command inventory (every bundled command with its wrap spec), the committed list of privileged commands, the call graph around _callCommand/Proxy, the mutators of the default capability set and the shape of the gate code are regenerated from /repo on every run and checked against committed obligations (required_present, required_rows_guarded, inventory_names_valid, plugin_names_canonical, callgraph_ok, defaults_mutators_ok, gate_shape_ok, shipped_defaults_ok). The model is tied to the code by a differential run on a live bot (real Irc, real plugins, production capability path, world.testing off): every command x caller role x addressing form x wrapper (incl. Aka, Alias, apply, let, cif, callers recognised by a password login that later times out / is dropped / whose hostmask is removed, scheduler replays fired by a virtual clock, also after the scheduling caller lost the capability), Network.command/cmdall, Scheduler.repeat (also after revocation), Admin.acmd, MessageParser triggers, configuration writes, assignments of supybot.capabilities, ignore variants, the flood guard switched on, reply/parsing configurations (generic no-capability reply, supybot.capabilities.private, whenNotCommand off, errors in private / as notices, strictRfc with a STATUSMSG target), and every converter registered in commands.wrappers run with hostile arguments for a caller who is then refused (no converter changes the snapshot); the (prefix, channel) the gate actually receives is observed at the entry of _callCommand in every scenario and compared with the site model; the same run evaluates the property statement itself on the implementation (state snapshot unchanged, command body not run, at most one error reply, silence when ignored).',
 'level_note': 'Trusted: Lean kernel; axioms propext/Classical.choice/Quot.sound only; harness/extractors/commands.py; the correspondence harness (role construction, database copy sent to the model, snapshot, reply classification, callCommand shim and body logging) and the C03 capability model it builds on (owned by C03; every gate decision here re-checks it against the real ircdb.checkCapability). Modelled and proved: checkCommandCapability, the _callCommand prefix loop, the capability converters + getChannel + the sequential spec driver, ircdb.checkIgnored / IgnoresDB.checkIgnored / IrcChannel.checkIgnored as used by PluginMixin.__call__ and Owner.doPrivmsg, Config.getCapability/isReadOnly/checkCanSetValue, DefaultCapabilities.setValue. Exercised only (not proved): the bodies of the ~500 commands; converters other than the capability ones (an arbitrary oracle in the theorems; assumed free of privileged side effects, which the snapshot comparison on refused calls would show); tokenising, addressing, nesting, alias expansion (they only produce the (prefix, channel, plugin, path, args) tuple the gate is a function of; C13/C14); threads. Not claimed: that every command which OUGHT to be privileged carries a converter (the committed list Required.lean states which do); Owner.defaultcapability can remove -owner from the defaults (owner-only, inventory obligation defaults_mutators_ok; C02). A prefix that is not nick!user@host used to be looked up as an account NAME (found here as role byname, reported to C04, repaired in /repo 926543e: Owner.doPrivmsg no longer dispatches such senders and checkCapability/checkIgnored treat them as unknown; modelled, bare_prefix_silent / bare_prefix_never_owner).',
 'technique': 'Lean 4 proof (case analysis over the decision procedure, induction over the check list / spec) + inventory extraction + differential correspondence on a live bot',
 'design_ref': 'DESIGN.md §6 C01',
}
THEOREMS = [
 'C01.gate_allow_iff', 'C01.gate_name_mismatch', 'C01.gate_forbidden', 'C01.gate_forbidden_channel', 'C01.gate_checks_plugin',
 'C01.check_antiowner', 'C01.gate_antiowner', 'C01.gate_antiowner_reply', 'C01.gate_antiplugin', 'C01.gate_antiadmin',
 'C01.getChannel_touch', 'C01.checkCapability_congr', 'C01.checkCapability_touch', 'C01.gate_touch',
 'C01.converter_guard', 'C01.converter_guard_noowner', 'C01.converter_guard_chan', 'C01.chancap_first_channel',
 'C01.invoke_body_requires', 'C01.owner_plugin_body_needs_owner', 'C01.guarded_body_needs_capability',
 'C01.checkCapability_total', 'C01.checkName_no_crash', 'C01.gate_no_crash', 'C01.inventory_names_plain',
 'C01.site_msg_is_current', 'C01.site_msg_scheduled', 'C01.scheduled_owner_command_refused', 'C01.trigger_runs_with_speakers_authority',
 'C01.ignored_silent', 'C01.bare_prefix_silent', 'C01.bare_prefix_never_owner', 'C01.dispatch_requires_not_ignored', 'C01.ignore_flag_ignored', 'C01.ignores_db_ignored',
 'C01.channel_ignored_silent', 'C01.received_dispatch_requires', 'C01.channel_ban_ignored', 'C01.trusted_never_ignored',
 'C01.flood_dispatch_requires', 'C01.flood_punishment_ignores',
 'C01.chancap_argument_scoped', 'C01.voice_others_needs_op',
 'C01.config_write_guard', 'C01.config_channel_each_checked', 'C01.config_channel_stops', 'C01.readonly_never_written', 'C01.refusals_raise',
 'C01.defaults_have_antiowner', 'C01.defaults_drop_owner', 'C01.defaults_antiowner_not_owner', 'C01.shipped_defaults_ok',
 'C01.required_present', 'C01.required_rows_guarded', 'C01.inventory_names_valid', 'C01.plugin_names_canonical', 'C01.callgraph_ok', 'C01.defaults_mutators_ok', 'C01.gate_shape_ok',
]
TRUSTED = ['Lean 4.33.0 kernel; axioms ⊆ {propext, Classical.choice, Quot.sound}',
           'harness/extractors/commands.py (command inventory, call graph, gate shape → Gen/Commands.lean) and harness/extractors/ircdb_caps.py',
           'lean/LimnoriaModel/C03/Model.lean as the model of ircdb.checkCapability (owned by C03; every gate decision here re-checks it against the real function)',
           'harness/c01.py: role construction, database copy sent to the model, state snapshot, reply classification, body call log (sys.setprofile), callCommand shim',
           'Python asserts enabled']
RULE = ('every command of every loaded plugin (extracted table rows + run-time-only commands) x caller roles (owner, admin, #c,op, registered, '
        'unregistered, ignored user, ignores-db hostmask, secure user from a wrong hostmask, a bare user name as prefix, user / channel / defaults holding an anti-capability '
        'for -Y / -P / -P.X / -P.X.Y, capabilities.default off) x addressing form (prefix char, nick, private, nick at end) x wrapper (direct, '
        'plugin-qualified, nested inside echo, with a nested argument, piped, Aka, Alias, apply, let, cif, scheduled); a case is non-trivial when it exercised a deny / ignore / '
        'converter branch; distinct = distinct (row, role, form, wrapper, args)')

PLUGINS_QUICK = ['Owner', 'Misc', 'User', 'Admin', 'Config', 'Channel', 'Utilities', 'Scheduler', 'Alias', 'Aka',
                 'Plugin', 'Network', 'Karma', 'Later', 'BadWords', 'Conditional', 'Filter', 'Math', 'Relay', 'Services', 'Unix', 'MessageParser']
HERE = os.path.dirname(os.path.abspath(__file__))
NICK = 'test'
STATUSMSG = '@+'      # advertised to the bot through a real 005 at boot
CHAN = '#c'
OTHERCHAN = '#d'

# ------------------------------------------------------------------------------------------
# observation of the implementation
# ------------------------------------------------------------------------------------------
DEBUG = {}
PARTIAL = []
EXTRA_EVIDENCE = {}
SITE_OUT = [None]
FINDING_STATUS = {}
class Obs(object):
    entered = []       # (plugin, command tuple, msg.prefix, msg.channel) at the entry of Commands._callCommand
    gate = []          # (plugin, command tuple) for which Commands.callCommand was reached
    bodies = []        # (plugin, path) of command bodies that ran
    execute = None     # callable(plugin, command) -> bool: really call the method?
    codes = {}         # code object -> (plugin, path)

def install_shims(b):
    """harness-side instrumentation (nothing in /repo is touched): every `callCommand` definition
    (the base one and the overrides of Config, User, BadWords, ...) records that `_callCommand` let
    the call through; the base one decides whether the command method is really executed."""
    cbs = b.callbacks
    if getattr(cbs.Commands, '_vt_shimmed', False):
        return
    orig = cbs.Commands.callCommand
    def callCommand(self, command, irc, msg, *args, **kwargs):
        k = (type(self).__name__, tuple(command))
        if k not in Obs.gate:
            Obs.gate.append(k)
        if Obs.execute is None or Obs.execute(k[0], k[1]):
            return orig(self, command, irc, msg, *args, **kwargs)
    cbs.Commands.callCommand = callCommand
    cbs.Commands._vt_shimmed = True
    orig_gate = cbs.Commands.__dict__['_callCommand']
    def _callCommand(self, command, irc, msg, *args, **kwargs):
        # which message does the gate see?  (prefix and msg.channel of the IrcMsg handed to Proxy)
        Obs.entered.append((type(self).__name__, tuple(command), msg.prefix, getattr(msg, 'channel', None)))
        return orig_gate(self, command, irc, msg, *args, **kwargs)
    cbs.Commands._callCommand = _callCommand
    done = set()
    for cb in b.irc.callbacks:
        for klass in type(cb).__mro__:
            if klass is cbs.Commands or klass in done or 'callCommand' not in klass.__dict__:
                continue
            done.add(klass)
            def mk(o):
                def callCommand(self, command, irc, msg, *args, **kwargs):
                    k = (type(self).__name__, tuple(command))
                    if k not in Obs.gate:
                        Obs.gate.append(k)
                    return o(self, command, irc, msg, *args, **kwargs)
                return callCommand
            setattr(klass, 'callCommand', mk(klass.__dict__['callCommand']))

def instrument_body(cb, plugin, path, m):
    """make the command body log its own execution: for a wrapped command the `f` cell of the
    innermost commands.wrap / commands.thread closure is replaced by a logging twin; an unwrapped
    command is replaced on its class by a twin with the same argument names"""
    func = m.__func__ if hasattr(m, '__func__') else m
    key = (plugin, path)
    holder = None
    f = func
    for _ in range(10):
        fv = f.__code__.co_freevars
        if 'f' in fv and f.__closure__:
            cell = f.__closure__[fv.index('f')]
            inner = cell.cell_contents
            if callable(inner) and hasattr(inner, '__code__'):
                holder = cell
                f = inner
                continue
        break
    if getattr(f, '_vt_logged', False):
        return
    if holder is not None:
        body = f
        def logged(*a, **k):
            Obs.bodies.append(key)
            return body(*a, **k)
        logged._vt_logged = True
        logged.__name__ = getattr(body, '__name__', 'body'); logged.__doc__ = body.__doc__
        try:
            logged.__code__  # keep inspect happy
        except Exception:
            pass
        holder.cell_contents = logged
    else:
        owner = m.__self__ if hasattr(m, '__self__') else cb
        klass = type(owner)
        name = func.__name__
        for k2 in klass.__mro__:
            if name in k2.__dict__:
                body = k2.__dict__[name]
                if getattr(body, '_vt_logged', False):
                    return
                def mk(_body):
                    def logged(self, irc, msg, args):
                        Obs.bodies.append(key)
                        return _body(self, irc, msg, args)
                    return logged
                logged = mk(body)
                logged._vt_logged = True
                logged.__name__ = name; logged.__doc__ = body.__doc__
                setattr(k2, name, logged)
                return

def spec_of(func):
    """run-time wrap spec of a command method, flattened like the extractor does"""
    f = func
    for _ in range(10):
        fv = f.__code__.co_freevars
        if 'spec' in fv and 'specList' in fv:
            spec = f.__closure__[fv.index('spec')].cell_contents
            return [flat_item(t) for t in spec.types], bool(spec.allowExtra), True
        if 'f' in fv and f.__closure__:
            f = f.__closure__[fv.index('f')].cell_contents
            continue
        break
    return [], True, False

CAP_SIMPLE = {'owner': ('cap', 'owner'), 'admin': ('cap', 'admin'),
              'op': ('chancap', 'op'), 'halfop': ('chancap', 'halfop'), 'voice': ('chancap', 'voice')}
CAP_ARG = {'checkCapability': 'cap', 'checkCapabilityButIgnoreOwner': 'capNoOwner', 'checkChannelCapability': 'chancap'}

def flat_item(ctx):
    cn = type(ctx).__name__
    if cn != 'context':
        return ('ctx', cn)
    s = ctx.spec
    if s is None:
        return ('other', 'anything')
    if isinstance(s, tuple):
        name = s[0]
        if name in CAP_ARG:
            a = s[1]
            if callable(a):
                a = a()
            return (CAP_ARG[name], a)
    else:
        name = s
    if not isinstance(name, str):
        return ('ctx', type(name).__name__)
    if name in CAP_SIMPLE:
        return CAP_SIMPLE[name]
    if name == 'channel':
        return ('channel', '')
    return ('other', name)

def walk_commands(cb, prefix=()):
    """(path tuple, bound method) for every command of a plugin, groups included"""
    out = []
    for name in cb.listCommands():
        parts = name.split()
        try:
            m = cb.getCommandMethod(parts)
        except Exception:
            continue
        out.append((tuple(parts), m))
    return out

# ------------------------------------------------------------------------------------------
# world
# ------------------------------------------------------------------------------------------
ROLES = {
    'owner':    'own!o@owner.host',
    'admin':    'adm!a@admin.host',
    'chanop':   'cop!c@op.host',
    'plain':    'reg!r@reg.host',
    'unreg':    'anon!x@nowhere.host',
    'ignored':  'ign!i@ign.host',
    'ignoredb': 'igd!i@igd.host',
    'secure':   'sec!s@wrong.host',
    'anti':     'ant!a@anti.host',
    'byname':   'vown',          # a prefix that is not nick!user@host (servers, services, gateways): was looked up as a user NAME before fix 926543e
}

DEFAULT_CAPS = []
DEFAULT_NOCAP = []
ROLE_USER = {'owner': 'vown', 'admin': 'vadm', 'chanop': 'vop', 'plain': 'vreg', 'secure': 'vsec', 'anti': 'vanti', 'ignored': 'vign'}

class World(object):
    pass

def setup_world(b):
    ircdb = b.ircdb
    w = World()
    w.users = {}
    def mk(name, hostmask, caps=(), **kw):
        u = ircdb.users.newUser()
        u.name = name
        for c in caps:
            u.addCapability(c)
        if hostmask:
            u.addHostmask(hostmask)
        for k, v in kw.items():
            setattr(u, k, v)
        ircdb.users.setUser(u)
        w.users[name] = u.id
        return u
    mk('vown', 'own!o@owner.host', ['owner'])
    mk('vadm', 'adm!a@admin.host', ['admin'])
    mk('vop', 'cop!c@op.host', [CHAN + ',op'])
    mk('vreg', 'reg!r@reg.host', [])
    mk('vign', 'ign!i@ign.host', ['owner'], ignore=True)
    u = mk('vsec', 'sec!s@right.host', ['owner'])
    u.auth.append((time.time(), 'sec!s@wrong.host'))
    u.secure = True
    ircdb.users.setUser(u)
    mk('vanti', 'ant!a@anti.host', [])
    # capabilities nobody holds unless granted: their anti-capability is a default (like -owner/-admin/-trusted)
    for c in ('-vt.special', '-vt.strict'):
        b.conf.supybot.capabilities().add(c)
    for ch in (CHAN, OTHERCHAN):
        c = ircdb.channels.getChannel(ch); c.addCapability('-vtcap'); ircdb.channels.setChannel(ch, c)
    DEFAULT_CAPS[:] = sorted(set.__iter__(b.conf.supybot.capabilities()))
    ircdb.ignores.add('igd!*@igd.host', 0)
    ircdb.ignores.add('old!*@*', 1)          # expired long ago
    b.conf.supybot.commands.allowShell.setValue(False)
    b.conf.supybot.commands.nested.pipeSyntax.setValue(True)
    b.conf.supybot.reply.whenAddressedBy.nick.atEnd.setValue(True)
    return w

def user_by_name(b, name):
    return b.ircdb.users.getUser(name)

def dump_db(b):
    """the bot's databases as driver lines"""
    ircdb = b.ircdb; conf = b.conf
    L = ['reset', 'now\t%d' % int(time.time())]
    for id, u in sorted(ircdb.users.users.items()):
        auth = ','.join('%d:%s' % (int(t), wire.enc(h)) for t, h in u.auth) or '-'
        L.append('user\t%d\t%s\t%s\t%s\t%d\t%d\t%s' % (id, wire.enc(u.name), wire.enc_list(sorted(set.__iter__(u.capabilities))),
                                                    wire.enc_list(sorted(u.hostmasks)), 1 if u.ignore else 0,
                                                    1 if u.secure else 0, auth))
    for name, c in sorted(ircdb.channels.channels.items()):
        L.append('chan\t%s\t%d\t%s' % (wire.enc(name), 1 if c.defaultAllow else 0, wire.enc_list(sorted(set.__iter__(c.capabilities)))))
    L.append('defaults\t%s\t%s\t%d\t%d\t%d' % (wire.enc_list(sorted(set.__iter__(conf.supybot.capabilities()))),
                                             wire.enc_list(sorted(set.__iter__(conf.supybot.capabilities.registeredUsers()))),
                                             1 if conf.supybot.capabilities.default() else 0,
                                             int(conf.supybot.databases.users.timeoutIdentification()),
                                             1 if conf.supybot.defaultIgnore() else 0))
    for h, e in sorted(ircdb.ignores.hostmasks.items()):
        L.append('ignore\t%s\t%d' % (wire.enc(h), int(e)))
    return L

_FRESH_CHANNEL = None
def _preserve(obj):
    fd = io.StringIO()
    obj.preserve(fd)
    return fd.getvalue()

def _reg_dump(b, root):
    """every value of a registry tree as (full name, repr of the stored value); walks `_children` directly
    (registry.getValues goes through __getattr__ and is ten times slower)"""
    Value = b.registry.Value
    out = []
    stack = [root]
    while stack:
        g = stack.pop()
        for ch in g._children.values():
            if isinstance(ch, Value) and ch._wasSet:        # like getValues: lazily supplied per-channel defaults are not values
                v = ch.value
                out.append((ch._name, repr(sorted(v, key=repr)) if isinstance(v, (set, frozenset)) else repr(v)))
            if ch._children:
                stack.append(ch)
    out.sort()
    return out

def snapshot(b, light=False):
    """the privileged state a denied command must not touch (canonical, comparable)"""
    global _FRESH_CHANNEL
    ircdb = b.ircdb; conf = b.conf
    if _FRESH_CHANNEL is None:
        _FRESH_CHANNEL = _preserve(ircdb.IrcChannel())
    s = {}
    # logins that timed out are dropped lazily by IrcUser.checkHostmask: canonicalised away
    tmo = conf.supybot.databases.users.timeoutIdentification(); nowu = time.time()
    s['users'] = sorted((id, _preserve(u), tuple((w, h) for w, h in u.auth if not (tmo and w + tmo < nowu)))
                        for id, u in ircdb.users.users.items())
    s['channels'] = sorted((n, p) for n, p in ((n, _preserve(c)) for n, c in ircdb.channels.channels.items()) if p != _FRESH_CHANNEL)
    # lazily expired entries are canonicalised away (IgnoresDB.checkIgnored deletes them when it meets them)
    nowt = time.time()
    s['ignores'] = sorted((h, e) for h, e in ircdb.ignores.hostmasks.items() if not (e and nowt > e))
    s['networks'] = sorted(n for n, _ in ircdb.networks.items())
    s['registry'] = _reg_dump(b, conf.supybot)
    s['uregistry'] = _reg_dump(b, conf.users)
    s['callbacks'] = [(cb.name(), id(cb)) for cb in b.irc.callbacks]
    s['ircs'] = [(i.network, i.zombie) for i in b.world.ircs]
    s['events'] = sorted(str(k) for k in b.schedule.schedule.events)
    s['joined'] = sorted(b.irc.state.channels)
    s['disabled'] = sorted((repr(k), None if v is None else repr(sorted(map(repr, v)))) for k, v in b.callbacks.Commands._disabled.d.items())
    for cb in b.irc.callbacks:
        n = cb.name()
        if n == 'Alias':
            s['alias'] = sorted((k, v[0], v[1]) for k, v in cb.aliases.items())
        elif n == 'Aka':
            try:
                s['aka'] = sorted(cb._db.get_aka_list('global'))
            except Exception as e:
                s['aka'] = repr(e)
        elif n == 'Scheduler':
            s['sched'] = sorted(cb.events)
    files = []
    for root, dirs, fs in os.walk(b.dir):
        dirs[:] = [d for d in dirs if d not in ('logs', 'tmp')]
        for f in fs:
            if f.startswith('Aka.') and f.endswith('.db'):
                continue        # Aka opens a per-channel database file the first time a command is looked up in a channel
            p = os.path.join(root, f)
            files.append(os.path.relpath(p, b.dir))
    s['files'] = sorted(files)
    s['mark'] = ''
    return s

def snap_diff(a, c):
    return sorted(k for k in a if a[k] != c.get(k))

NOCAP = re.compile(r"You don't have the (\S+) capability")
def classify(msgs):
    """('silent',) | ('nocap', cap) | ('error', text) | ('reply', text) | ('multi', n)"""
    if not msgs:
        return ('silent',)
    texts = [m.args[1] if len(m.args) > 1 else '' for m in msgs]
    kinds = []
    for m, t in zip(msgs, texts):
        if m.command not in ('PRIVMSG', 'NOTICE'):
            kinds.append(('raw', str(m).strip()))
            continue
        mm = NOCAP.search(t)
        if mm:
            kinds.append(('nocap', mm.group(1)))
        elif 'Error: ' in t or 'An error has occurred and has been logged' in t:
            kinds.append(('error', t))
        elif re.search(r'\(\x02[^\x02]*\x02\) -- ', t):
            kinds.append(('help', t))
        else:
            kinds.append(('reply', t))
    if len(kinds) == 1:
        return kinds[0]
    return ('multi', kinds)

class Clock(object):
    offset = 0.0
_real_time = time.time
def install_clock():
    if time.time is _real_time:
        time.time = lambda: _real_time() + Clock.offset

def wait_threads():
    for t in threading.enumerate():
        if t is threading.current_thread():
            continue
        if type(t).__name__ in ('CommandThread', 'SupyThread') or t.name.startswith('Thread #'):
            t.join(5)

def deliver(b, prefix, target, text):
    Obs.gate = []; Obs.bodies = []; Obs.entered = []
    # (not ircmsgs.privmsg: with strictRfc on it refuses a STATUSMSG target such as @#chan)
    b.irc.feedMsg(b.ircmsgs.IrcMsg(prefix=prefix, command='PRIVMSG', args=(target, text)))
    out = bot.drain(b)
    wait_threads()
    out += bot.drain(b)
    return out

# ------------------------------------------------------------------------------------------
# invocation texts
# ------------------------------------------------------------------------------------------
FORMS = ['char', 'nick', 'private', 'atend']
WRAPPERS = ['direct', 'qualified', 'nested', 'outer', 'piped', 'aka', 'akanest', 'alias', 'apply', 'let', 'cif']
SITE_OF = {'direct': 'owner', 'qualified': 'owner', 'nested': 'nested', 'outer': 'nested', 'piped': 'nested', 'aka': 'aka',
           'akanest': 'aka', 'alias': 'alias', 'apply': 'apply', 'let': 'let', 'cif': 'cif', 'scheduled': 'scheduled'}
WRAPPER_CMDS = {('Utilities', ('echo',)), ('Utilities', ('apply',)), ('Utilities', ('let',)),
                ('Conditional', ('cif',)), ('Conditional', ('ceq',)), ('Aka', ('vtrun',)), ('Aka', ('vtn',)), ('Alias', ('vtrun2',)),
                ('Scheduler', ('add',)), ('Scheduler', ('scheduler', 'add'))}

def quote(a):
    return '"%s"' % a.replace('\\', '\\\\').replace('"', '\\"') if (not a or any(c in a for c in ' "[]|')) else a

def command_text(plugin, path, args, wrapper, qualified):
    """(text after addressing, command list the dispatcher hands to _callCommand, args it hands over)"""
    canon = plugin.lower()
    words = list(path)
    cmd = list(path)
    if qualified:
        if not (len(path) > 1 and path[0] == canon):
            words = [canon] + words
            cmd = [canon] + cmd
    core = ' '.join(words + [quote(a) for a in args])
    a = list(args)
    if wrapper in ('direct', 'qualified'):
        text = core
    elif wrapper == 'nested':
        text = 'echo [%s]' % core
    elif wrapper == 'outer':
        text = '%s [echo zq]' % core            # the gated command is the outer one; its argument comes from a nested call
        a = a + ['zq']
    elif wrapper == 'piped':
        text = 'echo zz | %s' % core
        a = a + ['zz']
    elif wrapper == 'aka':
        text = 'vtrun %s' % core
    elif wrapper == 'akanest':
        text = 'vtn %s' % core                  # Aka body "echo [$1 $*]": the arguments land inside a nested command
    elif wrapper == 'alias':
        text = 'vtrun2 %s' % core
    elif wrapper == 'apply':
        if not a:
            a = ['foo']          # `apply` needs some text
        text = 'apply %s %s' % (quote(' '.join(words)), ' '.join(quote(x) for x in a))
    elif wrapper == 'let':
        text = 'let zq = 1 in %s' % quote(core)
    elif wrapper == 'cif':
        text = 'cif [ceq 1 1] %s "echo no"' % quote(core)
    elif wrapper == 'scheduled':
        text = 'scheduler add 5 %s' % quote(core)
    else:
        raise ValueError(wrapper)
    return text, cmd, a

def address(form, text):
    """(target, full text, msg.channel)"""
    if form == 'char':
        return CHAN, '@' + text, CHAN
    if form == 'nick':
        return CHAN, '%s: %s' % (NICK, text), CHAN
    if form == 'private':
        return NICK, text, None
    if form == 'atend':
        return CHAN, '%s, %s' % (text, NICK), CHAN
    if form == 'other':
        return OTHERCHAN, '@' + text, OTHERCHAN
    if form == 'status@':
        return '@' + CHAN, '@' + text, CHAN       # STATUSMSG target (ops of #c): still a message to the channel #c
    if form == 'status+':
        return '+' + CHAN, '@' + text, CHAN
    raise ValueError(form)

# ------------------------------------------------------------------------------------------
# the oracle's own notion of "lacks the capability" (by construction of the roles, not the model)
# ------------------------------------------------------------------------------------------
def role_holds(role, kind, cap, channel):
    if role == 'owner':
        return kind != 'capNoOwner'
    if role == 'admin':
        return kind == 'cap' and cap == 'admin'
    if role == 'chanop':
        return kind == 'chancap' and channel == CHAN
    return False

# ------------------------------------------------------------------------------------------
# exploration
# ------------------------------------------------------------------------------------------
class Scenario(object):
    __slots__ = ('plugin', 'path', 'spec', 'allow_extra', 'role', 'form', 'wrapper', 'args', 'setup', 'tags', 'expect_deny',
                 'expect_silent', 'real', 'why', 'kind', 'wrapped', 'fire')
    def __init__(self, **kw):
        self.setup = None; self.tags = []; self.expect_deny = False; self.expect_silent = False
        self.real = False; self.why = ''; self.kind = 'enum'; self.fire = None
        for k, v in kw.items():
            setattr(self, k, v)

def enc_spec(spec):
    return ','.join('%s:%s' % (k, wire.enc(a)) for k, a in spec) or '-'

def read_table(build_ok):
    """rows of Gen.commands and the required-guard list, read back through the Lean driver"""
    n, nr = wire.run_driver(PROPERTY, ['nrows', 'nrequired'])
    outs = wire.run_driver(PROPERTY, ['row\t%d' % i for i in range(int(n))] + ['required\t%d' % i for i in range(int(nr))])
    rows = {}
    for o in outs[:int(n)]:
        f = o.split('\t')
        plugin = wire.dec(f[0]); path = tuple(wire.dec_list(f[1]))
        spec = [] if f[3] == '-' else [(x.split(':')[0], wire.dec(x.split(':')[1])) for x in f[3].split(',')]
        rows[(plugin, path)] = (f[2] == '1', spec)
    req = []
    for o in outs[int(n):]:
        f = o.split('\t')
        req.append((wire.dec(f[0]), tuple(wire.dec_list(f[1])), f[2], wire.dec(f[3])))
    return rows, req

def required_fallback():
    """when the driver does not build: parse Required.lean textually"""
    src = open(os.path.join(VERIF, 'lean', 'LimnoriaModel', 'C01', 'Required.lean'), encoding='utf-8').read()
    req = []
    for m in re.finditer(r'--\s+(\S+) (.*?): (cap|capNoOwner|chancap) (\S+)\s*$', src, flags=re.M):
        req.append((m.group(1), tuple(m.group(2).split()), m.group(3), m.group(4)))
    return req

ARGV = [[], ['foo'], [CHAN, 'foo'], [OTHERCHAN, 'foo', 'bar'], ['supybot.nick', 'zz'], ['Foo']]

def explore(ctx, b, w, table, required, n_extra):
    """returns (cases, driver lines, pending)"""
    r = rng.make('c01')
    irc = b.irc; ircdb = b.ircdb; conf = b.conf
    loaded = {}
    count = {}
    for cb in irc.callbacks:
        if not hasattr(cb, 'listCommands') or cb.name() == 'VtConv':
            continue
        for path, m in walk_commands(cb):
            loaded[(cb.name(), path)] = m
            count[path] = count.get(path, 0) + 1
    # run-time specs first (they read the closures), then make every command body log itself
    rt_specs = {}
    for (plugin, path), m in loaded.items():
        rt_specs[(plugin, path)] = spec_of(m.__func__ if hasattr(m, '__func__') else m)
    for cb in irc.callbacks:
        if hasattr(cb, 'listCommands'):
            for path, m in walk_commands(cb):
                instrument_body(cb, cb.name(), path, m)
    cases = []; lines = []; pend = []
    PARTIAL[:] = [cases, lines, pend]
    last_dump = [None]

    def send_db():
        d = dump_db(b)
        key = '\n'.join(d[2:])
        if key != last_dump[0]:
            last_dump[0] = key
            for l in d:
                lines.append(l); pend.append(None)

    # ---------- inventory cases: run-time spec vs extracted table ----------
    for (plugin, path), m in sorted(loaded.items()):
        rspec, ae, wrapped = rt_specs[(plugin, path)]
        key = (plugin, path)
        if key not in table and len(path) == 1 and (plugin, path + path) in table:
            key = (plugin, path + path)
        if plugin == 'VtGate' or key not in table:
            continue
        tw, tspec = table[key]
        norm = lambda sp: [(k, a if k in ('cap', 'capNoOwner', 'chancap') else '') if k != 'ctx' else ('ctx', a) for k, a in sp]
        impl = '%d|%s' % (1 if wrapped else 0, ';'.join('%s=%s' % x for x in norm([(k, a) if k != 'other' else ('other', '') for k, a in rspec])))
        model = '%d|%s' % (1 if tw else 0, ';'.join('%s=%s' % x for x in norm([(k, a) if k != 'other' else ('other', '') for k, a in tspec])))
        cases.append(Case({'op': 'inventory', 'plugin': plugin, 'path': list(path)}, impl=impl, model=model, kind='inventory',
                          tags=('inventory',) + (('inventory-gated',) if any(k in ('cap', 'capNoOwner', 'chancap') for k, _ in tspec) else ())))
    missing = [k for k in table if k[0] in b.loaded and k not in loaded and not (len(k[1]) == 2 and k[1][0] == k[1][1] and (k[0], k[1][:1]) in loaded)]
    for k in missing:
        cases.append(Case({'op': 'inventory', 'plugin': k[0], 'path': list(k[1])}, impl='absent-at-run-time', model='in-table', kind='inventory', tags=('inventory',)))

    # ---------- scenarios ----------
    scen = []
    req_by_row = {}
    for plugin, path, kind, cap in required:
        req_by_row.setdefault((plugin, path), []).append((kind, cap))

    def row_spec(plugin, path, m):
        sp, ae, _ = rt_specs[(plugin, path)]
        if (plugin, path) in table and plugin != 'VtGate':
            return table[(plugin, path)][1], ae
        if len(path) == 1 and (plugin, path + path) in table:
            return table[(plugin, path + path)][1], ae
        return sp, ae

    def expected_deny(plugin, path, spec, role, channel_of_check):
        """by construction of the roles: must this call be refused?  (None = no claim)"""
        reasons = []
        if plugin == 'Owner' and role != 'owner':
            reasons.append('Owner command, caller is not owner')
        if plugin == 'Admin' and role not in ('owner', 'admin'):
            reasons.append('Admin command, caller is not admin')
        for kind, cap in req_by_row.get((plugin, path), []) + [(k, a) for k, a in (spec if plugin == 'VtGate' else []) if k in ('cap', 'capNoOwner', 'chancap')]:
            if not role_holds(role, kind, cap, channel_of_check):
                reasons.append('%s %s required, caller lacks it' % (kind, cap))
        return reasons

    rows = sorted(loaded)
    base_roles = ['owner', 'admin', 'chanop', 'plain', 'unreg', 'ignored', 'ignoredb', 'secure']
    combos = [(f, wr) for f in FORMS for wr in WRAPPERS]
    have = set(cb.name() for cb in irc.callbacks)
    def wrapper_ok(wr):
        return not ((wr in ('nested', 'outer', 'piped', 'apply', 'let') and 'Utilities' not in have) or (wr in ('aka', 'akanest') and 'Aka' not in have)
                    or (wr == 'alias' and 'Alias' not in have) or (wr == 'cif' and 'Conditional' not in have))
    combos = [c for c in combos if wrapper_ok(c[1])]
    k = 0
    for (plugin, path) in rows:
        m = loaded[(plugin, path)]
        spec, ae = row_spec(plugin, path, m)
        gated = (plugin in ('Owner', 'Admin', 'VtGate') or (plugin, path) in req_by_row)
        if gated or ctx.thorough:
            row_roles = base_roles + ['byname'] if plugin in ('Owner', 'Admin', 'VtGate') else base_roles
        else:
            # ungated rows (quick tier): the roles that differ in outcome, plus one of the others in rotation
            others = ['admin', 'chanop', 'ignoredb', 'secure']
            row_roles = ['owner', 'plain', 'unreg', 'ignored', others[(k + ctx.seed) % 4]]
        for role in row_roles:
            reps = [('char', 'direct'), ('private', 'qualified')] if gated else []
            if ctx.thorough and gated:
                reps = combos[k % 3::3]       # every (form, wrapper) pair is met by a third of the roles of each row
            else:
                reps = reps + [combos[(k * 7 + i * 13) % len(combos)] for i in range(2 if gated else 1)]
            k += 1
            seen = set()
            for form, wr in reps:
                if (form, wr) in seen:
                    continue
                seen.add((form, wr))
                args = ARGV[(k + len(seen)) % len(ARGV)]
                if any(kk == 'chancap' for kk, _ in spec) and r.random() < 0.7:
                    args = r.choice([[CHAN, 'foo'], [OTHERCHAN, 'foo'], ['foo'], []])
                scen.append(Scenario(plugin=plugin, path=path, spec=spec, allow_extra=ae, role=role, form=form, wrapper=wr, args=list(args)))

    # anti-capability holders and capabilities.default off, on a rotating subset of rows (all rows in thorough)
    anti_rows = rows if ctx.thorough else [x for i, x in enumerate(rows) if (i + ctx.seed) % 3 == 0 or x[0] in ('VtGate', 'Utilities', 'Config', 'Unix')]
    for i, (plugin, path) in enumerate(anti_rows):
        m = loaded[(plugin, path)]
        spec, ae = row_spec(plugin, path, m)
        canon = plugin.lower()
        full = [canon] + list(path) if not (len(path) > 1 and path[0] == canon) else list(path)
        names = [path[-1]] + ['.'.join(full[:j + 1]) for j in range(len(full))]
        which = names[(i + ctx.seed) % len(names)] if not ctx.thorough else None
        for name in ([which] if which else names):
            hs = ['user', 'chan', 'defaults', 'userchan']
            gated_row = plugin in ('Owner', 'Admin', 'VtGate') or (plugin, path) in req_by_row
            for holder in (hs if (plugin == 'VtGate' or (ctx.thorough and gated_row)) else
                           ([hs[(i + len(name)) % 4], hs[(i + len(name) + 2) % 4]] if ctx.thorough else [hs[(i + len(name)) % 4]])):
                if name == 'owner' and holder in ('user', 'defaults'):
                    continue    # UserCapabilitySet refuses -owner; the defaults already hold it
                st = ['status@', 'status+'][(i + len(name)) % 2]
                for form in ((['char', 'private', 'other', 'status@', 'status+'] if plugin == 'VtGate' else ['char', 'private', 'other', st])
                             if holder in ('chan', 'userchan') else ['char', st]):
                    role = 'anti'
                    sc = Scenario(plugin=plugin, path=path, spec=spec, allow_extra=ae, role=role, form=form,
                                  wrapper=['direct', 'qualified', 'nested', 'aka'][(i + len(name)) % 4] if wrapper_ok('aka') and wrapper_ok('nested') else 'direct',
                                  args=[], kind='anti')
                    sc.setup = ('anti', holder, name)
                    scen.append(sc)
        if ctx.thorough or i % 2 == 0:
            for role in ('plain', 'unreg', 'owner'):
                sc = Scenario(plugin=plugin, path=path, spec=spec, allow_extra=ae, role=role, form=['char', 'private'][i % 2], wrapper='direct', args=[], kind='default-off')
                sc.setup = ('default-off', None, None)
                scen.append(sc)
            sc = Scenario(plugin=plugin, path=path, spec=spec, allow_extra=ae, role='anti', form='char', wrapper='direct', args=[], kind='default-off')
            sc.setup = ('default-off-positive', None, '.'.join(full))
            scen.append(sc)

    # replayed later by the scheduler: the stored msg is the scheduling caller's; the capability is
    # re-checked when the event fires (also after the caller lost it in between)
    if 'Scheduler' in have:
        sched_rows = [x for x in rows if x[0] in ('Owner', 'Admin', 'VtGate') or x in req_by_row]
        if not ctx.thorough:
            sched_rows = [x for i, x in enumerate(sched_rows) if (i + ctx.seed) % 4 == 0 or x[0] == 'VtGate']
        for i, (plugin, path) in enumerate(sched_rows):
            m = loaded[(plugin, path)]
            spec, ae = row_spec(plugin, path, m)
            for role in (['plain', 'chanop', 'admin', 'owner', 'secure'] if ctx.thorough else [['plain', 'chanop', 'admin', 'secure'][i % 4], 'owner']):
                sc = Scenario(plugin=plugin, path=path, spec=spec, allow_extra=ae, role=role, form=['char', 'private'][i % 2],
                              wrapper='scheduled', args=[[], ['foo'], [CHAN, 'foo']][i % 3], kind='sched')
                sc.setup = ('sched', role, False)
                scen.append(sc)
            sc = Scenario(plugin=plugin, path=path, spec=spec, allow_extra=ae, role='owner', form='char', wrapper='scheduled', args=[], kind='sched')
            sc.setup = ('sched', 'owner', True)      # the owner loses `owner` before the event fires
            scen.append(sc)

    # ---------- run ----------
    b.drivers._drivers.setdefault('vt-dummy', object())     # schedule.run() sleeps when it is the only driver
    b.drivers._drivers.setdefault('vt-dummy2', object())
    class _Fake(object):
        pass
    fake = _Fake(); fake.irc = irc
    route_cache = {}
    def route(words):
        k2 = tuple(words)
        if k2 not in route_cache:
            rc, rcbs = b.callbacks.NestedCommandsIrcProxy.findCallbacksForArgs(fake, list(words))
            route_cache[k2] = (list(rc), list(rcbs))
        return route_cache[k2]
    unroutable = []
    base_snap = [snapshot(b)]
    def run_scenario(sc, variant=None):
        plugin, path = sc.plugin, sc.path
        routed = None
        for qualified in ([True] if sc.wrapper == 'qualified' else [False, True]):
            text, cmd, args = command_text(plugin, path, sc.args, sc.wrapper, qualified)
            try:
                rc, rcbs = route(cmd + args)
            except Exception:
                continue
            if len(rcbs) == 1 and rcbs[0].name() == plugin and list(rc) == cmd:
                routed = True
                break
        if not routed:
            unroutable.append((plugin, path, sc.wrapper))
            return
        target, full, mchan = address(sc.form, text)
        prefix = ROLES[sc.role]
        # which channel would a channel-capability converter look at?
        chk_chan = args[0] if (args and args[0][:1] == '#') else mchan
        reasons = []
        if sc.kind == 'enum':
            reasons = expected_deny(plugin, path, sc.spec, sc.role, chk_chan)
        elif sc.kind == 'anti':
            holder = sc.setup[1]
            applies = (holder in ('user', 'defaults')) or (holder in ('chan', 'userchan') and mchan == CHAN)
            if applies:
                reasons = ['anti-capability -%s held by %s' % (sc.setup[2], holder)]
        elif sc.kind == 'default-off':
            if sc.setup[0] == 'default-off' and sc.role in ('plain', 'unreg'):
                reasons = ['capabilities.default is off and the caller holds nothing']
            elif sc.setup[0] == 'default-off':
                reasons = expected_deny(plugin, path, sc.spec, sc.role, chk_chan)
        elif sc.kind == 'sched':
            reasons = expected_deny(plugin, path, sc.spec, sc.role if not sc.setup[2] else 'plain', chk_chan)
            if sc.setup[2]:
                reasons = ['the scheduling caller lost the owner capability before the event fired'] + reasons
                if not expected_deny(plugin, path, sc.spec, 'plain', chk_chan):
                    reasons = []
        # `byname`: a prefix that is not nick!user@host (here: the NAME of the owner's account) is nobody and is not served
        silent = sc.role in ('ignored', 'ignoredb', 'byname')
        sc.expect_deny = bool(reasons) and not silent
        sc.expect_silent = silent
        sc.why = '; '.join(reasons)
        # really execute the command method?  only when the oracle expects a refusal, or for the harmless synthetic plugin
        real = sc.expect_deny or sc.expect_silent or plugin == 'VtGate'
        undo = apply_setup(b, sc.setup)
        try:
            mark = len(lines)
            send_db()
            lines.append('ignored\t' + wire.enc(prefix)); pend.append(None)
            q = 'invoke\t%s\t%s\t%s\t%s\t%s\t%d\t%s' % (wire.enc(prefix), wire.enc_opt(mchan), wire.enc(plugin), wire.enc_list(cmd),
                                                        enc_spec(sc.spec), 1 if sc.allow_extra else 0, wire.enc_list(args))
            # the message the gate will be given at this wrapper's re-dispatch site, according to the model
            # (for a scheduled replay nobody is talking when the event fires: the current message is empty)
            if sc.wrapper == 'scheduled':
                site_q = 'site\tscheduled\t%s\t%s\t%s\t%s\t%s\t0' % (wire.enc(''), wire.enc(''), wire.enc(prefix), wire.enc(target), wire.enc(STATUSMSG))
            else:
                site_q = 'site\t%s\t%s\t%s\t%s\t%s\t%s\t0' % (SITE_OF[sc.wrapper], wire.enc(prefix), wire.enc(target), wire.enc(''), wire.enc(''), wire.enc(STATUSMSG))
            target_key = (plugin, tuple(cmd))
            Obs.execute = (lambda p, c, real=real, tk=target_key: True if (p, c) in WRAPPER_CMDS else (real if (p, c) == tk else False))
            before = base_snap[0] if sc.setup is None else snapshot(b)
            out = deliver(b, prefix, target, full)
            if sc.wrapper == 'scheduled':
                sched_out = classify(out)
                if sched_out[0] == 'reply' and 'added' in sched_out[1]:
                    if sc.setup[2]:
                        u = user_by_name(b, 'vown'); u.removeCapability('owner'); ircdb.users.setUser(u)
                        def restore(undo0=undo):
                            u2 = user_by_name(b, 'vown'); u2.addCapability('owner'); ircdb.users.setUser(u2)
                            undo0()
                        undo = restore
                        # the model is asked about the database as it is when the event fires
                        del lines[mark:]; del pend[mark:]
                        last_dump[0] = None
                        send_db()
                        lines.append('ignored\t' + wire.enc(prefix)); pend.append(None)
                        before = snapshot(b)
                    Clock.offset += 60
                    Obs.gate = []; Obs.bodies = []; Obs.entered = []
                    b.schedule.run()
                    wait_threads()
                    out = bot.drain(b)
                else:
                    # scheduling itself was refused (the caller lacks scheduler.add): nothing was stored
                    sc.kind = 'sched-refused'
            after = snapshot(b)
            gate_hit = [g for g in Obs.gate if g == target_key]
            seen_by_gate = [(e[2], e[3]) for e in Obs.entered if (e[0], e[1]) == target_key]
            other_targets = [g for g in Obs.gate if g != target_key and g not in WRAPPER_CMDS]
            body_ran = (plugin, path) in Obs.bodies or (len(path) == 2 and path[0] == path[1] and (plugin, path[:1]) in Obs.bodies) \
                       or (len(path) == 1 and (plugin, path + path) in Obs.bodies)
            cls = classify(out)
            changed = snap_diff(before, after)
            if sc.wrapper == 'scheduled':
                # schedule.run() also fires unrelated periodic events (flushers) once the clock has moved
                changed = [k for k in changed if k not in ('events', 'sched', 'files')]
        finally:
            undo()
        if changed:
            base_snap[0] = snapshot(b)
            # undo of an `anti` set-up restores the state; anything else stays changed and becomes the new baseline
        # ----- canonical implementation outcome -----
        if cls[0] == 'silent' and not gate_hit:
            impl = 'silent'
        elif gate_hit:
            if not real:
                impl = 'gate:allow'
            elif body_ran:
                impl = 'gate:allow|body'
            elif cls[0] == 'nocap':
                impl = 'gate:allow|nocap:' + cls[1]
            else:
                impl = 'gate:allow|stopped'
        else:
            if cls[0] == 'nocap':
                impl = 'gate:denied:' + cls[1]
            elif cls[0] == 'error' and 'An error has occurred' in cls[1]:
                impl = 'gate:crash'
            else:
                impl = 'gate:none|' + cls[0]
        # ----- property oracle on the implementation -----
        ok = True; msg = ''
        if sc.expect_silent:
            if out or gate_hit or body_ran or changed:
                ok = False
                msg = 'ignored caller %s: expected no effect and no reply, got replies=%r gate_passed=%r body_ran=%r state changed=%r' % (prefix, [str(m).strip() for m in out], bool(gate_hit), body_ran, changed)
        elif sc.expect_deny:
            problems = []
            if body_ran:
                problems.append('the command body ran')
            if changed:
                problems.append('state changed: %s' % changed)
            if cls[0] not in (('nocap', 'error', 'help', 'silent') if variant else ('nocap', 'error', 'help')):
                problems.append('output is not a single error (or usage) reply: %r' % (cls,))
            if problems:
                ok = False
                msg = '%s (%s) calls %s %s as %r: must be refused because %s; but %s' % (sc.role, prefix, plugin, ' '.join(path), full, sc.why, '; '.join(problems))
        if variant:
            # the refusal text is configured away: compare only refused / passed
            impl = 'passed' if (gate_hit and (body_ran or not real)) else 'refused'
        tags = ['role:' + sc.role, 'form:' + sc.form, 'wrap:' + sc.wrapper, 'kind:' + sc.kind, 'impl:' + impl.split('|')[0].split(':')[0] + (':' + impl.split(':')[1].split('|')[0] if impl.startswith('gate:') else '')]
        if sc.expect_deny: tags.append('oracle:deny')
        if sc.expect_silent: tags.append('oracle:silent')
        if real: tags.append('real')
        if variant: tags.append('variant:' + variant)
        c = Case({'op': 'call', 'plugin': plugin, 'path': list(path), 'role': sc.role, 'prefix': prefix, 'target': target, 'text': full,
                  'setup': list(sc.setup) if sc.setup else None, 'real': real, 'why': sc.why, 'variant': variant},
                 impl=impl, oracle_ok=ok, oracle_msg=(('[configuration %s] ' % variant) if variant and msg else '') + msg, tags=tags, kind=sc.kind)
        if seen_by_gate:
            c.impl = impl + ' @%s %s' % seen_by_gate[0]
        cases.append(c)
        DEBUG[id(c)] = [str(m).strip() for m in out]
        if sc.kind == 'sched-refused':
            c.impl = None       # the inner command was never stored: nothing to compare with the model
            return
        lines.append(site_q); pend.append(None)
        lines.append(q)
        def fill0(o, ign, c=c, real=real, spec=sc.spec):
            if ign.startswith('1'):
                return 'silent'
            if ign.startswith('crash'):
                return 'silent'
            f = o.split('\t')
            i = f.index('|')
            g = f[:i]; oc = f[i + 1:]
            if g[0] == 'denied':
                return 'gate:denied:' + wire.dec(g[1])
            if g[0] == 'deniedDefault':
                return 'gate:denied:True'
            if g[0] == 'crash':
                return 'gate:crash'
            if not real:
                return 'gate:allow'
            if oc[0] == 'body':
                return 'gate:allow|body'
            if oc[0] == 'noCapability':
                return 'gate:allow|nocap:' + wire.dec(oc[1])
            return 'gate:allow|stopped'
        def fill(o, ign, c=c, real=real, spec=sc.spec, seen=bool(seen_by_gate), fill0=None, variant=variant):
            r0 = fill0(o, ign)
            if variant:
                r0 = 'passed' if (r0 in ('gate:allow', 'gate:allow|body')) else ('refused' if r0 != 'gate:allow|stopped' else 'refused')
            if seen and SITE_OUT[0] not in (None, 'none', 'bad-op'):
                f = SITE_OUT[0].split('\t')
                r0 += ' @%s %s' % (wire.dec(f[0]), wire.dec_opt(f[1]))
            return r0
        fill.__defaults__ = fill.__defaults__[:-2] + (fill0, variant)
        pend.append((c, fill))
    for sc in scen:
        run_scenario(sc)

    # ---- every refusal again with the refusal message configured away (supybot.replies.noCapability = ''):
    # a refusal is a raise, whatever the text
    def silent_denials(on, per_channel=False):
        g = conf.supybot.replies.noCapability
        if per_channel:
            g.get(CHAN).setValue('' if on else DEFAULT_NOCAP[0])
            try:
                g.get(':test').get(CHAN).setValue('' if on else DEFAULT_NOCAP[0])
            except Exception:
                pass
        else:
            g.setValue('' if on else DEFAULT_NOCAP[0])
    DEFAULT_NOCAP[:] = [conf.supybot.replies.noCapability()]
    denied = [sc for sc in scen if sc.expect_deny and sc.kind in ('enum', 'anti', 'default-off')]
    stride = 3 if ctx.thorough else 4        # (the thorough tier has ~15 k refusals: a third of them, all of VtGate / Config)
    denied = [sc for n_, sc in enumerate(denied) if (n_ + ctx.seed) % stride == 0 or sc.plugin in ('VtGate', 'Config')]
    silent_denials(True)
    base_snap[0] = snapshot(b)
    try:
        for sc in denied:
            run_scenario(sc, 'silent-denial')
    finally:
        silent_denials(False)
    base_snap[0] = snapshot(b)

    # ================= channel-operator commands given a capability ARGUMENT that names another channel =================
    # the #c op (no capability for #d) runs `channel capability add/remove/set/unset` with `#d,...` arguments: whatever
    # happens to #c's own records, nothing of #d may change and nobody may gain (or lose) a #d capability
    if 'Channel' in have:
        def chan_view(ch):
            v = {}
            co = ircdb.channels.channels.get(ch.lower())
            v['record'] = _preserve(co) if co is not None else None
            caps = []
            for uid, u in ircdb.users.users.items():
                for cp in set.__iter__(u.capabilities):
                    if ircdb.isChannelCapability(cp) and ircdb.fromChannelCapability(cp)[0].lower() == ch.lower():
                        caps.append((uid, cp))
            v['user-caps'] = sorted(caps)
            v['decisions'] = sorted((role, capn, bool(ircdb.checkCapability(ROLES[role], '%s,%s' % (ch, capn))))
                                    for role in ('plain', 'chanop', 'admin', 'unreg', 'anti') for capn in ('op', 'halfop', 'voice', 'vtcap', '-vtfree'))
            return v
        XARGS = [('capability add', 'vreg %s,op' % OTHERCHAN), ('capability add', 'vreg %s,op %s,voice' % (OTHERCHAN, OTHERCHAN)),
                 ('capability add', '%s vreg %s,op' % (CHAN, OTHERCHAN)), ('capability remove', 'vop %s,op' % OTHERCHAN),
                 ('capability set', '%s,op' % OTHERCHAN), ('capability set', '%s,-vtfree' % OTHERCHAN), ('capability unset', '%s,-op' % OTHERCHAN),
                 ('capability unset', '%s,-vtcap' % OTHERCHAN), ('capability add', 'vreg %s,-voice' % OTHERCHAN.upper())]
        for cmdtxt, argtxt in XARGS:
            for who, tgt in (('chanop', CHAN), ('chanop', NICK)):
                if tgt == NICK and not argtxt.startswith(CHAN):
                    argtxt2 = CHAN + ' ' + argtxt
                else:
                    argtxt2 = argtxt
                full = ('@' if tgt == CHAN else '') + 'channel %s %s' % (cmdtxt, argtxt2)
                users_before = {uid: sorted(set.__iter__(u.capabilities)) for uid, u in ircdb.users.users.items()}
                chan_before = {n_: _preserve(c_) for n_, c_ in ircdb.channels.channels.items()}
                view_before = chan_view(OTHERCHAN)
                Obs.execute = None
                out = deliver(b, ROLES[who], tgt, full)
                view_after = chan_view(OTHERCHAN)
                # can the beneficiary now act as an op of the other channel?
                Obs.execute = None
                probe = deliver(b, ROLES['plain'], NICK, 'vtop %s' % OTHERCHAN) if 'VtGate' in have else []
                acted = ('VtGate', ('vtop',)) in Obs.bodies
                diff = sorted(k2 for k2 in view_before if view_before[k2] != view_after[k2])
                ok = not diff and not acted
                cases.append(Case({'op': 'xchannel', 'prefix': ROLES[who], 'target': tgt, 'text': full}, oracle_ok=ok, kind='xchannel',
                                  tags=['xchannel', 'x:' + cmdtxt.split()[-1]],
                                  oracle_msg='' if ok else '%s (capabilities {%s,op}) runs %r: the view of %s changed in %r (before %r, after %r); vreg then ran a %s-op command: %r'
                                  % (ROLES[who], CHAN, full, OTHERCHAN, diff, {k2: view_before[k2] for k2 in diff}, {k2: view_after[k2] for k2 in diff}, OTHERCHAN, acted)))
                # put the databases back
                for uid, u in ircdb.users.users.items():
                    now_caps = sorted(set.__iter__(u.capabilities))
                    if now_caps != users_before.get(uid):
                        for cp in now_caps:
                            if cp not in users_before.get(uid, []):
                                set.discard(u.capabilities, cp)
                        for cp in users_before.get(uid, []):
                            if cp not in now_caps:
                                set.add(u.capabilities, cp)
                        ircdb.users.setUser(u)
                for n_, c_ in list(ircdb.channels.channels.items()):
                    if n_ in chan_before and _preserve(c_) != chan_before[n_]:
                        # re-read the record from its own dump is not possible: undo capability edits by difference
                        pass
                cobj2 = ircdb.channels.getChannel(CHAN)
                for cp in list(set.__iter__(cobj2.capabilities)):
                    if OTHERCHAN in cp or OTHERCHAN.upper() in cp:
                        set.discard(cobj2.capabilities, cp)
                ircdb.channels.setChannel(CHAN, cobj2)
        base_snap[0] = snapshot(b)

    # ================= Channel.voice / devoice: #chan,voice reaches only the caller himself =================
    if 'Channel' in have:
        uv = ircdb.users.newUser(); uv.name = 'vvoice'; uv.addCapability(CHAN + ',voice'); uv.addHostmask('joe!j@voice.host'); ircdb.users.setUser(uv)
        botpfx = irc.prefix if getattr(irc, 'prefix', None) and '!' in irc.prefix else '%s!bot@bot.host' % NICK
        irc.feedMsg(b.ircmsgs.join(CHAN, prefix=botpfx))
        irc.feedMsg(b.ircmsgs.IrcMsg(':server 353 %s = %s :@%s joe alice bob cop reg' % (NICK, CHAN, NICK)))
        irc.feedMsg(b.ircmsgs.IrcMsg(':server 366 %s %s :End of /NAMES list.' % (NICK, CHAN)))
        bot.drain(b)
        VCALLERS = [('voice-only', 'joe!j@voice.host', 'joe'), ('chanop', ROLES['chanop'], 'cop'), ('plain', ROLES['plain'], 'reg')]
        VLISTS = [[], ['joe'], ['alice'], ['joe', 'alice'], ['alice', 'bob', 'joe'], ['alice', 'joe'], ['Joe'], ['bob', 'Joe'], ['joe', 'joe'],
                  ['cop'], ['cop', 'alice'], ['reg'], ['reg', 'bob']]
        v_specs = {c_: row_spec('Channel', (c_,), loaded[('Channel', (c_,))]) for c_ in ('voice', 'devoice') if ('Channel', (c_,)) in loaded}
        try:
            for cmdname in sorted(v_specs):
                for label, pr, nick in VCALLERS:
                    for nl in (VLISTS if (ctx.thorough or label == 'voice-only') else VLISTS[:6]):
                        for tgt in ((CHAN, NICK) if (ctx.thorough or label == 'voice-only') else (CHAN,)):
                            words = ([] if tgt == CHAN else [CHAN]) + nl
                            full = ('@' if tgt == CHAN else '') + 'channel %s %s' % (cmdname, ' '.join(words))
                            mchan = CHAN if tgt == CHAN else None
                            spec, ae = v_specs[cmdname]
                            last_dump[0] = None
                            send_db()
                            lines.append('ignored\t' + wire.enc(pr)); pend.append(None)
                            Obs.execute = None
                            before = snapshot(b)
                            out = deliver(b, pr, tgt, full)
                            changed = snap_diff(before, snapshot(b))
                            modes = [m for m in out if m.command == 'MODE']
                            touched = sorted(set(n2 for m in modes for n2 in m.args[2:]))
                            cls = classify([m for m in out if m.command != 'MODE'])
                            if modes:
                                impl = 'modes:' + ','.join(touched)
                            elif cls[0] == 'nocap':
                                impl = 'nocap:' + cls[1]
                            else:
                                impl = 'stopped:' + cls[0]
                            # by construction: only a #c op may touch anybody but himself; voice-only may touch himself; plain nobody
                            others = [n2 for n2 in touched if b.ircutils.toLower(n2) != b.ircutils.toLower(nick)]
                            ok = True; msg = ''
                            if label != 'chanop' and (others or (label == 'plain' and touched) or changed):
                                ok = False
                                msg = '%s (%s) runs %r: the bot sent %r (nicks other than the caller: %r), state changed=%r' % (
                                    label, pr, full, [str(m).strip() for m in modes], others, changed)
                            c = Case({'op': 'voice', 'caller': label, 'prefix': pr, 'target': tgt, 'text': full}, impl=impl, oracle_ok=ok, oracle_msg=msg,
                                     kind='voice', tags=['voice', 'voice:' + label, 'voice:' + impl.split(':')[0]] + (['oracle:deny'] if label != 'chanop' and any(b.ircutils.toLower(n2) != nick for n2 in nl) else []))
                            cases.append(c)
                            lines.append('invoke\t%s\t%s\t%s\t%s\t%s\t%d\t%s' % (wire.enc(pr), wire.enc_opt(mchan), wire.enc('Channel'), wire.enc_list(['channel', cmdname]),
                                                                                   enc_spec(spec), 1 if ae else 0, wire.enc_list(words)))
                            holder = {}
                            def fill_inv(o, ign, holder=holder):
                                holder['inv'] = o; holder['ign'] = ign
                                return None
                            pend.append((Case({'op': 'voice-aux'}, kind='voice-aux'), fill_inv))
                            lines.append('voice\t%s\t%s\t%s\t%s' % (wire.enc(pr), wire.enc(nick), wire.enc(CHAN), wire.enc_list(nl)))
                            def fill_v(o, ign, holder=holder):
                                if holder['ign'].startswith('1') or holder['ign'].startswith('crash'):
                                    return 'stopped:silent'
                                f = holder['inv'].split('\t'); i2 = f.index('|'); g = f[:i2]; oc = f[i2 + 1:]
                                if g[0] == 'denied': return 'nocap:' + wire.dec(g[1])
                                if g[0] != 'allow': return 'stopped:gate-' + g[0]
                                if oc[0] == 'noCapability': return 'nocap:' + wire.dec(oc[1])
                                if oc[0] == 'crash': return 'stopped:crash'
                                # (the unmodelled converters haveOp / nickInChannel consume the nicks: they all are in the channel and the bot is op)
                                v = o.split('\t')
                                if v[0] == 'modes': return 'modes:' + ','.join(sorted(set(wire.dec_list(v[1]))))
                                if v[0] == 'noCapability': return 'nocap:' + wire.dec(v[1])
                                return 'stopped:' + v[0]
                            pend.append((c, fill_v))
        finally:
            irc.feedMsg(b.ircmsgs.part(CHAN, prefix=botpfx)); bot.drain(b)
        base_snap[0] = snapshot(b)

    # ================= refusals raised from inside a command body (errorNoCapability(..., Raise=True) call sites) =================
    # metamorphic oracle: a call that is refused with a no-capability error under the shipped message must, with the
    # message configured away, still be refused (nothing changes, nothing is said): the refusal is a raise, not a text
    try:
        nn = int(wire.run_driver(PROPERTY, ['nnocap'])[0])
        sites = [wire.dec(o.split('\t')[0]) for o in wire.run_driver(PROPERTY, ['nocapsite\t%d' % i2 for i2 in range(nn)])]
    except Exception:
        sites = []
    guard_cmds = []
    for site in sites:
        mm = re.match(r'plugins/(\w+)/plugin\.py:(.*)$', site)
        if not mm or mm.group(1) not in have:
            continue
        plug = mm.group(1); fn = mm.group(2).split('.')[-1]
        own = [k2 for k2 in sorted(loaded) if k2[0] == plug]
        hit = [k2 for k2 in own if k2[1][-1] == fn]
        for k2 in (hit or own):
            if k2 not in guard_cmds and k2[0] not in ('Config', 'Owner', 'VtGate'):
                guard_cmds.append(k2)
    if not ctx.thorough:
        guard_cmds = [k2 for n_, k2 in enumerate(guard_cmds) if k2[1][-1] in ('part', 'kban', 'iban', 'voice', 'add', 'remove', 'lock') or (n_ + ctx.seed) % 3 == 0]
    refused_normally = []
    GV = [[], [CHAN], [CHAN, 'foo'], ['foo', 'bar']]
    def guard_call(plugin, path, pargs, who, tgt, variant):
        text, cmd, args = command_text(plugin, path, pargs, 'direct', False)
        try:
            rc, rcbs = route(cmd + args)
            if not (len(rcbs) == 1 and rcbs[0].name() == plugin and list(rc) == cmd):
                text, cmd, args = command_text(plugin, path, pargs, 'direct', True)
        except Exception:
            return None
        full = ('@' + text) if tgt == CHAN else text
        Obs.execute = None
        before = snapshot(b)
        out = deliver(b, ROLES[who], tgt, full)
        changed = [k2 for k2 in snap_diff(before, snapshot(b)) if k2 != 'files']
        return full, classify(out), changed, (plugin, path) in Obs.bodies
    for (plugin, path) in guard_cmds:
        for vi, pargs in enumerate(GV):
            for who, tgt in (('plain', CHAN), ('unreg', NICK)):
                r1 = guard_call(plugin, path, pargs, who, tgt, None)
                if r1 and r1[1][0] == 'nocap' and not r1[2]:
                    refused_normally.append((plugin, path, pargs, who, tgt, r1[1][1], r1[3]))
    silent_denials(True)
    try:
        for (plugin, path, pargs, who, tgt, capname, in_body) in refused_normally:
            r2 = guard_call(plugin, path, pargs, who, tgt, 'silent-denial')
            if r2 is None:
                continue
            full, cls, changed, ran = r2
            ok = not changed and cls[0] in ('silent', 'nocap', 'error', 'help')
            cases.append(Case({'op': 'bodyguard', 'plugin': plugin, 'path': list(path), 'prefix': ROLES[who], 'target': tgt, 'text': full, 'variant': 'silent-denial'},
                              oracle_ok=ok, kind='bodyguard', tags=['bodyguard', 'variant:silent-denial'] + (['bodyguard:in-body'] if in_body else []),
                              oracle_msg='' if ok else '[configuration silent-denial] %s calls %s %s as %r: refused for lacking %s under the shipped message, but with '
                                         'supybot.replies.noCapability = "" state changed=%r, reply=%r' % (ROLES[who], plugin, ' '.join(path), full, capname, changed, cls)))
    finally:
        silent_denials(False)
    base_snap[0] = snapshot(b)

    # ================= configuration writes =================
    registry = b.registry
    cfgmod = sys.modules.get('Config.plugin') or sys.modules.get('supybot.plugins.Config.plugin')
    CFG = [('supybot.nick', 'zz', 'global'), ('supybot.reply.whenAddressedBy.chars', '!', 'global'),
           ('supybot.reply.whenAddressedBy.chars', '!', 'channel'), ('supybot.directories.data', '/tmp/vtx', 'global'),
           ('supybot.directories.plugins', '/tmp/vtx', 'global'), ('supybot.commands.allowShell', 'True', 'global'),
           ('supybot.capabilities', '-admin foo', 'global'), ('supybot.defaultIgnore', 'True', 'global'),
           ('supybot.plugins.VtGate.mark', 'v', 'global'), ('supybot.plugins.VtGate.open', 'v', 'channel'),
           ('supybot.plugins.VtGate.locked', 'v', 'channel'), ('supybot.reply.withNickPrefix', 'False', 'channel'),
           ('supybot.plugins.VtGate.open', 'v', 'global'), ('supybot.capabilities.default', 'False', 'global')]
    cfg_roles = ['owner', 'admin', 'chanop', 'plain', 'unreg', 'secure', 'ignored']
    def group_of(name):
        g = conf
        for part in registry.split(name):
            g = getattr(g, part) if g is conf else g.get(part)
        return g
    def non_settable(name):
        parts = registry.split(name)
        g = getattr(conf, parts[0]); out = []
        for i, part in enumerate(parts[1:], 1):
            g = g.get(part)
            if not getattr(g, '_opSettable', True):
                out.append(parts[:i + 1])
        return out
    MULTI = ('supybot.plugins.VtGate.open', 'supybot.reply.withNickPrefix', 'supybot.plugins.VtGate.locked')
    def chan_value(name, c):
        try:
            g = group_of(name)
            return (str(g.get(c)) if c in g._children else None, str(g.get(':test').get(c)) if (':test' in g._children and c in g.get(':test')._children) else None)
        except Exception as ex:
            return repr(ex)
    def run_config(variant):
        for (name, value, kind) in CFG:
            if name.startswith('supybot.plugins.VtGate') and 'VtGate' not in have:
                continue
            chan_sets = [None]
            if kind == 'channel':
                chan_sets = [CHAN, OTHERCHAN] + ([CHAN + ',' + OTHERCHAN, OTHERCHAN + ',' + CHAN] if name in MULTI else [])
            for role in cfg_roles:
                for chs in chan_sets:
                    listed = chs.split(',') if chs else []
                    form = 'char' if (len(cases) % 2 == 0) else 'private'
                    prefix = ROLES[role]
                    if kind == 'global':
                        text = 'config %s %s' % (name, quote(value)); gnames = [name]
                    else:
                        text = 'config channel %s %s %s' % (chs, name, quote(value)); gnames = [name + '.' + c for c in listed]
                    target, full, mchan = address(form, text)
                    partsL = [registry.split(g) for g in gnames]; partslL = [registry.split(g.lower()) for g in gnames]
                    try:
                        nons = non_settable(gnames[0])
                    except Exception:
                        nons = non_settable(name)
                    # oracle by construction
                    readonly = (not conf.supybot.commands.allowShell()) and (name.startswith('supybot.directories') or name == 'supybot.commands.allowShell')
                    def permitted(c):
                        return (role == 'owner' and not readonly) or (role == 'chanop' and kind == 'channel' and c == CHAN and not readonly
                                                                      and not name.endswith('locked'))
                    may_all = all(permitted(c) for c in (listed or [None]))
                    silent = role == 'ignored'
                    try:
                        old = str(group_of(name)) if kind == 'global' else None
                    except Exception:
                        old = None
                    vals_before = {c: chan_value(name, c) for c in listed}
                    send_db()
                    lines.append('ignored\t' + wire.enc(prefix)); pend.append(None)
                    Obs.execute = None
                    before = snapshot(b)
                    with contextlib.redirect_stdout(io.StringIO()):
                        out = deliver(b, prefix, target, full)
                    after = snapshot(b)
                    changed = snap_diff(before, after)
                    written = [c for c in listed if chan_value(name, c) != vals_before[c]]
                    cls = classify(out)
                    if cls[0] == 'silent': outc = 'silent'
                    elif cls[0] == 'nocap': outc = 'nocap:' + cls[1]
                    elif cls[0] == 'error' and 'not writeable' in cls[1]: outc = 'readOnly'
                    elif cls[0] == 'reply' and 'The operation succeeded' in cls[1]: outc = 'pass'
                    else: outc = 'other:' + cls[0]
                    if variant and outc != 'pass' and not silent:
                        outc = 'refused'
                    impl = outc if not listed or len(listed) == 1 else 'written:%s|%s' % (','.join(written), outc)
                    ok = True; msg = ''
                    if silent and (out or changed):
                        ok = False; msg = 'ignored caller %s wrote/was answered: %r changed=%r' % (prefix, [str(m).strip() for m in out], changed)
                    elif not silent:
                        bad_written = [c for c in written if not permitted(c)]
                        acceptable = ('nocap', 'error', 'silent') if variant else ('nocap', 'error')
                        if bad_written or (not listed and not may_all and changed) or (not may_all and cls[0] not in acceptable):
                            ok = False
                            msg = '%s%s (%s) sets %s via %r: must be refused for %s (%s); but channels written=%r, state changed=%r, reply=%r' % (
                                ('[configuration %s] ' % variant) if variant else '', role, prefix, name, full,
                                [c for c in (listed or [name]) if not permitted(c)],
                                'read-only name' if readonly else 'the caller lacks the capability for it', written, changed, cls)
                    c = Case({'op': 'config', 'name': name, 'channels': listed, 'role': role, 'prefix': prefix, 'target': target, 'text': full, 'variant': variant},
                             impl=impl, oracle_ok=ok, oracle_msg=msg, kind='config',
                             tags=['config', 'cfg:' + outc.split(':')[0], 'role:' + role] + (['oracle:deny'] if not may_all and not silent else [])
                                  + (['cfg:multi'] if len(listed) > 1 else []) + (['variant:' + variant] if variant else []))
                    cases.append(c)
                    enc_paths = lambda L: ','.join('.'.join(wire.enc(x) for x in pth) for pth in L) or '-'
                    if len(listed) > 1:
                        lines.append('cfgmulti\t%s\t%s\t%d\t%s\t%s\t%s\t%s' % (wire.enc(prefix), wire.enc_opt(mchan), 1 if conf.supybot.commands.allowShell() else 0,
                                                                                 wire.enc_list(listed), enc_paths(partsL), enc_paths(partslL), enc_paths(nons)))
                    else:
                        lines.append('cfg\t%s\t%s\t%d\t%s\t%s\t%s' % (wire.enc(prefix), wire.enc_opt(mchan), 1 if conf.supybot.commands.allowShell() else 0,
                                                                      wire.enc_list(partsL[0]), wire.enc_list(partslL[0]), enc_paths(nons)))
                    def fillc(o, ign, multi=(len(listed) > 1), variant=variant):
                        if ign.startswith('1') or ign.startswith('crash'):
                            return 'written:|silent' if multi else 'silent'
                        f = o.split('\t')
                        if multi:
                            w = wire.dec_list(f[0]); f = f[1:]
                        oc = 'nocap:' + wire.dec(f[1]) if f[0] == 'noCapability' else f[0]
                        if variant and oc != 'pass':
                            oc = 'refused'
                        return ('written:%s|%s' % (','.join(w), oc)) if multi else oc
                    pend.append((c, fillc))
                    # put things back
                    if changed or written:
                        try:
                            if kind == 'global' and old is not None:
                                group_of(name).set(old) if old.strip() else group_of(name).setValue(type(group_of(name)())())
                            elif kind == 'channel':
                                for c2 in listed:
                                    group_of(name).get(c2).set(str(group_of(name)))
                                    try:
                                        group_of(name).get(':test').get(c2).set(str(group_of(name)))
                                    except Exception:
                                        pass
                        except Exception:
                            pass
                        if name == 'supybot.capabilities':
                            conf.supybot.capabilities.setValue(list(DEFAULT_CAPS))
    if 'Config' in have:
        run_config(None)
        for per_channel in (False, True):
            silent_denials(True, per_channel)
            try:
                run_config('silent-denial' + ('-in-channel' if per_channel else ''))
            finally:
                silent_denials(False, per_channel)

    # ================= supybot.capabilities is assigned =================
    VOC = ['owner', '-owner', 'Owner', '-OWNER', 'admin', '-admin', 'foo', '-foo', CHAN + ',op', CHAN + ',-op', 'trusted', '-trusted', 'scheduler.add']
    for i in range(400 if ctx.thorough else 60):
        words = [r.choice(VOC) for _ in range(r.randint(0, 5))]
        try:
            with contextlib.redirect_stdout(io.StringIO()):
                conf.supybot.capabilities.set(' '.join(words))
            got = sorted(set.__iter__(conf.supybot.capabilities()))
            impl = 'ok\t' + wire.enc_list(got)
        except Exception as e:
            got = None
            impl = 'crash'
        ok = True; msg = ''
        if got is not None:
            if '-owner' not in got or 'owner' in got:
                ok = False; msg = 'supybot.capabilities set to %r gives %r: -owner missing (or owner present)' % (' '.join(words), got)
            elif ircdb.checkCapability(ROLES['unreg'], 'owner') or not ircdb.checkCapability(ROLES['unreg'], '-owner'):
                ok = False; msg = 'after supybot.capabilities = %r an unregistered caller holds owner' % (' '.join(words),)
            elif i % 10 == 0 and 'Owner' in have:
                send_db()
                Obs.execute = None
                out = deliver(b, ROLES['unreg'], CHAN, '@flush')
                cls = classify(out)
                if ('Owner', ('flush',)) in Obs.bodies or cls[0] not in ('nocap', 'error'):
                    ok = False; msg = 'after supybot.capabilities = %r an unregistered caller ran Owner.flush: %r' % (' '.join(words), cls)
        c = Case({'op': 'setdefaults', 'value': ' '.join(words)}, impl=impl, oracle_ok=ok, oracle_msg=msg, kind='setdefaults',
                 tags=['setdefaults'] + (['sd:owner-given'] if any(w.lower() == 'owner' for w in words) else []) +
                      (['sd:antiowner-given'] if any(w.lower() == '-owner' for w in words) else ['sd:antiowner-readded']))
        cases.append(c)
        lines.append('setdefaults\t0\t' + wire.enc_list(words))
        def fills(o, ign):
            f = o.split('\t')
            if f[0] != 'ok':
                return 'crash'
            return 'ok\t' + wire.enc_list(sorted(wire.dec_list(f[1])))
        pend.append((c, fills))
        conf.supybot.capabilities.setValue(list(DEFAULT_CAPS))

    # ================= who is ignored =================
    if 'VtGate' in have:
        def mkuser(name, hostmask, caps, **kw):
            u = ircdb.users.newUser(); u.name = name
            for cp in caps: u.addCapability(cp)
            u.addHostmask(hostmask)
            for k2, v2 in kw.items(): setattr(u, k2, v2)
            ircdb.users.setUser(u)
        mkuser('vtrust', 'tru!t@trust.host', ['trusted'], ignore=True)
        mkuser('vtrust2', 'igd!t@igd.host', ['trusted'])          # trusted, but matched by the ignores db entry igd!*@igd.host
        mkuser('vplainig', 'igd!p@igd.host2', [])
        now0 = time.time()
        ircdb.ignores.add('fut!*@*', int(now0) + 5000)
        IGN = [('unreg', ROLES['unreg'], None, False), ('unreg-defaultIgnore', ROLES['unreg'], 'defaultIgnore', True),
               ('plain-defaultIgnore', ROLES['plain'], 'defaultIgnore', False), ('ignored-flag-owner', ROLES['ignored'], None, True),
               ('ignoredb', ROLES['ignoredb'], None, True), ('expired-entry', 'old!x@old.host', None, False),
               ('future-entry', 'fut!x@fut.host', None, True), ('future-entry-after-expiry', 'fut!x@fut.host', 'later', False),
               ('trusted-with-flag', 'tru!t@trust.host', None, True), ('trusted-in-ignores-db', 'igd!t@igd.host', None, False),
               ('owner', ROLES['owner'], None, False), ('secure-wrong-host', ROLES['secure'], None, False)]
        for label, prefix, special, want_silent in IGN:
            for form in (FORMS if ctx.thorough else ['char', 'private']):
                if special == 'defaultIgnore':
                    conf.supybot.defaultIgnore.setValue(True)
                if special == 'later':
                    Clock.offset += 6000
                try:
                    target, full, mchan = address(form, 'vtfree')
                    last_dump[0] = None
                    send_db()
                    Obs.execute = None
                    before = snapshot(b)
                    out = deliver(b, prefix, target, full)
                    changed = snap_diff(before, snapshot(b))
                    ran = ('VtGate', ('vtfree',)) in Obs.bodies
                finally:
                    if special == 'defaultIgnore':
                        conf.supybot.defaultIgnore.setValue(False)
                impl = 'silent' if (not out and not ran) else ('ran' if ran else 'answered')
                ok = True; msg = ''
                if want_silent and (out or ran or [k2 for k2 in changed if k2 != 'ignores']):
                    ok = False; msg = 'ignored caller %s (%s): expected neither effect nor reply, got %r ran=%r changed=%r' % (prefix, label, [str(m).strip() for m in out], ran, changed)
                c = Case({'op': 'ignore', 'label': label, 'prefix': prefix, 'target': target, 'text': full}, impl=impl, oracle_ok=ok, oracle_msg=msg,
                         kind='ignore', tags=['ignore', 'ign:' + label] + (['oracle:silent'] if want_silent else []))
                cases.append(c)
                lines.append('ignored\t' + wire.enc(prefix))
                pend.append((c, lambda o, ign: 'silent' if (o.startswith('1') or o.startswith('crash')) else 'ran'))

    # ================= converters have no privileged side effects (every converter in commands.wrappers) =================
    HOSTILE = [[], [CHAN], ['#zzz'], ['vown'], [ROLES['owner']], ['*!*@*'], ['Owner'], ['flush'], ['supybot.nick'], ['-1'], ['99999999999'],
               ['http://x/'], ['s/a/b/'], ['m/./'], [NICK], ['a b'], [''], ['\x01'], [CHAN, 'cop'], ['global'], ['aa'], ['xxx'], ['1'], ['True']]
    conv_effects = {}
    for (ci, cname) in CONV_NAMES:
        vecs = [HOSTILE[(ci * 5 + j * 7 + ctx.seed) % len(HOSTILE)] for j in range(12 if ctx.thorough else 4)]
        for vi, args in enumerate(vecs):
            for who, tgt in ((('plain', CHAN), ('unreg', NICK), ('chanop', NICK)) if ctx.thorough else (('plain', CHAN), ('unreg', NICK))):
                text = ('@' if tgt == CHAN else '') + 'cv%d %s' % (ci, ' '.join(quote(a) for a in args))
                Obs.execute = None
                del CONV_LOG[:]
                before = snapshot(b)
                out = deliver(b, ROLES[who], tgt, text)
                changed = snap_diff(before, snapshot(b))
                ran = bool(CONV_LOG)
                ok = not changed and not ran
                if changed:
                    conv_effects.setdefault(cname, set()).update(changed)
                cases.append(Case({'op': 'converter', 'converter': cname, 'prefix': ROLES[who], 'target': tgt, 'text': text}, oracle_ok=ok, kind='converter',
                                  oracle_msg='' if ok else 'converter %r run for %s (who is then refused by the owner converter): state changed=%r, body ran=%r' % (cname, ROLES[who], changed, ran),
                                  tags=['converter', 'conv:' + cname]))
    # positive control: the probes are live (an owner gets through a harmless converter)
    for (ci, cname) in CONV_NAMES:
        if cname == 'anything':
            del CONV_LOG[:]
            Obs.execute = None
            deliver(b, ROLES['owner'], NICK, 'cv%d foo' % ci)
            cases.append(Case({'op': 'converter', 'converter': cname, 'control': True}, oracle_ok=bool(CONV_LOG), kind='converter',
                              oracle_msg='control: the owner could not run the converter probe', tags=['converter', 'conv:control']))
    EXTRA_EVIDENCE['converters_probed'] = [n for _, n in CONV_NAMES]
    EXTRA_EVIDENCE['converters_with_state_change_on_refused_call'] = {k2: sorted(v2) for k2, v2 in conv_effects.items()}

    # ================= the other re-dispatch sites: Network.command, Scheduler.repeat, Admin.acmd, MessageParser =================
    FINDING_STATUS.clear()
    if 'VtGate' in have:
        vt_spec, vt_ae = row_spec('VtGate', ('vtowner',), loaded[('VtGate', ('vtowner',))])
        def rd_case(label, deliver_fn, gate_prefix, gate_target, site, cur, stored, must, finding=None, note='', tplugin='VtGate', tpath=('vtowner',), tcmd=None):
            '''one observation of VtGate.vtowner reached through a re-dispatch site.
            gate_prefix/gate_target: what the model is asked about; cur/stored: (prefix, args[0]) pairs for the site op'''
            t_spec, t_ae = row_spec(tplugin, tpath, loaded[(tplugin, tpath)])
            last_dump[0] = None
            send_db()
            lines.append('ignored\t' + wire.enc(gate_prefix)); pend.append(None)
            mchan = gate_target if gate_target[:1] == '#' else None
            Obs.execute = None
            before = snapshot(b)
            out = deliver_fn()
            changed = [k2 for k2 in snap_diff(before, snapshot(b)) if k2 not in ('events', 'sched', 'files')]
            ent = [(e[2], e[3]) for e in Obs.entered if (e[0], e[1]) == (tplugin, tuple(tcmd or tpath))]
            ran = (tplugin, tpath) in Obs.bodies
            cls = classify(out)
            if not ent:
                impl = 'not-dispatched'
            else:
                impl = ('body' if ran else ('nocap:' + cls[1] if cls[0] == 'nocap' else 'stopped')) + ' @%s %s' % ent[0]
            ok = True; msg = ''
            if must == 'deny' and (ran or [k2 for k2 in changed if k2 != 'registry'] or (ran and changed)):
                ok = False
                msg = '%s: %s; the privileged body ran=%r, state changed=%r, replies=%r' % (label, note, ran, changed, [str(m).strip() for m in out])
            elif must == 'allow' and not ran:
                ok = False
                msg = '%s: %s; expected the command to run for its entitled caller, got %r' % (label, note, cls)
            c = Case({'op': 'redispatch', 'label': label, 'site': site, 'gate_prefix': gate_prefix, 'gate_target': gate_target, 'note': note},
                     impl=impl, oracle_ok=ok, oracle_msg=msg, kind='redispatch', finding=finding,
                     tags=['redispatch', 'site:' + site, 'rd:' + label, 'oracle:' + must])
            cases.append(c)
            DEBUG[id(c)] = [str(m).strip() for m in out]
            lines.append('site\t%s\t%s\t%s\t%s\t%s\t%s\t0' % (site, wire.enc(cur[0]), wire.enc(cur[1]), wire.enc(stored[0]), wire.enc(stored[1]), wire.enc('')))
            pend.append(None)
            lines.append('invoke\t%s\t%s\t%s\t%s\t%s\t%d\t%s' % (wire.enc(gate_prefix), wire.enc_opt(mchan), wire.enc(tplugin), wire.enc_list(list(tcmd or tpath)),
                                                                   enc_spec(t_spec), 1 if t_ae else 0, wire.enc_list([])))
            def fillr(o, ign):
                so = SITE_OUT[0]
                if so in (None, 'none', 'bad-op') or ign.startswith('1') or ign.startswith('crash'):
                    return 'not-dispatched'
                f = o.split('\t'); i = f.index('|'); g = f[:i]; oc = f[i + 1:]
                sf = so.split('\t')
                suffix = ' @%s %s' % (wire.dec(sf[0]), wire.dec_opt(sf[1]))
                if g[0] == 'denied': return 'nocap:' + wire.dec(g[1]) + suffix
                if g[0] != 'allow': return 'gate:' + g[0] + suffix
                if oc[0] == 'body': return 'body' + suffix
                if oc[0] == 'noCapability': return 'nocap:' + wire.dec(oc[1]) + suffix
                return 'stopped' + suffix
            pend.append((c, fillr))
            return c

        # ---- Network.command / cmdall: the same message, another Irc object ----
        if 'Network' in have:
            for role, must in (('owner', 'allow'), ('admin', 'deny')):
                for tgt, txt in ((NICK, 'network command test vtowner'), (CHAN, '@network cmdall vtowner')):
                    pr = ROLES[role]
                    rd_case('netcommand-' + role, lambda pr=pr, tgt=tgt, txt=txt: deliver(b, pr, tgt, txt), pr, tgt, 'netcommand', (pr, tgt), ('', ''), must,
                            note='%s runs %r: the inner command is gated against the caller' % (role, txt))
        # ---- Scheduler.repeat: runs now and every n seconds, always against the stored message ----
        if 'Scheduler' in have:
            sched_cb = [cb for cb in irc.callbacks if cb.name() == 'Scheduler'][0]
            def fire():
                Obs.gate = []; Obs.bodies = []; Obs.entered = []
                b.schedule.run(); wait_threads()
                return bot.drain(b)
            def stop(name):
                try:
                    b.schedule.removeEvent(name)
                except Exception:
                    pass
                sched_cb.events.pop(name, None)
            uo = user_by_name(b, 'vreg'); uo.addCapability('scheduler.repeat'); ircdb.users.setUser(uo)
            pr = ROLES['plain']
            deliver(b, pr, CHAN, '@scheduler repeat vtrep 50 vtowner')
            rd_case('repeat-first-run', fire, pr, CHAN, 'scheduled', ('', ''), (pr, CHAN), 'deny', note='plain user holding scheduler.repeat repeats an owner command')
            Clock.offset += 60
            rd_case('repeat-second-run', fire, pr, CHAN, 'scheduled', ('', ''), (pr, CHAN), 'deny', note='second firing of the same event')
            stop('vtrep')
            uo = user_by_name(b, 'vreg'); uo.removeCapability('scheduler.repeat'); ircdb.users.setUser(uo)
            po = ROLES['owner']
            deliver(b, po, NICK, 'scheduler repeat vtrep2 50 vtowner')
            rd_case('repeat-owner', fire, po, NICK, 'scheduled', ('', ''), (po, NICK), 'allow', note='the owner repeats an owner command')
            uo = user_by_name(b, 'vown'); uo.removeCapability('owner'); ircdb.users.setUser(uo)
            Clock.offset += 60
            try:
                rd_case('repeat-owner-revoked', fire, po, NICK, 'scheduled', ('', ''), (po, NICK), 'deny', note='the repeating caller lost owner before the next firing')
            finally:
                uo = user_by_name(b, 'vown'); uo.addCapability('owner'); ircdb.users.setUser(uo)
                stop('vtrep2')
            # gate-level verdicts must be taken afresh at every firing (the Scheduler replays the SAME message object):
            # (i) an anti-capability appears between two firings of a harmless command
            uo = user_by_name(b, 'vreg'); uo.addCapability('scheduler.repeat'); ircdb.users.setUser(uo)
            pr = ROLES['plain']
            deliver(b, pr, CHAN, '@scheduler repeat vtrep3 50 vtfree')
            rd_case('repeat-free-first-run', fire, pr, CHAN, 'scheduled', ('', ''), (pr, CHAN), 'allow', tpath=('vtfree',),
                    note='plain user repeats the ungated vtfree')
            uo = user_by_name(b, 'vreg'); uo.addCapability('-vtfree'); ircdb.users.setUser(uo)
            Clock.offset += 60
            try:
                rd_case('repeat-free-anti-added', fire, pr, CHAN, 'scheduled', ('', ''), (pr, CHAN), 'deny', tpath=('vtfree',),
                        note='the user was given -vtfree between two firings of the same event')
            finally:
                uo = user_by_name(b, 'vreg'); uo.removeCapability('-vtfree'); uo.removeCapability('scheduler.repeat'); ircdb.users.setUser(uo)
                stop('vtrep3')
            # (ii) an Owner command repeated by the owner, who loses `owner` between two firings
            if ('Owner', ('flush',)) in loaded:
                po = ROLES['owner']
                deliver(b, po, NICK, 'scheduler repeat vtrep4 50 flush')
                rd_case('repeat-ownercmd-first-run', fire, po, NICK, 'scheduled', ('', ''), (po, NICK), 'allow', tplugin='Owner', tpath=('flush',),
                        note='the owner repeats Owner.flush')
                uo = user_by_name(b, 'vown'); uo.removeCapability('owner'); ircdb.users.setUser(uo)
                Clock.offset += 60
                try:
                    rd_case('repeat-ownercmd-revoked', fire, po, NICK, 'scheduled', ('', ''), (po, NICK), 'deny', tplugin='Owner', tpath=('flush',),
                            note='the repeating caller lost owner between two firings: the prefix loop must refuse Owner.flush')
                finally:
                    uo = user_by_name(b, 'vown'); uo.addCapability('owner'); ircdb.users.setUser(uo)
                    stop('vtrep4')
            # (iii) the event goes through Scheduler.pickle (`reload Scheduler`, i.e. what a restart does) before it fires:
            # the restored message must still be a message to #c, so the channel's anti-capability still applies
            if ('Owner', ('reload',)) in loaded:
                pr = ROLES['plain']
                for with_anti in (False, True):
                    uo = user_by_name(b, 'vreg'); uo.addCapability('scheduler.add'); ircdb.users.setUser(uo)
                    if with_anti:
                        co = ircdb.channels.getChannel(CHAN); co.addCapability('-vtfree'); ircdb.channels.setChannel(CHAN, co)
                    try:
                        Obs.execute = None
                        deliver(b, pr, CHAN, '@scheduler add 30 vtfree')
                        with contextlib.redirect_stdout(io.StringIO()):
                            rl = classify(deliver(b, ROLES['owner'], NICK, 'reload Scheduler'))
                        Clock.offset += 60
                        rd_case('scheduled-after-reload' + ('-channel-anti' if with_anti else ''), fire, pr, CHAN, 'scheduled', ('', ''), (pr, CHAN),
                                'deny' if with_anti else 'allow', tpath=('vtfree',),
                                note='plain user schedules vtfree from %s, the owner reloads Scheduler (%s) so the event is restored from Scheduler.pickle, then it fires%s'
                                     % (CHAN, rl[0], '; the channel holds -vtfree' if with_anti else ''))
                    finally:
                        uo = user_by_name(b, 'vreg'); uo.removeCapability('scheduler.add'); ircdb.users.setUser(uo)
                        if with_anti:
                            co = ircdb.channels.getChannel(CHAN); co.removeCapability('-vtfree'); ircdb.channels.setChannel(CHAN, co)
                        sched_cb = [cb for cb in irc.callbacks if cb.name() == 'Scheduler'][0]
                        for k2 in list(sched_cb.events):
                            stop(k2)
        # ---- Admin.acmd: assigns to msg.args[0] (a tuple) -> TypeError before anything is dispatched ----
        if 'Admin' in have:
            botpfx = irc.prefix if getattr(irc, 'prefix', None) and '!' in irc.prefix else '%s!bot@bot.host' % NICK
            irc.feedMsg(b.ircmsgs.join(CHAN, prefix=botpfx)); bot.drain(b)
            pr = ROLES['admin']
            rd_case('acmd', lambda: deliver(b, pr, NICK, 'acmd vtowner'), pr, NICK, 'acmd', (pr, NICK), ('', ''), 'deny',
                    note='admin runs acmd with the bot in a channel')
            irc.feedMsg(b.ircmsgs.part(CHAN, prefix=botpfx)); bot.drain(b)
        # ---- MessageParser: the stored action runs with the SPEAKER's message ----
        if 'MessageParser' in have:
            added_plain = classify(deliver(b, ROLES['plain'], CHAN, '@messageparser add vtmagic vtowner'))
            c0 = Case({'op': 'redispatch', 'label': 'trigger-add-plain'}, impl='refused' if added_plain[0] in ('nocap', 'error') else added_plain[0],
                      model='refused', kind='redispatch', oracle_ok=(added_plain[0] in ('nocap', 'error')), oracle_msg='a plain user added a MessageParser trigger: %r' % (added_plain,),
                      tags=['redispatch', 'rd:trigger-add-plain', 'oracle:deny'])
            cases.append(c0)
            added = classify(deliver(b, ROLES['chanop'], CHAN, '@messageparser add vtmagic vtowner'))
            if added[0] == 'reply':
                for who, must, fnd in (('plain', 'deny', None), ('chanop', 'deny', None), ('ignored', 'deny', None), ('owner', 'deny', 'C01-trigger-runs-as-speaker')):
                    pr = ROLES[who]
                    c1 = rd_case('trigger-speaker-' + who, lambda pr=pr: deliver(b, pr, CHAN, 'did anybody say vtmagic today'), pr, CHAN, 'trigger',
                                 (pr, CHAN), (ROLES['chanop'], CHAN), must, finding=fnd,
                                 note='trigger stored by the channel op %s (no owner capability) with action "vtowner"; %s (%s) says a matching line in %s'
                                      % (ROLES['chanop'], who, pr, CHAN))
                    if fnd:
                        FINDING_STATUS[fnd] = (c1.oracle_ok is False,
                                               'a MessageParser trigger stored by a caller without the owner capability ran an owner-only command when the owner spoke a matching line (the action is dispatched with the speaker\'s message)')
                deliver(b, ROLES['owner'], CHAN, '@messageparser remove vtmagic')

    # ================= configurations that change what the gate shows: flood guard on, private capabilities,
    # generic no-capability reply, whenNotCommand off, strictRfc with a STATUSMSG target =================
    if 'VtGate' in have and 'Owner' in have:
        owner_cb = [cb for cb in irc.callbacks if cb.name() == 'Owner'][0]
        fl = conf.supybot.abuse.flood
        fl.command.setValue(True); fl.command.maximum.setValue(3); fl.command.punishment.setValue(300); fl.command.notify.setValue(True)
        try:
            for who, pr in (('unreg-flooder', 'flo!f@flood.host'), ('registered-flooder', 'reg!r@flood2.host'), ('owner', ROLES['owner'])):
                if who == 'registered-flooder':
                    uf = user_by_name(b, 'vreg'); uf.addHostmask('reg!r@flood2.host'); ircdb.users.setUser(uf)
                for i in range(6):
                    fmsg = b.ircmsgs.privmsg(CHAN, 'x', prefix=pr)
                    queued = owner_cb.commands.len(fmsg) + 1
                    last_dump[0] = None
                    send_db()
                    with contextlib.redirect_stdout(io.StringIO()):
                        bm = conf.supybot.protocols.irc.banmask.makeBanmask(pr, channel=CHAN, network='test')
                    Obs.execute = None
                    ign_before = dict(ircdb.ignores.hostmasks)
                    out = deliver(b, pr, CHAN, '@vtfree')
                    ran = ('VtGate', ('vtfree',)) in Obs.bodies
                    new_ign = {k2: v2 for k2, v2 in ircdb.ignores.hostmasks.items() if k2 not in ign_before}
                    cls = classify(out)
                    if ran:
                        impl = 'dispatch'
                    elif new_ign:
                        k2, v2 = list(new_ign.items())[0]
                        impl = 'punished\t%s\t%d' % (wire.enc(k2), int(round(v2 - time.time(), -1)))
                    elif not out:
                        impl = 'silent'
                    else:
                        impl = 'other:' + cls[0]
                    must_silent = (who != 'owner' and i >= 4)
                    ok = True; msg = ''
                    if who != 'owner' and i >= 3 and ran:
                        ok = False; msg = 'flood guard on (maximum 3): command #%d of %s within the interval still ran' % (i + 1, pr)
                    elif must_silent and out:
                        ok = False; msg = 'flood guard: %s was punished (ignored) yet command #%d was answered: %r' % (pr, i + 1, cls)
                    elif who == 'owner' and not ran:
                        ok = False; msg = 'flood guard: a trusted caller (owner) was not served: %r' % (cls,)
                    c = Case({'op': 'flood', 'who': who, 'prefix': pr, 'n': i + 1}, impl=impl, oracle_ok=ok, oracle_msg=msg, kind='flood',
                             tags=['flood', 'flood:' + impl.split('\t')[0], 'flood:' + who])
                    cases.append(c)
                    lines.append('flood\t%s\t1\t%d\t3\t%s\t300' % (wire.enc(pr), queued, wire.enc(bm)))
                    def fillf(o, ign):
                        f = o.split('\t')
                        if f[0] == 'punished':
                            return 'punished\t%s\t%d' % (f[1], int(round(int(f[2]), -1)))
                        return f[0]
                    pend.append((c, fillf))
        finally:
            fl.command.setValue(False)
            for k2 in [k2 for k2 in ircdb.ignores.hostmasks if 'flood' in k2]:
                ircdb.ignores.remove(k2)
            uf = user_by_name(b, 'vreg')
            if 'reg!r@flood2.host' in uf.hostmasks:
                uf.removeHostmask('reg!r@flood2.host'); ircdb.users.setUser(uf)

        # ---- reply / parsing configurations: the refusal must survive each of them ----
        def set_private(on):
            conf.supybot.capabilities.private.setValue(['owner', 'admin', CHAN + ',op'] if on else [])
        VARS = [('generic-reply', lambda on: conf.supybot.reply.error.noCapability.setValue(on)),
                ('private-capabilities', set_private),
                ('whenNotCommand-off', lambda on: conf.supybot.reply.whenNotCommand.setValue(not on)),
                ('error-in-private', lambda on: conf.supybot.reply.error.inPrivate.setValue(on)),
                ('error-with-notice', lambda on: conf.supybot.reply.error.withNotice.setValue(on)),
                ('strictRfc', lambda on: conf.supybot.protocols.irc.strictRfc.setValue(on))]
        VPROBES = [('VtGate', ('vtowner',), [], 'owner'), ('VtGate', ('vtadmin',), [], 'admin'), ('VtGate', ('vtop',), [], CHAN + ',op'),
                   ('Owner', ('flush',), [], 'owner'), ('Admin', ('channels',), [], 'admin')]
        VPROBES = [x for x in VPROBES if x[0] in have]
        irc.feedMsg(b.ircmsgs.IrcMsg(':server 005 %s STATUSMSG=@+ :are supported by this server' % NICK)); bot.drain(b)
        for vname, setter in VARS:
            setter(True)
            try:
                for (plugin, path, pargs, capname) in VPROBES:
                    for who in ('plain', 'unreg', 'owner'):
                        for tgt in ((CHAN, '@' + CHAN, NICK) if vname == 'strictRfc' else (CHAN, NICK)):
                            pr = ROLES[who]
                            text, cmd, args = command_text(plugin, path, pargs, 'direct', False)
                            try:
                                rc, rcbs = route(cmd + args)
                                if not (len(rcbs) == 1 and rcbs[0].name() == plugin and list(rc) == cmd):
                                    text, cmd, args = command_text(plugin, path, pargs, 'direct', True)
                            except Exception:
                                continue
                            full = text if tgt == NICK else '@' + text
                            strict = (vname == 'strictRfc')
                            bare = tgt.lstrip('@+') if not strict else tgt
                            mchan = bare if bare[:1] == '#' else None
                            spec, ae = row_spec(plugin, path, loaded[(plugin, path)])
                            real = who != 'owner' or plugin == 'VtGate'
                            last_dump[0] = None
                            send_db()
                            lines.append('ignored\t' + wire.enc(pr)); pend.append(None)
                            tk = (plugin, tuple(cmd))
                            Obs.execute = (lambda p_, c_, real=real, tk=tk: real if (p_, c_) == tk else False)
                            before = snapshot(b)
                            out = deliver(b, pr, tgt, full)
                            changed = snap_diff(before, snapshot(b))
                            body_ran = (plugin, path) in Obs.bodies
                            gate_hit = tk in Obs.gate
                            seen = [(e[2], e[3]) for e in Obs.entered if (e[0], e[1]) == tk]
                            cls = classify(out)
                            texts = ' '.join(m.args[1] for m in out if len(m.args) > 1)
                            impl = ('passed' if gate_hit and (body_ran or not real) else 'refused') + (' @%s %s' % seen[0] if seen else '')
                            ok = True; msg = ''
                            if who != 'owner':
                                problems = []
                                if body_ran: problems.append('the command body ran')
                                if changed: problems.append('state changed: %s' % changed)
                                if len(out) > 1 or (out and cls[0] not in ('nocap', 'error', 'help')): problems.append('output is not a single error reply: %r' % (cls,))
                                if vname in ('generic-reply', 'private-capabilities') and (' %s capability' % capname) in texts:
                                    problems.append('the reply names the capability %s although it is configured not to' % capname)
                                if problems:
                                    ok = False
                                    msg = 'configuration %s: %s (%s) calls %s %s to %s; %s' % (vname, who, pr, plugin, ' '.join(path), tgt, '; '.join(problems))
                            c = Case({'op': 'cfgvar', 'config': vname, 'plugin': plugin, 'path': list(path), 'prefix': pr, 'target': tgt, 'text': full},
                                     impl=impl, oracle_ok=ok, oracle_msg=msg, kind='cfgvar', tags=['cfgvar', 'cfgvar:' + vname] + (['oracle:deny'] if who != 'owner' else []))
                            cases.append(c)
                            lines.append('site\towner\t%s\t%s\t%s\t%s\t%s\t%d' % (wire.enc(pr), wire.enc(tgt), wire.enc(''), wire.enc(''), wire.enc('@+'), 1 if strict else 0))
                            pend.append(None)
                            lines.append('invoke\t%s\t%s\t%s\t%s\t%s\t%d\t%s' % (wire.enc(pr), wire.enc_opt(mchan), wire.enc(plugin), wire.enc_list(cmd),
                                                                                   enc_spec(spec), 1 if ae else 0, wire.enc_list(args)))
                            def fillv(o, ign, seen=bool(seen), real=real):
                                f = o.split('\t'); i = f.index('|'); g = f[:i]; oc = f[i + 1:]
                                r0 = 'passed' if (g[0] == 'allow' and (oc[0] == 'body' or not real)) else 'refused'
                                so = SITE_OUT[0]
                                if seen and so not in (None, 'none', 'bad-op'):
                                    sf = so.split('\t'); r0 += ' @%s %s' % (wire.dec(sf[0]), wire.dec_opt(sf[1]))
                                return r0
                            pend.append((c, fillv))
            finally:
                setter(False)

    # ================= callers recognised by LOGIN (identify) and by a hostmask that is later removed =================
    # histories: not identified -> identify -> commands (caches warm) -> the login times out / unidentify /
    # the registered hostmask is removed -> the same commands must be refused again
    if 'User' in have and 'VtGate' in have:
        TMO = 100
        conf.supybot.databases.users.timeoutIdentification.setValue(TMO)
        ul = ircdb.users.newUser(); ul.name = 'vlog'; ul.addCapability('owner'); ul.setPassword('pw')
        ul.addHostmask('log!l@home.host'); ircdb.users.setUser(ul)
        AWAY = 'log!l@away.host'; HOME = 'log!l@home.host'
        PROBES = [('VtGate', ('vtowner',), [], True), ('VtGate', ('vtadmin',), [], True), ('VtGate', ('vtop',), [CHAN], True),
                  ('Owner', ('flush',), [], False), ('Admin', ('channels',), [], False), ('Owner', ('defaultcapability',), ['add', 'foo'], False)]
        PROBES = [x for x in PROBES if x[0] in have]
        def login_probe(stage, prefix, must):
            # must: 'allow' | 'deny'
            for pi, (plugin, path, pargs, safe) in enumerate(PROBES):
                form = ['char', 'private'][pi % 2]
                text, cmd, args = command_text(plugin, path, pargs, 'direct', False)
                try:
                    rc, rcbs = route(cmd + args)
                    if not (len(rcbs) == 1 and rcbs[0].name() == plugin and list(rc) == cmd):
                        text, cmd, args = command_text(plugin, path, pargs, 'direct', True)
                except Exception as ex:
                    sys.stderr.write('login probe %s %s not routable: %r\n' % (plugin, path, ex))
                    continue
                target, full, mchan = address(form, text)
                spec, ae = row_spec(plugin, path, loaded[(plugin, path)])
                real = safe or must == 'deny'
                last_dump[0] = None
                send_db()
                lines.append('ignored\t' + wire.enc(prefix)); pend.append(None)
                tk = (plugin, tuple(cmd))
                Obs.execute = (lambda p_, c_, real=real, tk=tk: real if (p_, c_) == tk else False)
                before = snapshot(b)
                out = deliver(b, prefix, target, full)
                changed = snap_diff(before, snapshot(b))
                gate_hit = tk in Obs.gate
                body_ran = (plugin, path) in Obs.bodies
                cls = classify(out)
                if gate_hit:
                    impl = 'gate:allow' if not real else ('gate:allow|body' if body_ran else ('gate:allow|nocap:' + cls[1] if cls[0] == 'nocap' else 'gate:allow|stopped'))
                elif cls[0] == 'nocap':
                    impl = 'gate:denied:' + cls[1]
                else:
                    impl = 'gate:none|' + cls[0]
                ok = True; msg = ''
                if must == 'deny':
                    problems = []
                    if body_ran: problems.append('the command body ran')
                    if gate_hit and not any(k in ('cap', 'chancap') for k, _ in spec): problems.append('_callCommand let the call through')
                    if changed: problems.append('state changed: %s' % changed)
                    if cls[0] not in ('nocap', 'error', 'help'): problems.append('output is not a single error reply: %r' % (cls,))
                    if problems:
                        ok = False
                        msg = 'history %r: caller %s is no longer recognised as the owner and calls %s %s as %r; but %s' % (stage, prefix, plugin, ' '.join(path), full, '; '.join(problems))
                elif must == 'allow' and not gate_hit:
                    ok = False
                    msg = 'history %r: caller %s is recognised as the owner (live login / registered hostmask) but %s %s was refused: %r' % (stage, prefix, plugin, ' '.join(path), cls)
                c = Case({'op': 'login', 'stage': stage, 'plugin': plugin, 'path': list(path), 'prefix': prefix, 'target': target, 'text': full},
                         impl=impl, oracle_ok=ok, oracle_msg=msg, kind='login',
                         tags=['login', 'login:' + stage, 'oracle:' + must] + (['real'] if real else []))
                cases.append(c)
                DEBUG[id(c)] = [str(m).strip() for m in out]
                lines.append('invoke\t%s\t%s\t%s\t%s\t%s\t%d\t%s' % (wire.enc(prefix), wire.enc_opt(mchan), wire.enc(plugin), wire.enc_list(cmd),
                                                                       enc_spec(spec), 1 if ae else 0, wire.enc_list(args)))
                def fill(o, ign, real=real):
                    if ign.startswith('1') or ign.startswith('crash'):
                        return 'silent'
                    f = o.split('\t'); i = f.index('|'); g = f[:i]; oc = f[i + 1:]
                    if g[0] == 'denied': return 'gate:denied:' + wire.dec(g[1])
                    if g[0] == 'deniedDefault': return 'gate:denied:True'
                    if g[0] == 'crash': return 'gate:crash'
                    if not real: return 'gate:allow'
                    if oc[0] == 'body': return 'gate:allow|body'
                    if oc[0] == 'noCapability': return 'gate:allow|nocap:' + wire.dec(oc[1])
                    return 'gate:allow|stopped'
                pend.append((c, fill))
        def say(prefix, text):
            Obs.execute = None
            with contextlib.redirect_stdout(io.StringIO()):
                return classify(deliver(b, prefix, NICK, text))
        for rnd in range(3 if ctx.thorough else 1):
            login_probe('before-identify', AWAY, 'deny')
            r1 = say(AWAY, 'identify vlog pw')
            login_probe('identified', AWAY, 'allow')                 # also warms _hostmaskCache
            Clock.offset += TMO // 2
            login_probe('identified-half-timeout', AWAY, 'allow')
            Clock.offset += TMO + 50
            login_probe('login-timed-out', AWAY, 'deny')
            say(AWAY, 'identify vlog pw')
            login_probe('re-identified', AWAY, 'allow')
            say(AWAY, 'unidentify')
            login_probe('unidentified', AWAY, 'deny')
            # recognised by registered hostmask, which is then removed (by the user himself)
            login_probe('by-hostmask', HOME, 'allow')
            say(HOME, 'hostmask remove vlog ' + HOME)
            login_probe('hostmask-removed', HOME, 'deny')
            u3 = user_by_name(b, 'vlog'); u3.addHostmask(HOME); ircdb.users.setUser(u3)
            # login from AWAY, then the timeout is reached while the caller keeps talking from HOME too
            say(AWAY, 'identify vlog pw')
            login_probe('identified-again', AWAY, 'allow')
            Clock.offset += TMO + 50
            login_probe('home-after-timeout', HOME, 'allow')
            login_probe('away-after-timeout', AWAY, 'deny')
        conf.supybot.databases.users.timeoutIdentification.setValue(0)

    # ================= ignored in one channel only (IrcChannel ignores / bans / lobotomy) =================
    if 'VtGate' in have:
        LOB = '#lob'
        cobj = ircdb.channels.getChannel(CHAN)
        cobj.addIgnore('cig!*@*', 0); cobj.addIgnore('cfu!*@*', int(time.time()) + 4000); cobj.addIgnore('cex!*@*', 5)
        cobj.addBan('cbn!*@*', 0)
        ircdb.channels.setChannel(CHAN, cobj)
        lobj = ircdb.channels.getChannel(LOB); lobj.lobotomized = True; ircdb.channels.setChannel(LOB, lobj)
        def chan_fields(ch):
            if ch is None:
                return '0\t-\t-'
            co = ircdb.channels.getChannel(ch)
            enc = lambda d: ','.join('%d:%s' % (int(e), wire.enc(p)) for p, e in sorted(d.items())) or '-'
            return '%d\t%s\t%s' % (1 if co.lobotomized else 0, enc(co.bans), enc(co.ignores))
        CIG = [('chan-ignore', 'cig!x@h.host', CHAN, True), ('chan-ignore-elsewhere', 'cig!x@h.host', OTHERCHAN, False),
               ('chan-ignore-private', 'cig!x@h.host', None, False), ('chan-ban', 'cbn!x@h.host', CHAN, True),
               ('chan-ignore-future', 'cfu!x@h.host', CHAN, True), ('chan-ignore-expired', 'cex!x@h.host', CHAN, False),
               ('lobotomized', ROLES['plain'], LOB, True), ('lobotomized-owner', ROLES['owner'], LOB, False),
               ('chan-ignore-owner', 'own!o@owner.host', CHAN, False), ('plain-in-chan', ROLES['plain'], CHAN, False)]
        for label, prefix, ch, want_silent in CIG:
            if ch is None:
                target, full = NICK, 'vtfree'
            else:
                target, full = ch, '@vtfree'
            last_dump[0] = None
            send_db()
            fields = chan_fields(ch)
            Obs.execute = None
            out = deliver(b, prefix, target, full)
            ran = ('VtGate', ('vtfree',)) in Obs.bodies
            impl = 'silent' if (not out and not ran) else 'dispatch'
            ok = True; msg = ''
            if want_silent and (out or ran):
                ok = False; msg = 'caller %s ignored in %s (%s): expected neither effect nor reply, got %r ran=%r' % (prefix, ch, label, [str(m).strip() for m in out], ran)
            c = Case({'op': 'ignore', 'label': label, 'prefix': prefix, 'target': target, 'text': full}, impl=impl, oracle_ok=ok, oracle_msg=msg,
                     kind='ignore', tags=['ignore', 'ign:' + label] + (['oracle:silent'] if want_silent else []))
            cases.append(c)
            lines.append('received\t%s\t%s\t%s' % (wire.enc(prefix), wire.enc_opt(ch), fields))
            pend.append((c, lambda o, ign: 'silent' if (o.startswith('silent') or o.startswith('crash')) else 'dispatch'))

    time.time = _real_time
    Clock.offset = 0.0
    return cases, lines, pend

def apply_setup(b, setup):
    """put the databases in the state a scenario needs; returns undo()"""
    ircdb = b.ircdb; conf = b.conf
    if setup is None:
        return lambda: None
    what, holder, name = setup
    undo = []
    if what == 'anti':
        anti = '-' + name
        if holder == 'user':
            u = user_by_name(b, 'vanti'); u.addCapability(anti); ircdb.users.setUser(u)
            def un():
                u2 = user_by_name(b, 'vanti'); u2.removeCapability(anti); ircdb.users.setUser(u2)
            undo.append(un)
        elif holder == 'userchan':
            cap = '%s,%s' % (CHAN, anti)
            u = user_by_name(b, 'vanti'); u.addCapability(cap); ircdb.users.setUser(u)
            def un():
                u2 = user_by_name(b, 'vanti'); u2.removeCapability(cap); ircdb.users.setUser(u2)
            undo.append(un)
        elif holder == 'chan' and set.__contains__(ircdb.channels.getChannel(CHAN).capabilities, anti):
            pass        # already there (the channel's default-off anti-capabilities): nothing to add or undo
        elif holder == 'chan':
            c = ircdb.channels.getChannel(CHAN); c.addCapability(anti); ircdb.channels.setChannel(CHAN, c)
            def un():
                c2 = ircdb.channels.getChannel(CHAN); c2.removeCapability(anti); ircdb.channels.setChannel(CHAN, c2)
            undo.append(un)
        elif holder == 'defaults':
            if anti not in set.__iter__(conf.supybot.capabilities()) and not set.__contains__(conf.supybot.capabilities(), anti):
                conf.supybot.capabilities().add(anti)
                undo.append(lambda: conf.supybot.capabilities().remove(anti))
    elif what in ('default-off', 'default-off-positive'):
        conf.supybot.capabilities.default.setValue(False)
        undo.append(lambda: conf.supybot.capabilities.default.setValue(True))
        if what == 'default-off-positive':
            u = user_by_name(b, 'vanti'); u.addCapability(name); ircdb.users.setUser(u)
            def un():
                u2 = user_by_name(b, 'vanti'); u2.removeCapability(name); ircdb.users.setUser(u2)
            undo.append(un)
    elif what == 'sched':
        uname = ROLE_USER.get(holder)
        if uname and holder != 'owner':
            u = user_by_name(b, uname); u.addCapability('scheduler.add'); ircdb.users.setUser(u)
            def un():
                u2 = user_by_name(b, uname); u2.removeCapability('scheduler.add'); ircdb.users.setUser(u2)
            undo.append(un)
    def undo_all():
        for f in reversed(undo):
            f()
    return undo_all


def reconcile(c):
    """unmodelled converters behave as the identity in the model; on the implementation they may stop the
    call (ArgumentError, invalid argument): both canonical forms are then folded to 'gate:allow|stopped-or-body'"""
    if c.impl is None or c.model is None:
        return
    loose = ('gate:allow|body', 'gate:allow|stopped')
    bi, _, si = c.impl.partition(' @'); bm, _, sm = c.model.partition(' @')
    if bi in loose and bm in loose:
        c.impl = 'gate:allow|body-or-stopped-by-unmodelled-converter' + (' @' + si if si else '')
        c.model = 'gate:allow|body-or-stopped-by-unmodelled-converter' + (' @' + sm if sm else '')

def fill_model(clp):
    cases, lines, pend = clp
    outs = wire.run_driver(PROPERTY, lines)
    last_ign = '0'
    for p, o, l in zip(pend, outs, lines):
        if l.startswith('ignored\t'):
            last_ign = o
        if l.startswith('site\t'):
            SITE_OUT[0] = o
        if p is None:
            continue
        c, f = p
        c.model = 'bad-op' if o == 'bad-op' else f(o, last_ign)
        if c.kind.endswith('-aux'):
            c.model = None
            continue
        reconcile(c)
    return cases

# ------------------------------------------------------------------------------------------
CONV_LOG = []
CONV_NAMES = []
def make_vtconv(b):
    """a run-time plugin with one command per converter registered in commands.wrappers (bundled ones and
    those plugins added): spec [<converter>, 'owner'], so that for a caller who is not an owner the converter
    runs and the call is then refused.  Used as an oracle that converters have no privileged side effects."""
    from supybot import callbacks as cbs, commands, conf
    if CONV_NAMES:
        return
    extra = {'literal': ('literal', ['aa', 'bb']), 'checkcapability': ('checkCapability', 'vt.special'),
             'checkcapabilitybutignoreowner': ('checkCapabilityButIgnoreOwner', 'vt.strict'),
             'checkchannelcapability': ('checkChannelCapability', 'vtcap'), 'matches': ('matches', re.compile('x+'), 'no match')}
    conf.registerPlugin('VtConv')
    ns = {'__doc__': 'converter probes of the /verif harness', '__module__': 'VtConv'}
    for i, n in enumerate(sorted(commands.wrappers.keys())):
        def mk(n, i):
            def body(self, irc, msg, args, *a):
                CONV_LOG.append(n)
                irc.reply('vtconv %s ran' % n)
            body.__doc__ = 'probe of the %s converter' % n
            body.__name__ = 'cv%d' % i
            return body
        try:
            ns['cv%d' % i] = commands.wrap(mk(n, i), [extra.get(n.lower(), n), 'owner'], name='cv%d' % i)
            CONV_NAMES.append((i, n))
        except Exception:
            pass
    klass = type('VtConv', (cbs.Plugin,), ns)
    b.irc.addCallback(klass(b.irc))

def boot(ctx):
    plugs = PLUGINS_QUICK
    if ctx.thorough:
        pdir = os.path.join(bot.REPO, 'plugins') if hasattr(bot, 'REPO') else '/repo/plugins'
        plugs = PLUGINS_QUICK + sorted(n for n in os.listdir(pdir) if os.path.isfile(os.path.join(pdir, n, 'plugin.py')) and n not in PLUGINS_QUICK)
    b = bot.full(plugins=plugs + ['VtGate'], plugin_dirs=[os.path.join(HERE, 'plugins')], nick=NICK)
    bot.register_welcome(b)
    b.irc.feedMsg(b.ircmsgs.IrcMsg(':server 005 %s STATUSMSG=%s CHANTYPES=#& :are supported by this server' % (NICK, STATUSMSG)))
    bot.drain(b)
    install_shims(b)
    install_clock()
    w = setup_world(b)
    make_vtconv(b)
    # aliases used as wrappers, created by the owner through the real commands
    Obs.execute = None
    bot.feed(b, ROLES['owner'], NICK, 'aka add vtrun "$1 $*"')
    bot.feed(b, ROLES['owner'], NICK, 'aka add vtn "echo [$1 $*]"')
    bot.feed(b, ROLES['owner'], NICK, 'alias add vtrun2 "$1 $*"')
    return b, w

def run(ctx):
    build = leanbuild.ensure(PROPERTY, THEOREMS, thorough=ctx.thorough, extractors=['Commands', 'IrcDbCaps'])
    b, w = boot(ctx)
    if build.driver_ok:
        table, required = read_table(True)
    else:
        table, required = {}, required_fallback()
    try:
        clp = explore(ctx, b, w, table, required, 0)
    except Exception:
        # a refused command that nevertheless ran (say `unload`, `quit`) can wreck the bot under the rest of the
        # exploration: what was found up to there is still reported
        time.time = _real_time
        if PARTIAL and any(c.oracle_ok is False and c.finding is None for c in PARTIAL[0]):
            import traceback
            sys.stderr.write('exploration aborted after an oracle failure had been recorded:\n' + traceback.format_exc())
            cs, ls, ps = PARTIAL
            n = min(len(ls), len(ps))
            clp = (cs, ls[:n], ps[:n])
        else:
            raise
    cases = fill_model(clp) if build.driver_ok else clp[0]
    def search(disagreements, broken):
        # the oracle already ran on every case; anything it found is in `cases`
        return [c for c in cases if c.oracle_ok is False]
    return verdict.conclude(PROPERTY, ctx.tier, ctx.seed, build, cases, search=search, rule=RULE, finding_status=dict(FINDING_STATUS),
                            trusted_base=TRUSTED,
                            assumptions=['Python asserts enabled', 'default reply configuration (supybot.reply.error.noCapability off)',
                                         'single network; channel names use the default chantypes'],
                            extra=dict(EXTRA_EVIDENCE, plugins_loaded=list(b.loaded)), t0=ctx.t0)

def replay(ctx, path):
    """re-run the case of a replay file on the implementation and print what happens"""
    d = json.load(open(path))
    c = d.get('case') or d.get('first_disagreement')
    print(json.dumps(c, indent=1))
    if not c:
        print('broken obligations:', d.get('broken_obligations'))
        return 0
    inp = c['input']
    b, w = boot(ctx)
    Obs.execute = None
    if inp.get('op') == 'call':
        setup = tuple(inp['setup']) if inp.get('setup') else None
        if setup and setup[0] == 'sched':
            print('(scheduled replay: run ./check C01 to reproduce the firing; showing the direct call)')
            setup = None
        undo = apply_setup(b, setup)
        try:
            before = snapshot(b)
            out = deliver(b, inp['prefix'], inp['target'], inp['text'])
            changed = snap_diff(before, snapshot(b))
        finally:
            undo()
        print('implementation now: replies=%r' % [str(m).strip() for m in out])
        print('  _callCommand let through: %r' % (Obs.gate,))
        print('  command bodies that ran: %r' % (Obs.bodies,))
        print('  state changed: %r' % (changed,))
    elif inp.get('op') in ('config', 'ignore'):
        before = snapshot(b)
        out = deliver(b, inp['prefix'], inp['target'], inp['text'])
        print('implementation now: replies=%r bodies=%r changed=%r' % ([str(m).strip() for m in out], Obs.bodies, snap_diff(before, snapshot(b))))
    elif inp.get('op') == 'setdefaults':
        with contextlib.redirect_stdout(io.StringIO()):
            b.conf.supybot.capabilities.set(inp['value'])
        print('implementation now: supybot.capabilities = %r' % sorted(set.__iter__(b.conf.supybot.capabilities())))
    return 0
