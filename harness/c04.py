"""C04 — a sender is recognised as an account only via its own hostmasks or login.
Correspondence of lean/LimnoriaModel/C04/Model.lean with src/ircdb.py (a real UsersDictionary with
its two CacheDicts, IrcUser.checkHostmask/addAuth/clearAuth/addHostmask/removeHostmask, virtual
clock) on seeded operation histories — outcomes, user records and BOTH cache contents compared
after every history step — and of the glob matcher with ircutils.hostmaskPatternEqual; plus the
property statement evaluated on the implementation: every lookup answers what a cache-free
recomputation on a copy of the records answers, a recognised id really matches (pattern or live
login from the exact hostmask) and nobody else does, no literal overlap after an accepted setUser."""
import contextlib, copy, io, json, os, sys
from vlib import wire, rng, leanbuild, verdict, bot
from vlib.verdict import Case
from c03 import o_glob, o_lower, swapcase_irc

PROPERTY = 'C04'
MANIFEST = {
 'level_text': 'Lean 4 theorems about a model of ircdb.UsersDictionary (user records, hostmask sets, logins with timeout, _hostmaskCache and _nameCache with the CacheDict clear-when-full behaviour), kernel-checked: for every history of register / hostmask add / remove / identify / unidentify / changename / set secure / users.conf load / delUser / clock ticks / lookups, every lookup answers exactly what the cache-free, effect-free recomputation on the current records answers (invariant: a cached hostmask is matched by no other user, reverse entries are complete); an answer id is a user one of whose patterns globs the hostmask or who has an unexpired login from exactly that hostmask, and no second user matches; a secure account needs a pattern; two accounts never own masks with a hostmask in common (invariant of every history; the overlap test hostmaskPatternsIntersect is proved complete and sound); the glob matcher equals a declarative match relation and is invariant under IRC case folding. The register / identify / unidentify / hostmask add / hostmask remove (incl. all) / set secure / changename / whoami commands of the User plugin (converters and guards, password test as a parameter) are modelled on top: no dictionary operation but identify creates a login, the plugin runs identify only after the password test of the account for the exact sender, NICK messages are modelled too (Irc.doNick under supybot.followIdentificationThroughNickChanges, IrcState.doNick): the one other writer of login entries moves a login only from the hostmask of the NICK sender (IRC case rules) to that sender with the new nick. Hence every login entry in every reachable state goes back to an identify WITH THE PASSWORD (ghost log) from that exact hostmask — or, only when the option is on, from a hostmask that the server NICK messages turned into it, each sent by exactly the hostmask reached so far — and a recognised sender matches a registered mask or holds such a login within the timeout. Account names in every reachable state do not look like hostmasks and are pairwise different (ASCII case-insensitively, as getUserId compares them), so a name resolves to the one account that has it (register and changename look the name up first and refuse hostmask-like names; nothing else touches a name). Every command is processed as the live bot does: the sender is remembered, and the lookups of the sender that the bot itself makes before and after (any number) are part of the step; a sender matching two accounts gets nothing executed. The table-like constants (cache size, unWildcard set, minimum, the hostmask regexp shape, rfc1459 table) are re-extracted from /repo on every run; the model is tied to src/ircdb.py / src/ircutils.py by a differential run that compares outcomes, records and both caches, and evaluates the property statement on the implementation.',
 'level_note': 'Trusted: Lean kernel; axioms propext/Classical.choice/Quot.sound only; the extractors; the correspondence harness. Modelled and proved: getUserId (both paths, cache hit re-validation, duplicate removal incl. the removeHostmask(True) quirk), getUser, setUser, delUser, newUser, invalidateCache, checkHostmask, addAuth, clearAuth, addHostmask, removeHostmask, the plugin call sequences as operations, glob matcher, isUserHostmask. Also inside: the per-message lookups of the sender that the bot makes around a command (counts measured on the live bot, theorems hold for any counts), the nick fallback of the otherUser converter, hostmask remove all, changename to names that look like hostmasks, Irc.doNick login following (with the pruning scan that the preceding lookup runs on the login list, and setUser inside the loop). Not modelled: lazy physical removal of expired logins elsewhere (unobservable: every other read filters by liveness; harness compares live logins; before IrcUser.clearAuth() alone, whose cache invalidations go by the entries physically left, the harness reports them and the model accepts only expired entries as gone — Op.pruned); the salted password hash (a parameter pwOk of the plugin model; the driver instantiates it with equality of the secrets, the harness uses the real salted hashes of the bot); str.lower() of account names outside ASCII (hostmask matching is ASCII-only case-insensitive since the re.A repair and modelled exactly for all of Unicode); NICK messages whose prefix is not nick!user@host. The former finding (masks with a common instance accepted) is repaired: setUser uses hostmaskPatternsIntersect, proved complete and sound, and no history leaves two accounts with overlapping masks.',
 'technique': 'Lean 4 proof (state-machine invariant over operation histories, refinement to the cache-free lookup) + constant extraction + differential correspondence incl. cache contents',
 'design_ref': 'DESIGN.md §6 C04',
}
THEOREMS = ['C04.cache_transparent', 'C04.getUserId_sound', 'C04.getUserId_unique', 'C04.recognise_secure',
            'C04.setUser_no_literal_overlap', 'C04.setUser_no_common_instance', 'C04.semantic_overlap_refused',
            'C04.intersect_complete', 'C04.intersect_sound', 'C04.step_noCommon', 'C04.no_overlapping_masks',
            'C04.two_pattern_matches_same_account', 'C04.plugin_no_overlapping_masks', 'C04.inv_step', 'C04.inv_run',
            'C04.reachable_step', 'C04.getUserId_agrees', 'C04.revOK_reachable', 'C04.checkCapability_cache_free',
            'C04.glob_iff_matches', 'C04.glob_case', 'C04.patCharMatch_eq_cls',
            # the User plugin: logins are backed by the account's password
            'C04.step_auth', 'C04.guard_identify', 'C04.pstep_pinv', 'C04.auth_backed_by_password',
            'C04.recognised_by_mask_or_password', 'C04.addAuth_secure', 'C04.pstepA_pinv',
            'C04.ambiguous_sender_runs_nothing',
            # NICK messages: Irc.doNick moves a login only from the NICK sender to that sender's new hostmask
            'C04.guard_not_follow', 'C04.nickStep_pinv', 'C04.estep_pinv', 'C04.followed_nick_only',
            # account names: never hostmask-like, pairwise different; a name resolves to the one account that has it
            'C04.guard_names', 'C04.step_sig_same', 'C04.account_names_unique', 'C04.name_resolves_to_the_account',
            # obligation on the extracted case table
            'C04.rfc1459_table_classes', 'C03.rfc1459_table_ok']
TRUSTED = ['Lean 4.33.0 kernel; axioms ⊆ {propext, Classical.choice, Quot.sound}',
           'harness/extractors/ircdb_users.py, ircdb_caps.py (cache size, CacheDict.__setitem__ shape, unWildcard set, hostmask regexp shape, rfc1459 table)',
           'harness/c04.py generators, canonicalisation (sorted sets, live logins only) and oracles; hex line protocol',
           'Python asserts enabled; the clock does not run backwards; timeoutIdentification fixed within a history',
           're.I and str.lower() agree with the ASCII model on generated strings']
RULE = ('history = reset(timeout), then 5–60 operations over ≤5 accounts drawn from: register, hostmask add/remove, identify, unidentify, '
        'IrcUser.clearAuth() on its own (logout), changename, set secure, users.conf-style load, delUser, tick(dt around the timeout, with '
        'timeoutIdentification 0 — the default — in two histories of five), lookup (right after every login and every logout; hostmasks and names, repeated to warm '
        'the caches), each followed by the enumeration order of changed hostmask sets and periodically by a dump (records + both caches). '
        'A plugin stream drives the REAL User plugin on the live bot (register, identify with right/wrong passwords from recognised/'
        'unrecognised/secure senders, unidentify, hostmask add/remove, set secure, whoami, ticks): reply kind, records and the ghost log of '
        'password-backed identifications AND both caches are compared with the model after every command, including the lookups of the '
        'sender that the bot itself makes around each command (a sender matching two accounts: dispatch abandoned, masks deleted), the nick '
        'fallback of otherUser, hostmask remove all, changename to hostmask-like names; NICK messages from seen and unseen clients with '
        'supybot.followIdentificationThroughNickChanges on (half of the histories) or off — Irc.doNick moving logins, IrcState.doNick the '
        'nick table. '
        'Non-trivial = the history contains a cache hit after an edit, a duplicate, an expiry, a rollback or a rejection; distinct = distinct '
        'operation list. Streams: hist, hostile (hostmask-like names, line breaks, odd masks), overflow (>1000 distinct lookups), '
        'glob (pattern/hostmask pairs), corpus/finding witnesses first.')

# =====================================================================================
# implementation side
# =====================================================================================
class Clock(object):
    def __init__(self): self.now = 0
    def time(self): return float(self.now)

class Impl(object):
    def __init__(self):
        self.b = bot.full()                      # Owner, Misc, User, … : the plugin stream drives the real User plugin
        bot.register_welcome(self.b)
        self.ircdb = self.b.ircdb; self.conf = self.b.conf; self.ircutils = self.b.ircutils
        self.clock = Clock()
        self.ircdb.time = self.clock
        # the bot's own dictionary (checkCapability's default argument and the plugins are bound to it)
        self.U = self.ircdb.users
        self.U.filename = None                   # no users.conf writes
        self.timeout = 0
        # observe (not alter) lookups: which strings made getUserId raise for two matching accounts
        self.dup_lookups = []
        orig = self.ircdb.UsersDictionary.getUserId
        impl = self
        def watched(ud, s):
            try:
                return orig(ud, s)
            except impl.ircdb.DuplicateHostmask:
                impl.dup_lookups.append(s); raise
            except KeyError as e:
                if e.args and isinstance(e.args[0], impl.ircutils.IrcString):
                    impl.dup_lookups.append(s)
                raise
        self.ircdb.UsersDictionary.getUserId = watched
        # observe (not alter) Irc.doNick: did an exception escape it (feedMsg's firewall logs and swallows it)?
        self.nick_exc = None
        origN = self.b.irclib.Irc.doNick
        def watchedN(irc, msg):
            try:
                return origN(irc, msg)
            except Exception as e:
                impl.nick_exc = e; raise
        self.b.irclib.Irc.doNick = watchedN

    def set_follow(self, b):
        self.conf.supybot.followIdentificationThroughNickChanges.setValue(bool(b))

    def nick(self, p, nn):
        """the server says: `p` is now known as `nn`"""
        self.nick_exc = None
        self.b.irc.feedMsg(self.b.ircmsgs.IrcMsg(prefix=p, command='NICK', args=(nn,)))
        bot.drain(self.b)
        return 'generic' if self.nick_exc is not None else 'silent'

    def ambient(self):
        """how many times the bot looks the sender up around a command with this set of plugins: measured once"""
        if getattr(self, '_amb', None) is None:
            calls = []
            cur = self.ircdb.UsersDictionary.getUserId
            def counting(ud, s):
                calls.append(s); return cur(ud, s)
            self.ircdb.UsersDictionary.getUserId = counting
            try:
                bot.feed(self.b, 'cal!cal@cal.example', self.b.irc.nick, 'user identify nosuchaccount x')
            finally:
                self.ircdb.UsersDictionary.getUserId = cur
            i = calls.index('nosuchaccount')
            pre, post = i, len(calls) - i - 1
            # the first two are checkIgnored in Owner.__call__ / Owner.doPrivmsg (DuplicateHostmask escapes),
            # the others go through ircdb.checkCapability (which swallows it)
            self._amb = (2, pre - 2, post)
            self.b.irc.state.nicksToHostmasks.clear()
        return self._amb

    def err(self, e):
        if isinstance(e, AssertionError): return 'err\tassertion'
        if isinstance(e, KeyError): return 'err\tkey'
        if isinstance(e, ValueError): return 'err\tvalue'      # incl. DuplicateHostmask
        return 'err\t' + type(e).__name__

    def reset(self, timeout):
        U = self.U
        U.users.clear(); U.nextId = 0; U._nameCache.clear(); U._hostmaskCache.clear()
        self.ircdb.users = U
        self.conf.supybot.databases.users.timeoutIdentification.setValue(timeout)
        with contextlib.redirect_stdout(io.StringIO()):
            self.conf.supybot.capabilities.setValue(list(self.conf.supybot.capabilities._default))
        self.conf.supybot.capabilities.registeredUsers.setValue([])
        self.conf.supybot.capabilities.default.setValue(True)
        self.ircdb.channels.channels.clear()
        self.timeout = timeout
        self.clock.now = 0
        self.set_follow(False)

    def live_auth(self, u):
        t = self.timeout; now = self.clock.now
        return [(int(w), m) for (w, m) in u.auth if not (t and w + t < now)]

    def dump(self):
        def S(xs):
            xs = sorted(wire.enc(str(x)) for x in xs)
            return ','.join(xs) if xs else '-'
        def J(sep, xs):
            xs = sorted(xs)
            return sep.join(xs) if xs else '-'
        U = self.U
        us = ['%d:%s:%d:%s:%s' % (i, wire.enc(u.name), u.secure, S(u.hostmasks),
                                  J(',', ['%d.%s' % (w, wire.enc(m)) for (w, m) in self.live_auth(u)]))
              for i, u in U.users.items()]
        hf = ['%s:%d' % (wire.enc(k), v) for k, v in U._hostmaskCache.items() if isinstance(k, str)]
        hr = ['%d:%s' % (k, S(v)) for k, v in U._hostmaskCache.items() if not isinstance(k, str)]
        nf = ['%s:%d' % (wire.enc(k), v) for k, v in U._nameCache.items() if isinstance(k, str)]
        nr = ['%d:%s' % (k, wire.enc(v)) for k, v in U._nameCache.items() if not isinstance(k, str)]
        return 'U=%s|HF=%s|HR=%s|NF=%s|NR=%s|N=%d' % (J(';', us), J(',', hf), J(';', hr), J(',', nf), J(',', nr), U.nextId)

    def unit(self, f, *a, **kw):
        try:
            f(*a, **kw)
            return 'ok'
        except Exception as e:
            return self.err(e)

    def run(self, op):
        try:
            return self._run(op)
        except Exception as e:        # anything the sequence lets escape is the operation's outcome
            return self.err(e)

    def _run(self, op):
        U = self.U; ircdb = self.ircdb
        k = op[0]
        if k == 'reset':
            self.reset(op[1]); return 'ok'
        if k == 'tick':
            self.clock.now += op[1]; return 'ok'
        if k == 'dump':
            return self.dump()
        if k == 'lookup':
            try:
                return 'id\t%d' % U.getUserId(op[1])
            except Exception as e:
                return self.err(e)
        if k == 'register':
            name, h = op[1], op[2]
            if '\n' in name or '\r' in name:
                return 'err\tvalue'
            u = U.newUser()
            try:
                u.name = name
                if h is not None:
                    u.addHostmask(h)
                U.setUser(u)
                return 'ok'
            except Exception as e:             # as the plugin does: no half-made account stays behind
                U.delUser(u.id)
                return self.err(e)
        if k == 'load':
            # one record of users.conf through the real reader callbacks (IrcUserCreator: user / name / secure / hostmask
            # lines, then finish(), which is where a record whose masks collide is stripped of them)
            ircdb.IrcUserCreator.u = None            # class-level scratch record of the creator
            cr = ircdb.IrcUserCreator(U)
            try:
                cr.user(str(op[1]), 1); cr.name(op[2], 2); cr.secure(repr(bool(op[3])), 3)
                for n_, m in enumerate(op[4]):
                    cr.hostmask(m, 4 + n_)
                cr.finish()
                return 'ok'
            finally:
                ircdb.IrcUserCreator.u = None
        if k == 'deluser':
            return self.unit(U.delUser, op[1])
        u = U.users.get(op[1])
        if u is None:
            return 'nouser'
        if k == 'addhost':
            try:
                u.addHostmask(op[2])
            except Exception as e:
                return self.err(e)
            try:
                U.setUser(u); return 'ok'
            except ValueError:
                try:
                    u.removeHostmask(op[2]); return 'rolledback'
                except Exception as e:
                    return self.err(e)
        if k == 'rmhost':
            try:
                u.removeHostmask(op[2])
            except Exception as e:
                return self.err(e)
            return self.unit(U.setUser, u)
        if k == 'identify':
            try:
                u.addAuth(op[2])
            except Exception as e:
                return self.err(e)
            return self.unit(U.setUser, u, flush=False)
        if k == 'unidentify':
            u.clearAuth()
            return self.unit(U.setUser, u)
        if k == 'logout':
            # IrcUser.clearAuth() on its own: the method invalidates the cached lookups of its logins itself
            return self.unit(u.clearAuth)
        if k == 'rename':
            try:
                U.getUserId(op[2]); return 'exists'
            except KeyError:
                pass
            except Exception as e:
                return self.err(e)
            if '\n' in op[2] or '\r' in op[2]:
                return 'err\tvalue'
            u.name = op[2]
            return self.unit(U.setUser, u)
        if k == 'secure':
            u.secure = bool(op[2])
            return self.unit(U.setUser, u)
        raise ValueError('unknown op %r' % (op,))

    # ---- the property oracle's cache-free recomputation ------------------------------
    def fresh_copy(self):
        V = self.ircdb.UsersDictionary()
        for i, u in self.U.users.items():
            c = self.ircdb.IrcUser(name=u.name, secure=u.secure, ignore=u.ignore)
            c.id = i
            c.hostmasks = self.ircutils.IrcSet(list(u.hostmasks))
            c.auth = list(u.auth)
            V.users[i] = c
        V.nextId = self.U.nextId
        return V

    def cachefree(self, s):
        V = self.fresh_copy()
        save = self.ircdb.users
        self.ircdb.users = V
        try:
            try:
                return 'id\t%d' % V.getUserId(s)
            except self.ircdb.DuplicateHostmask:
                return 'dup'
            except KeyError as e:
                # getUserId raises KeyError(<plain str>); the duplicate-removal loop's removeHostmask(True)
                # raises KeyError(IrcString('True')) out of the set
                return 'dup' if (e.args and isinstance(e.args[0], self.ircutils.IrcString)) else 'err\tkey'
            except Exception as e:
                return self.err(e)
        finally:
            self.ircdb.users = save

def wire_line(op):
    k = op[0]; E = wire.enc
    if k == 'reset': return 'reset\t%d' % op[1]
    if k == 'tick': return 'tick\t%d' % op[1]
    if k == 'dump': return 'dump'
    if k == 'lookup': return 'lookup\t' + E(op[1])
    if k == 'register': return 'register\t%s\t%s' % (E(op[1]), wire.enc_opt(op[2]))
    if k == 'load': return 'load\t%d\t%s\t%d\t%s' % (op[1], E(op[2]), op[3], wire.enc_list(op[4]))
    if k == 'deluser': return 'deluser\t%d' % op[1]
    if k in ('addhost', 'rmhost', 'identify', 'rename'): return '%s\t%d\t%s' % (k, op[1], E(op[2]))
    if k in ('unidentify', 'logout'): return '%s\t%d' % (k, op[1])
    if k == 'secure': return 'secure\t%d\t%d' % (op[1], op[2])
    if k == 'order': return 'order\t%d\t%s' % (op[1], wire.enc_list(op[2]))
    raise ValueError(op)

# =====================================================================================
# generators
# =====================================================================================
NAMES = ['alice', 'bob', 'carol', 'dave', 'Erin', 'frank', 'ALICE', 'x[y]', 'x{y}']
PATS = ['alice!*@*', 'al*!*@*.example', 'a?ice!u@h', 'bob!*@host', '*!*@bobs.host', 'b[o]b!*@*', '*!carol@*', 'carol!*@*',
        '*!*@trusted.host', 'dave!d@*', 'erin!*@*', '*!*@*.example', 'fr{nk!*@*', 'frank!f@h?st', 'a*!*@*', '*b!*@*', 'ALICE!*@*',
        'n[1]!*@*', 'N{1}!*@*', '*!*@*', 'x!y@z', '?*!?*@?*', 'b\\b!~u@h^', 'B|B!^u@H~']
HOSTS = ['alice!u@h', 'ALICE!U@H', 'alice!x@a.example', 'bob!x@host', 'bob!x@bobs.host', 'b{o}b!q@r', 'zed!carol@z', 'carol!carol@x',
         'dave!d@trusted.host', 'erin!e@e', 'x!y@z.example', 'fr[nk!a@b', 'frank!f@host', 'frank!f@hxst', 'zed!z@z', 'ab!x@y',
         'alice!x@trusted.host', 'n[1]!a@b', 'n{1}!a@b', 'x!y@z', 'b|b!^u@h~', 'B\\B!~U@H^']
ODD = ['', 'a', 'a!b', 'a@b', '!b@c', 'a!@c', 'a!b@', 'a!b@c\n', 'a !b@c', 'a!b@c d', '*!*@*', 'ab!*@*', 'True', 'true!x@y', 'x\ny', 'a!b@c\r']

def gen_history(r, hostile=False):
    timeout = r.choice([0, 0, 10, 60, -5])
    ops = [('reset', timeout)]
    n = r.randint(5, 60)
    ids = []          # ids believed to exist (1.. in registration order)
    nxt = 0
    def someid():
        return r.choice(ids) if ids and r.random() < 0.93 else r.randint(1, 7)
    def host():
        h = r.choice(HOSTS)
        if hostile and r.random() < 0.15: h = r.choice(ODD)
        return h
    def pat():
        p = r.choice(PATS) if r.random() < 0.8 else r.choice(HOSTS)
        if r.random() < 0.15: p = swapcase_irc(r, p)
        if hostile and r.random() < 0.2: p = r.choice(ODD)
        return p
    def name():
        nm = r.choice(NAMES)
        if hostile and r.random() < 0.25: nm = r.choice(ODD + HOSTS[:4])
        return nm
    recent = []
    logins = {}
    for _ in range(n):
        x = r.random()
        if x < 0.12 or not ids:
            h = r.choice([None, host(), host(), pat()])
            ops.append(('register', name(), h)); nxt += 1; ids.append(nxt)
        elif x < 0.24:
            ops.append(('addhost', someid(), pat()))
        elif x < 0.29:
            ops.append(('rmhost', someid(), pat()))
        elif x < 0.41:
            h = host(); recent.append(h); i = someid()
            ops.append(('identify', i, h)); logins.setdefault(i, []).append(h)
            if r.random() < 0.5:
                ops.append(('lookup', h))            # recognised while logged in: the answer is cached
        elif x < 0.47:
            i = r.choice(sorted(logins)) if logins and r.random() < 0.8 else someid()
            ops.append((r.choice(['unidentify', 'logout', 'logout']), i))
            # … and asked again right after the logout (with timeoutIdentification 0, the default, as with any other)
            for h in logins.pop(i, [])[-2:]:
                ops.append(('lookup', h))
        elif x < 0.50:
            ops.append(('rename', someid(), name()))
        elif x < 0.53:
            ops.append(('secure', someid(), r.randint(0, 1)))
        elif x < 0.57:
            i = r.choice([someid(), nxt + 1])
            if i == nxt + 1: nxt += 1; ids.append(nxt)
            ops.append(('load', i, name() or 'anon', r.randint(0, 1), [pat() for _ in range(r.randint(0, 3))]))
        elif x < 0.60:
            i = someid(); ops.append(('deluser', i))
            if i in ids and r.random() < 0.9: ids.remove(i)
        elif x < 0.68:
            ops.append(('tick', r.choice([0, 1, 5, 9, 10, 11, 30, 59, 60, 61, 100])))
        else:
            s = r.choice(recent) if recent and r.random() < 0.3 else (host() if r.random() < 0.8 else name())
            recent.append(s)
            ops.append(('lookup', s))
            if r.random() < 0.4:
                ops.append(('lookup', s))        # warm hit
        if r.random() < 0.15:
            ops.append(('dump',))
    ops.append(('dump',))
    return ops

# logouts: asked again right after (seeded C03-r3m1), a repeated login is dated anew (C04-r3m1), a logout after the cache
# has turned over (C04-r3m5)
def logout_corpus():
    yield [('reset', 0), ('register', 'alice', None), ('identify', 1, 'zed!z@z'), ('lookup', 'zed!z@z'), ('lookup', 'zed!z@z'),
           ('logout', 1), ('lookup', 'zed!z@z'), ('identify', 1, 'zed!z@z'), ('lookup', 'zed!z@z'), ('unidentify', 1), ('lookup', 'zed!z@z'), ('dump',)]
    yield [('reset', 10), ('register', 'alice', None), ('identify', 1, 'zed!z@z'), ('tick', 8), ('identify', 1, 'zed!z@z'), ('tick', 5),
           ('lookup', 'zed!z@z'), ('tick', 6), ('lookup', 'zed!z@z'), ('dump',)]
    # logins A@0, B@4, A again@8 with timeout 10: at t=16 B's login is over although A's, renewed, is not (seeded C04-r2m2)
    yield [('reset', 10), ('register', 'alice', None), ('identify', 1, 'alice!u@h'), ('tick', 4), ('identify', 1, 'zed!z@z'), ('tick', 4),
           ('identify', 1, 'alice!u@h'), ('lookup', 'zed!z@z'), ('tick', 8), ('lookup', 'zed!z@z'), ('lookup', 'alice!u@h'), ('dump',),
           ('tick', 3), ('lookup', 'alice!u@h'), ('dump',)]
    # users.conf with two accounts whose masks have a hostmask in common (seeded C04-r4m3): the later one loses its masks
    yield [('reset', 0), ('load', 1, 'ann', 0, ['ann*!*@*.example']), ('load', 2, 'bea', 0, ['*bea!*@*.example', 'bea!*@home']),
           ('dump',), ('lookup', 'annbea!x@y.example'), ('lookup', 'bea!b@home'), ('load', 3, 'cat', 0, ['ANN*!*@*']), ('lookup', 'annie!a@b'), ('dump',)]
    # two logins of one account cached far apart, then enough other senders that a cache which gave up entries one by one
    # would have dropped the older login's entry and the account's reverse entry but not the younger login's
    ops = [('reset', 0), ('register', 'pool', '*!*@*.pool.example'), ('register', 'alice', None),
           ('identify', 2, 'alice!a@laptop.example'), ('identify', 2, 'alice_m!mob@phone.example'), ('lookup', 'alice!a@laptop.example')]
    ops += [('lookup', 'n%d!u@h%d.pool.example' % (i, i)) for i in range(400)]
    ops += [('lookup', 'alice_m!mob@phone.example')]
    ops += [('lookup', 'm%d!u@h%d.pool.example' % (i, i)) for i in range(620)]
    ops += [('dump',), ('unidentify', 2), ('lookup', 'alice!a@laptop.example'), ('lookup', 'alice_m!mob@phone.example'), ('dump',)]
    yield ops

def gen_overflow(r):
    """>1000 distinct lookups so that both CacheDicts empty themselves, interleaved with edits"""
    ops = [('reset', 0), ('register', 'alice', 'a!*@*'), ('register', 'bob', '*!*@b.example'), ('register', 'carol', None)]
    k = r.randint(0, 40)
    for i in range(1040 + k):
        if i % 2: ops.append(('lookup', 'a!u%d@h' % i))
        else: ops.append(('lookup', 'n%d!u@b.example' % i))
        if i in (500, 995, 998, 999, 1000, 1001, 1003, 1030):
            ops.append(('dump',))
        if i in (997, 1002):
            ops.append(('lookup', 'alice')); ops.append(('lookup', 'BOB'))
        if i == 999 + (k % 5):
            ops.append(('addhost', 1, 'zz!*@*')); ops.append(('rename', 2, 'robert')); ops.append(('lookup', 'bob')); ops.append(('deluser', 3))
    ops.append(('dump',))
    return ops

FORMER_FINDING = [('reset', 0), ('register', 'ann', 'ann*!*@*'), ('register', 'bea', '*bea!*@*'), ('dump',), ('lookup', 'annbea!x@y'), ('dump',)]

# =====================================================================================
def semantic_overlap(impl):
    """two different accounts own masks with a hostmask in common"""
    us = list(impl.U.users.items())
    for a in range(len(us)):
        for b_ in range(a + 1, len(us)):
            for p in us[a][1].hostmasks:
                for q in us[b_][1].hostmasks:
                    p, q = str(p), str(q)
                    if clean(p) and clean(q) and o_inter(p, q):
                        return (us[a][0], p, us[b_][0], q)
    return None

def literal_overlap(impl, uid):
    U = impl.U
    u = U.users.get(uid)
    if u is None: return None
    for p in u.hostmasks:
        for j, v in U.users.items():
            if j == uid: continue
            for q in v.hostmasks:
                if o_glob(str(p), str(q)) or o_glob(str(q), str(p)):
                    return (uid, str(p), j, str(q))
    return None

def clean(s):
    return '\n' not in s and '\r' not in s

def o_inter(p, q, memo=None):
    """do the patterns p and q have a hostmask in common?  (written from the meaning: a common string
    is built character by character; independent of ircutils)"""
    memo = {} if memo is None else memo
    key = (len(p), len(q))
    if key in memo: return memo[key]
    memo[key] = False                      # cut cycles of empty moves
    if not p and not q: r = True
    else:
        r = False
        if p and p[0] == '*': r = r or o_inter(p[1:], q, memo)
        if q and q[0] == '*': r = r or o_inter(p, q[1:], memo)
        if not r and p and q and not (p[0] == '*' and q[0] == '*'):
            a, b = p[0], q[0]
            compatible = a in '*?' or b in '*?' or o_lower(a) == o_lower(b)
            if compatible:
                r = o_inter(p if a == '*' else p[1:], q if b == '*' else q[1:], memo)
    memo[key] = r
    return r

def o_is_hostmask(s):
    """nick!user@host with three non-empty blank-free parts (written from the statement, no regexp)"""
    if not s or any(c.isspace() for c in s):
        return False
    return any(s[i] == '!' and any(s[j] == '@' for j in range(i + 2, len(s) - 1)) for i in range(1, len(s)))

def run_history(impl, ops, kind, oracle=True):
    outs = []; lines = []; tags = set(); trace = []
    ok = True; msg = ''; finding = None; sowit = None
    def fail(m):
        nonlocal ok, msg
        if ok: ok = False; msg = m
    seen_edit_since = {}
    looked = set()
    order_known = {}
    for idx, op in enumerate(ops):
        k = op[0]
        pre = None
        if k == 'lookup' and oracle:
            pre = impl.cachefree(op[1])
        if k == 'logout' and impl.U.users.get(op[1]) is not None:
            # which logins the account still holds physically (expired ones are dropped lazily; the model accepts
            # only expired entries as gone): clearAuth invalidates the cache for exactly these
            raw = [(int(w), m) for (w, m) in impl.U.users[op[1]].auth]
            lines.append('pruned\t%d\t%s\t%s' % (op[1], ','.join(str(w) for (w, m) in raw) or '-', wire.enc_list([m for (w, m) in raw])))
            outs.append('ok')
        out = impl.run(op)
        outs.append(out); lines.append(wire_line(op))
        trace.append('%3d %-70s -> %s' % (idx, repr(op)[:70], out.replace('\t', ' ')))
        if k == 'reset':
            order_known = {}; looked = set()
        # report the enumeration order of every hostmask set that has two or more elements
        if k not in ('dump', 'tick', 'reset'):
            for i, u in impl.U.users.items():
                cur = [str(x) for x in u.hostmasks]
                if len(cur) >= 2 and (k != 'lookup' or order_known.get(i) != cur):
                    lines.append(wire_line(('order', i, cur))); outs.append('ok')
                order_known[i] = cur
        if k == 'lookup':
            s = op[1]
            got = out if out.startswith('id') else ('dup' if out == 'err\tvalue' else out)
            if out == 'err\tkey' and pre == 'dup':
                got = 'dup'        # KeyError(True) from the duplicate-removal loop
            if s in looked: tags.add('repeat-lookup')
            looked.add(s)
            if out.startswith('id'): tags.add('found')
            if out == 'err\tvalue': tags.add('duplicate')
            if oracle:
                if pre != got:
                    fail('op %d: getUserId(%r) answered %s; a cache-free recomputation on a copy of the same records answers %s'
                         % (idx, s, out.replace('\t', ' '), pre.replace('\t', ' ')))
                if out.startswith('id') and o_is_hostmask(s):
                    uid = int(out.split('\t')[1]); u = impl.U.users.get(uid)
                    if u is None:
                        fail('op %d: getUserId(%r) answered id %d which is not in the database' % (idx, s, uid))
                    else:
                        def matches(v):
                            return any(o_glob(str(p), s) for p in v.hostmasks if clean(str(p))) or any(m == s for (w, m) in impl.live_auth(v))
                        if not matches(u):
                            fail('op %d: %r resolved to user %d (%s) who has neither a matching mask nor a live login from exactly that hostmask' % (idx, s, uid, u.name))
                        others = [j for j, v in impl.U.users.items() if j != uid and matches(v)]
                        if others:
                            fail('op %d: %r resolved to user %d although user(s) %r match it as well' % (idx, s, uid, others))
        if oracle and k in ('unidentify', 'logout') and out != 'nouser':
            u = impl.U.users.get(op[1])
            if u is not None and u.auth:
                fail('op %d: after %s (%s) account %d still holds the logins %r' % (idx, k, out.replace('\t', ' '), op[1], [(int(w), m) for (w, m) in u.auth]))
        if k == 'lookup':
            pass
        elif k in ('register', 'addhost', 'load', 'rmhost', 'identify', 'unidentify', 'logout', 'rename', 'secure') and out == 'ok':
            looked = set()
            tags.add(k)
            if oracle and k == 'identify':
                u = impl.U.users.get(op[1])
                if u is not None and impl.timeout >= 0 and (impl.clock.now, op[2]) not in [(int(w), m) for (w, m) in u.auth]:   # (a negative timeout expires every login at once)
                    fail('op %d: identify at time %d was accepted, but the login from %r is dated %r'
                         % (idx, impl.clock.now, op[2], [int(w) for (w, m) in u.auth if m == op[2]]))
                if u is not None and u.secure and clean(op[2]) and not any(o_glob(str(m), op[2]) for m in u.hostmasks if clean(str(m))):
                    fail('op %d: the secure account %d accepted a login from %r, which matches none of its registered masks' % (idx, op[1], op[2]))
            if oracle and k in ('register', 'addhost', 'load'):
                uid = op[1] if k != 'register' else impl.U.nextId
                lo = literal_overlap(impl, uid)
                if lo and all(clean(x) for x in (lo[1], lo[3])):
                    fail('op %d: after the accepted %s user %d owns %r and user %d owns %r: one matches the other as a literal string' % ((idx, k) + lo))
        elif out in ('rolledback', 'exists') or out.startswith('err'):
            tags.add('rejected:' + k)
        if oracle and k not in ('dump', 'tick', 'reset', 'lookup'):
            so = semantic_overlap(impl)
            if so:
                fail('op %d %r: account %d owns %r and account %d owns %r: some hostmask matches both' % ((idx, op) + so))
        if k == 'tick' and op[1] > 0 and impl.timeout:
            tags.add('tick')
    inp = {'ops': [list(o) for o in ops]}
    if kind == 'replay':
        inp['trace'] = trace
    c = Case(inp, impl='\n'.join(outs), oracle_ok=ok, oracle_msg=msg, tags=sorted(tags), kind=kind)
    return c, lines


# ---- plugin stream: the real User plugin on the live bot -----------------------------------
P_PREF = ['na!ua@home.alice.example', 'nm!um@dyn7.isp.example', 'nb!ub@b.example', 'nc!uc@dyn9.isp.example', 'nd!ud@d.example']
P_NAMES = ['alice', 'bobby', 'carol', 'Alice', 'na', 'NM', 'all']
P_MASKS = ['*!*@*.isp.example', '*!*@home.alice.example', 'n?!*@*.example', 'nm!*@*.example', '*!ua@*', 'nb!ub@b.example',
           '*!*@dyn?.isp.example', 'NM!UM@DYN7.ISP.EXAMPLE', 'n{!*@*.example', '*!*@*', 'nq!*@*']
P_PWS = ['pw1', 'pw2', 'wrong']
# other clients that carry a nick of P_PREF, and the nicks the server announces
P_TWINS = ['na!ux@cafe.example', 'NA!ua@home.alice.example', 'nm!um@dyn8.isp.example', 'nk!uk@relay@host.example', 'nk!!uk@host.example']
# names that are user hostmasks (nick!user@host with separators inside the parts too): refused as account names
P_HMNAMES = ['x!y@z', 'nk!uk@relay@host.example', 'nk!!uk@host.example', 'a!b!c@d']
P_NICKS = ['na', 'nz', 'NM', 'nb', 'n{', 'n[']

def classify(texts):
    t = ' '.join(texts)
    if not texts: return 'silent'
    if t.startswith('The operation succeeded') or t.startswith('Secure flag set to'): return 'success'
    if "doesn't match or your password is wrong" in t: return 'incorrectAuth'
    if 'You must be registered to use this command' in t: return 'notRegistered'
    if "in my user database" in t: return 'noUser'
    if 'Your secure flag is true' in t: return 'secureError'
    if 'Your hostmask is already registered to' in t or 'That hostmask is already registered' in t: return 'hostmaskTaken'
    if 'That name is already assigned' in t or 'is already registered.' in t: return 'nameTaken'
    if 'Hostmask must contain at least' in t: return 'invalidMask'
    if 'is not a valid' in t: return 'invalid'
    if 'There was no such hostmask' in t: return 'noSuchHostmask'
    if 'An error has occurred and has been logged' in t: return 'generic'
    if t.startswith('(\x02user '): return 'usage'
    if "I don't recognize you" in t: return 'stranger'
    if t.startswith('Error:'): return 'other-error\t' + t[:60]
    return 'iam\t' + wire.enc(t)

def p_text(c):
    # an argument with a bracket is quoted: unquoted, `[` opens a nested command
    c = tuple(('"%s"' % x) if isinstance(x, str) and i >= 2 and ('[' in x or ']' in x) else x for i, x in enumerate(c))
    k = c[0]
    if k == 'p_register': return 'user register %s %s' % (c[2], c[3])
    if k == 'p_identify': return 'user identify %s %s' % (c[2], c[3])
    if k == 'p_unidentify': return 'user unidentify'
    if k == 'p_hostadd': return 'user hostmask add %s' % (c[3] if c[2] is None else '%s %s %s' % (c[2], c[3], c[4]))
    if k == 'p_hostrm': return 'user hostmask remove %s' % (c[3] if c[2] is None else '%s %s %s' % (c[2], c[3], c[4]))
    if k == 'p_secure': return 'user set secure %s %s' % (c[2], 'True' if c[3] else 'False')
    if k == 'p_whoami': return 'user whoami'
    if k == 'p_changename': return 'user changename %s %s %s' % (c[2], c[3], c[4])
    raise ValueError(c)

def p_wire(c):
    k = c[0]; E = wire.enc
    if k == 'reset': return 'reset\t%d' % c[1]
    if k == 'p_tick': return 'p_tick\t%d' % c[1]
    if k in ('p_register', 'p_identify'): return '%s\t%s\t%s\t%s' % (k, E(c[1]), E(c[2]), E(c[3]))
    if k in ('p_unidentify', 'p_whoami'): return '%s\t%s' % (k, E(c[1]))
    if k in ('p_hostadd', 'p_hostrm'): return '%s\t%s\t%s\t%s\t%s' % (k, E(c[1]), wire.enc_opt(c[2]), E(c[3]), E(c[4]))
    if k == 'p_secure': return 'p_secure\t%s\t%s\t%d' % (E(c[1]), E(c[2]), c[3])
    if k == 'p_changename': return 'p_changename\t%s\t%s\t%s\t%s' % (E(c[1]), E(c[2]), E(c[3]), E(c[4]))
    if k == 'p_ambient': return 'p_ambient\t%d\t%d\t%d' % (c[1], c[2], c[3])
    if k == 'p_follow': return 'p_follow\t%d' % c[1]
    if k == 'p_nick': return 'p_nick\t%s\t%s' % (E(c[1]), E(c[2]))
    if k == 'dump': return 'dump'
    raise ValueError(c)

def gen_pcmd(r, impl):
    """one command, chosen with a look at the accounts that exist (names given to `hostmask add/remove <name> …`
    are existing account names, as the command's argument parsing depends on it)"""
    names = [u.name for u in impl.U.users.values() if u.name] or ['alice']
    known = sorted(impl.b.irc.state.nicksToHostmasks.values()) or P_PREF
    p = r.choice(P_PREF) if r.random() < 0.7 else r.choice(P_TWINS + known)
    x = r.random()
    if r.random() < 0.10:
        # mostly somebody the bot has seen (a renamed client keeps talking under its new hostmask)
        return ('p_nick', r.choice(known + P_TWINS) if r.random() < 0.85 else p, r.choice(P_NICKS))
    if x < 0.14 or not impl.U.users:
        return ('p_register', p, r.choice(P_NAMES) if r.random() < 0.85 else r.choice(P_HMNAMES), r.choice(P_PWS[:2]))
    if x < 0.40:
        return ('p_identify', p, r.choice(names) if r.random() < 0.9 else r.choice(P_NAMES + ['nosuch', 'a!b@c']), r.choice(P_PWS))
    if x < 0.46:
        return ('p_unidentify', p)
    if x < 0.62:
        if r.random() < 0.6:
            return ('p_hostadd', p, r.choice(names), r.choice(P_MASKS + P_PREF), r.choice(P_PWS))
        return ('p_hostadd', p, None, r.choice(P_MASKS + P_PREF), '')
    if x < 0.76:
        u = r.choice(list(impl.U.users.values()))
        have = [str(m) for m in u.hostmasks]
        if r.random() < 0.6:
            return ('p_hostrm', p, u.name or 'alice', r.choice(have) if have and r.random() < 0.8 else r.choice(P_MASKS), r.choice(P_PWS))
        return ('p_hostrm', p, None, r.choice(have) if have and r.random() < 0.8 else r.choice(P_MASKS + P_PREF), '')
    if x < 0.80:
        return ('p_secure', p, r.choice(P_PWS), r.randint(0, 1))
    if x < 0.83:
        return ('p_hostrm', p, None, 'all', '')
    if x < 0.87:
        return ('p_changename', p, r.choice(names), r.choice(P_NAMES + ['dora', 'nm!um@dyn7.isp.example'] + P_HMNAMES), r.choice(P_PWS))
    if x < 0.92:
        return ('p_tick', r.choice([1, 5, 9, 10, 11, 30, 60, 61]))
    return ('p_whoami', p)

# the two scenarios behind the seeded changes C04-m4 / C04-m2, always run first
P_CORPUS = [
 [('reset', 0), ('p_register', P_PREF[0], 'alice', 'pw1'), ('p_hostadd', P_PREF[0], 'alice', '*!*@*.isp.example', 'pw1'),
  ('p_whoami', P_PREF[1]), ('p_identify', P_PREF[1], 'alice', 'wrong'), ('p_hostrm', P_PREF[0], 'alice', '*!*@*.isp.example', 'pw1'),
  ('p_whoami', P_PREF[1])],
 [('reset', 60), ('p_register', P_PREF[0], 'alice', 'pw1'), ('p_hostadd', P_PREF[0], 'alice', '*!*@*.isp.example', 'pw1'),
  ('p_secure', P_PREF[0], 'pw1', 1), ('p_identify', P_PREF[1], 'alice', 'pw1'), ('p_tick', 5),
  ('p_hostrm', P_PREF[0], 'alice', '*!*@*.isp.example', 'pw1'), ('p_identify', P_PREF[1], 'alice', 'pw1'), ('p_tick', 70),
  ('p_whoami', P_PREF[1])],
 # a name that looks like a hostmask is refused by changename as it is by register
 [('reset', 0), ('p_register', P_PREF[0], 'alice', 'pw1'), ('p_changename', P_PREF[0], 'alice', 'x!y@z', 'pw1'),
  ('p_register', P_PREF[2], 'bobby', 'pw2'), ('p_changename', P_PREF[2], 'bobby', 'x!y@z', 'pw2'), ('p_identify', P_PREF[3], 'alice', 'pw1'),
  ('p_identify', P_PREF[3], 'x!y@z', 'pw1')],
 # a prefix with a second separator inside is a user hostmask as well: no account name, looked up as a hostmask (seeded C04-r5m2)
 [('reset', 0), ('p_register', P_PREF[0], 'nk!uk@relay@host.example', 'pw1'), ('p_whoami', 'nk!uk@relay@host.example'),
  ('p_register', P_PREF[0], 'alice', 'pw1'), ('p_changename', P_PREF[0], 'alice', 'nk!!uk@host.example', 'pw1'), ('p_whoami', 'nk!!uk@host.example'),
  ('p_register', 'nk!uk@relay@host.example', 'bobby', 'pw2'), ('p_whoami', 'nk!uk@relay@host.example')],
 # Irc.doNick follows a login through a nick change: only the NICK sender's own login moves (seeded change C04-r2m3)
 [('reset', 0), ('p_follow', 1), ('p_register', P_PREF[0], 'alice', 'pw1'), ('p_tick', 1),
  ('p_identify', 'na!ux@cafe.example', 'alice', 'pw1'), ('p_tick', 1), ('p_identify', P_PREF[0], 'alice', 'pw1'),
  ('p_nick', P_PREF[0], 'nz'), ('p_whoami', 'nz!ua@home.alice.example'), ('p_whoami', 'na!ux@cafe.example'),
  ('p_whoami', 'nz!ux@cafe.example'), ('p_hostrm', 'nz!ua@home.alice.example', None, P_PREF[0], ''),
  ('p_whoami', 'nz!ua@home.alice.example'), ('p_whoami', P_PREF[0])],
 # … compared under IRC case rules: the login was made as NA!…, the NICK message comes from na!…
 [('reset', 0), ('p_follow', 1), ('p_register', P_PREF[0], 'alice', 'pw1'), ('p_identify', 'NA!ua@home.alice.example', 'alice', 'pw1'),
  ('p_nick', P_PREF[0], 'nz'), ('p_whoami', 'nz!ua@home.alice.example'), ('p_whoami', 'NA!ua@home.alice.example')],
 # a followed login lands on a hostmask that another account's mask matches and that was looked up before (seeded C04-r5m3)
 [('reset', 0), ('p_follow', 1), ('p_register', P_PREF[0], 'alice', 'pw1'), ('p_register', P_PREF[2], 'bobby', 'pw2'),
  ('p_hostadd', P_PREF[2], 'bobby', 'nz!*@*.example', 'pw2'), ('p_identify', P_PREF[0], 'alice', 'pw1'), ('p_whoami', 'nz!ua@home.alice.example'),
  ('p_nick', P_PREF[0], 'nz'), ('p_whoami', 'nz!ua@home.alice.example'), ('p_whoami', 'nz!ua@home.alice.example')],
 # the same messages with the option off: nothing moves
 [('reset', 0), ('p_register', P_PREF[0], 'alice', 'pw1'), ('p_hostrm', P_PREF[0], None, P_PREF[0], ''),
  ('p_identify', P_PREF[0], 'alice', 'pw1'), ('p_nick', P_PREF[0], 'nz'), ('p_whoami', 'nz!ua@home.alice.example'),
  ('p_whoami', P_PREF[0]), ('p_identify', 'nb!ub@b.example', 'nz', 'pw1')],
]

def o_split(p):
    """(nick, user, host) of nick!user@host as the protocol reads it: the host follows the last @, the user the last ! before it"""
    rest, host = p.rsplit('@', 1)
    nick, user = rest.rsplit('!', 1)
    return nick, user, host

def n_matching(impl, p):
    return sum(1 for u in impl.U.users.values()
               if any(o_glob(str(m), p) for m in u.hostmasks) or any(h == p for (t, h) in impl.live_auth(u)))

def run_phistory(impl, r, n, kind, fixed=None):
    """drive the real User plugin; `fixed` = a given command list (corpus / replay), else `n` generated commands"""
    cmds = []; outs = []; lines = []; tags = set(); trace = []
    ok = True; msg = ''
    def fail(m):
        nonlocal ok, msg
        if ok: ok = False; msg = m
    secrets = {}       # uid -> password given at registration (the harness's own record)
    glog = set()       # ghost log: (uid, time, hostmask, origin): identify commands sent from `origin` with the account's
                       # password; hostmask != origin only after a followed NICK message
    follow = False; ever_followed = False
    it = iter(fixed) if fixed is not None else None
    first = True
    while True:
        if it is not None:
            c = next(it, None)
            if c is None: break
            c = tuple(c)
        else:
            if len(cmds) > n: break
            if first:
                c = ('reset', r.choice([0, 0, 10, 60]))
            elif cmds and cmds[-1][0] == 'p_unidentify' and r.random() < 0.7:
                c = ('p_whoami', cmds[-1][1])          # asked again right after the logout
            else:
                c = gen_pcmd(r, impl)
        first = False
        cmds.append(c)
        k = c[0]
        by_name = None
        if k == 'reset':
            impl.reset(c[1]); out = 'ok'; secrets = {}; glog = set(); follow = False; ever_followed = False
            impl.b.irc.state.nicksToHostmasks.clear()
            outs.append(out); lines.append(p_wire(c))
            out = 'ok'; c2 = ('p_ambient',) + impl.ambient()
            lines.append(p_wire(c2)); outs.append(out)
            trace.append('%3d %-100s -> ok' % (len(cmds) - 1, repr(c)[:100]))
            if it is None and r.random() < 0.5:
                c = ('p_follow', 1); cmds.append(c)
                impl.set_follow(True); follow = True; ever_followed = True
                lines.append(p_wire(c)); outs.append('ok')
                trace.append('%3d %-100s -> ok' % (len(cmds) - 1, repr(c)))
            continue
        elif k == 'p_follow':
            impl.set_follow(c[1]); follow = bool(c[1]); ever_followed = ever_followed or follow
            outs.append('ok'); lines.append(p_wire(c))
            trace.append('%3d %-100s -> ok' % (len(cmds) - 1, repr(c)))
            continue
        elif k == 'p_nick':
            p_, nn = c[1], c[2]
            # the account the sender is recognised as, from the records as they are (the harness's own reading)
            rec = [i for i, u in impl.U.users.items()
                   if any(o_glob(str(m), p_) for m in u.hostmasks) or any(h == p_ for (t, h) in impl.live_auth(u))]
            moved = set()
            if follow and len(rec) == 1 and o_is_hostmask(p_) and nn:
                i = rec[0]; newhm = '%s!%s@%s' % ((nn,) + o_split(p_)[1:])
                held = set(impl.live_auth(impl.U.users[i]))
                moved = set((i, t, newhm, o) for (j, t, h, o) in glog if j == i and o_lower(h) == o_lower(p_) and (t, h) in held)
            del impl.dup_lookups[:]
            out = impl.nick(p_, nn)
            # (the rewriting precedes `setUser`: the login has moved even when that raises)
            glog |= moved
            if moved: tags.add('login-followed')
            for (i_, t_, h_, o_) in moved:
                now_held = impl.live_auth(impl.U.users[i_])
                if out == 'silent' and (t_, h_) not in now_held:      # (an escaping setUser stops the loop after its first entry)
                    fail('command %d %r: supybot.followIdentificationThroughNickChanges is on and the sender is logged in to account %d, '
                         'but the login (t=%d) was not moved to %s' % (len(cmds) - 1, c, i_, t_, h_))
            tags.add('p_nick:' + out + (':on' if follow else ':off'))
        elif k == 'p_tick':
            impl.clock.now += c[1]; out = 'success'
        else:
            before = set(impl.U.users)
            target = None
            if k == 'p_identify' and '!' not in c[2]:
                # which account the command addresses: by name, else by the nick of somebody the bot has seen
                by_name = [i for i, u in impl.U.users.items() if u.name.lower() == c[2].lower()]
                if by_name:
                    target = by_name[0]
                else:
                    seen = impl.b.irc.state.nicksToHostmasks
                    # (the bot notes the sender of the command before it runs it)
                    hm = c[1] if o_lower(c[2]) == o_lower(o_split(c[1])[0]) else (seen.get(c[2]) if c[2] in seen else None)
                    if hm is not None:
                        m_ = [i for i, u in impl.U.users.items()
                              if any(o_glob(str(x), hm) for x in u.hostmasks) or any(h == hm for (t, h) in impl.live_auth(u))]
                        if len(m_) == 1: target = m_[0]
                by_name = [target] if target is not None else None
            del impl.dup_lookups[:]
            try:
                msgs = bot.feed(impl.b, c[1], impl.b.irc.nick, p_text(c))
                out = classify([m.args[1] for m in msgs if m.command in ('PRIVMSG', 'NOTICE')])
            except Exception as e:
                out = 'escaped\t' + type(e).__name__
            if c[1] in impl.dup_lookups:
                tags.add('ambiguous-sender')
            if k == 'p_register':
                for i in set(impl.U.users) - before:
                    secrets[i] = c[3]
            if k == 'p_identify' and target is not None and secrets.get(target) == c[3]:
                glog.add((target, impl.clock.now, c[1], c[1]))
            if k == 'p_identify' and out == 'success' and target is not None and target in impl.U.users \
                    and (impl.clock.now, c[1]) not in [(int(w), m) for (w, m) in impl.U.users[target].auth]:
                fail('command %d %r: identify at time %d succeeded, but the login from %s is dated %r'
                     % (len(cmds) - 1, c, impl.clock.now, c[1], [int(w) for (w, m) in impl.U.users[target].auth if m == c[1]]))
            if k == 'p_unidentify' and out == 'success':
                left = [(i, [(int(w), m) for (w, m) in u.auth if m == c[1]]) for i, u in impl.U.users.items() if any(m == c[1] for (w, m) in u.auth)]
                if left:
                    fail('command %d %r: unidentify succeeded, but a login from %s is still held: %r' % (len(cmds) - 1, c, c[1], left))
            tags.add(k + ':' + out.split('\t')[0])
        outs.append(out); lines.append(p_wire(c))
        trace.append('%3d %-100s -> %s' % (len(cmds) - 1, repr(c)[:100], out.replace('\t', ' ')))
        if k not in ('reset', 'p_tick'):
            for i, u in impl.U.users.items():
                cur = [str(x) for x in u.hostmasks]
                if len(cur) >= 2:
                    lines.append(wire_line(('order', i, cur))); outs.append('ok')
        # state, caches and ghost log after every command
        lines.append('dump'); outs.append(impl.dump())          # records AND both caches
        live_now = lambda t: not (impl.timeout and t + impl.timeout < impl.clock.now)
        lines.append('p_log'); outs.append(','.join(sorted('%d:%d:%s:%s' % (i, t, wire.enc(h), wire.enc(o))
                                                            for (i, t, h, o) in glog if live_now(t))) or '-')
        backed = set((i, t, h) for (i, t, h, o) in glog)
        # ---- the property on the implementation
        so = semantic_overlap(impl)
        if so is not None:
            fail('command %d %r: accounts %d and %d now own the masks %s and %s, which have a hostmask in common' % ((len(cmds) - 1, c) + (so[0], so[2], so[1], so[3])))
            tags.add('overlapping-masks')
        seen_names = {}
        for i, u in impl.U.users.items():
            if not u.name: continue
            if o_is_hostmask(u.name):
                fail('command %d %r: account %d is now called %r, which is looked up as a hostmask: no command can address it by name any more'
                     % (len(cmds) - 1, c, i, u.name))
            if u.name.lower() in seen_names:
                fail('command %d %r: accounts %d and %d are both called %r' % (len(cmds) - 1, c, seen_names[u.name.lower()], i, u.name))
            seen_names[u.name.lower()] = i
        for i, u in impl.U.users.items():
            for (t, h) in impl.live_auth(u):
                if (i, t, h) not in backed:
                    fail('command %d %r: account %d (%s) holds a login (t=%d, %s) that goes back to no identify with its password from that hostmask%s'
                         % (len(cmds) - 1, c, i, u.name, t, h,
                            ' (or from the hostmask the server said it was renamed from)' if ever_followed else ''))
                    tags.add('unbacked-login')
                for (j, t2, h2, o) in glog:
                    if (j, t2, h2) == (i, t, h) and h2 != o:
                        # a followed login: only ever with the option on, and only the nick may differ
                        if not ever_followed or [o_lower(x) for x in o_split(h2)[1:]] != [o_lower(x) for x in o_split(o)[1:]]:
                            fail('command %d %r: the login (t=%d, %s) of account %d was moved from %s' % (len(cmds) - 1, c, t, h2, i, o))
            if u.secure:
                for (t, h) in impl.live_auth(u):
                    if k == 'p_identify' and out == 'success' and by_name and by_name[0] == i and h == c[1] and t == impl.clock.now \
                            and not any(o_glob(str(m), h) for m in u.hostmasks):
                        fail('command %d %r: the secure account %d (%s) accepted a login from %s, which matches none of its masks'
                             % (len(cmds) - 1, c, i, u.name, h))
        if k == 'p_whoami' and out.startswith('iam'):
            both = [i for i, u in impl.U.users.items()
                    if any(o_glob(str(m), c[1]) for m in u.hostmasks) or any(h == c[1] for (t, h) in impl.live_auth(u))]
            if len(both) > 1:
                fail('command %d: %s is answered as %s although the accounts %r all match that hostmask (by mask or by login): '
                     'a sender never resolves to one of two accounts' % (len(cmds) - 1, c[1], wire.dec(out.split('\t')[1]), both))
            nm = wire.dec(out.split('\t')[1])
            who = [u for u in impl.U.users.values() if u.name == nm]
            if who:
                # (changename accepts a name that looks like a hostmask, even twice: any account of that name will do)
                if not any(any(o_glob(str(m), c[1]) for m in u.hostmasks) or any((u.id, t, c[1]) in backed for (t, h) in impl.live_auth(u) if h == c[1])
                           for u in who):
                    fail('command %d: %s is recognised as %s without a matching mask or a password-backed login' % (len(cmds) - 1, c[1], nm))
    inp = {'pcmds': [list(c) for c in cmds]}
    if kind == 'replay':
        inp['trace'] = trace
    return Case(inp, impl='\n'.join(outs), oracle_ok=ok, oracle_msg=msg, tags=sorted(tags), kind=kind), lines

# ---- glob stream ------------------------------------------------------------------------
GA = ['*', '?', '*', 'a', 'B', 'c', 'k', 'K', 's', 'i', 'I', '!', '@', '.', '[', ']', '{', '}', '\\', '|', '^', '~', '-', '_', '0', 'é', 'É', '\u212a', '\u017f', '\u0130', '\u0131', '中', ' ', '\n', '(', ')', '+', '$']
def gen_glob_pair(r):
    k = r.randint(0, 5)
    if k == 0:
        return r.choice(PATS), r.choice(HOSTS + PATS)
    if k == 1:
        h = r.choice(HOSTS)
        # derive a pattern from the hostmask
        p = list(h)
        for _ in range(r.randint(0, 3)):
            i = r.randrange(len(p) + 1); j = min(len(p), i + r.randint(0, 3))
            p[i:j] = [r.choice(['*', '?', '*', ''])]
        return swapcase_irc(r, ''.join(p)), h
    p = ''.join(r.choice(GA) for _ in range(r.randint(0, 7)))
    h = ''.join(r.choice(GA[3:]) for _ in range(r.randint(0, 7)))
    if k == 2:
        h = p.replace('*', r.choice(['', 'x', 'ab'])).replace('?', r.choice(['q', '', '\n']))
    return p, h

def glob_case(impl, p, h):
    iu = impl.ircutils
    got = bool(iu.hostmaskPatternEqual(p, h))
    again = bool(iu.hostmaskPatternEqual(p, h))       # through the memo
    ishm = bool(iu.isUserHostmask(h))
    ok = True; msg = ''
    if got != again:
        ok = False; msg = 'hostmaskPatternEqual(%r, %r) answers %s then %s' % (p, h, got, again)
    if clean(p) and clean(h):
        want = o_glob(p, h)
        if got != want:
            ok = False; msg = 'hostmaskPatternEqual(%r, %r) = %s; IRC glob semantics (* any run, ? one character, rfc1459 case pairs, anchored) give %s' % (p, h, got, want)
        low = bool(iu.hostmaskPatternEqual(o_lower(p), o_lower(h)))
        if low != got:
            ok = False; msg = 'hostmaskPatternEqual(%r, %r) = %s but %s for the IRC-lowered strings' % (p, h, got, low)
    tags = ['glob-match' if got else 'glob-nomatch']
    if '*' in p: tags.append('star')
    if '?' in p: tags.append('qmark')
    if any(c in p for c in '[]{}\\|^~'): tags.append('pairs')
    # the overlap test, on the pair (p, h') where h' is h read as a second pattern
    q = h
    inter = bool(iu.hostmaskPatternsIntersect(p, q))
    if clean(p) and clean(q):
        want = o_inter(p, q)
        if inter != want:
            ok = False; msg = 'hostmaskPatternsIntersect(%r, %r) = %s; the patterns %s a hostmask in common' % (p, q, inter, 'have' if want else 'do not have')
        if got and not inter and '*' not in q and '?' not in q:
            ok = False; msg = 'hostmaskPatternsIntersect(%r, %r) is False although the first matches the second' % (p, q)
    if inter: tags.append('intersect')
    c = Case({'op': 'glob', 'p': p, 'h': h}, impl='%d\n%d\n%d' % (got, ishm, inter), oracle_ok=ok, oracle_msg=msg, tags=tags, kind='glob')
    return c, ['glob\t%s\t%s' % (wire.enc(p), wire.enc(h)), 'isUserHostmask\t' + wire.enc(h),
               'intersect\t%s\t%s' % (wire.enc(p), wire.enc(q))]

SUSPECTS = [0x130, 0x131, 0x17f, 0x212a, 0x212b, 0xdf, 0x1e9e, 0x3a3, 0x3c2, 0x3c3, 0xb5, 0x3bc, 0x1c5, 0xfb01, 0x49, 0x69, 0x4b, 0x6b, 0x53, 0x73]
def unicode_pairs(r, n, whole_bmp=False):
    """(pattern, hostmask) pairs of single characters around the non-ASCII boundary: every code point against
    itself, its str.lower()/str.upper() images and the ASCII letters that Unicode case folding would identify with it.
    IRC case rules (rfc1459) fold ASCII letters and []\\~ only."""
    cps = list(range(0x20, 0x10000)) if whole_bmp else SUSPECTS + [r.randrange(0x80, 0x10000) for _ in range(n)] + list(range(0x20, 0x180))
    for cp in cps:
        if 0xD800 <= cp < 0xE000: continue
        c = chr(cp)
        others = {c, c.lower()[:1], c.upper()[:1], c.casefold()[:1], 'k', 's', 'i', 'K'}
        for d in others:
            if d and d not in '*?':
                if c not in '*?': yield c, d
                yield d, c

def valid_unicode(s):
    try:
        s.encode('utf-8'); return True
    except UnicodeEncodeError:
        return False

# =====================================================================================
def explore(ctx, n_hist, n_hostile, n_over, n_glob, corpus=(), stream='c04', n_plug=0):
    impl = Impl()
    r = rng.make(stream)
    cases = []; lines = []; spans = []
    def add(c, ls):
        spans.append((c, len(lines), len(ls))); lines.extend(ls); cases.append(c)
    wit = None
    for ops in [FORMER_FINDING] + list(logout_corpus()) + list(corpus):
        c, ls = run_history(impl, [tuple(o) for o in ops], 'corpus'); add(c, ls)
        if wit is None: wit = c
    for _ in range(n_hist):
        add(*run_history(impl, gen_history(r), 'hist'))
    for _ in range(n_hostile):
        add(*run_history(impl, gen_history(r, hostile=True), 'hostile'))
    for _ in range(n_over):
        add(*run_history(impl, gen_overflow(r), 'overflow'))
    for fixed in P_CORPUS:
        add(*run_phistory(impl, r, 0, 'plugin-corpus', fixed=fixed))
    for _ in range(n_plug):
        add(*run_phistory(impl, r, r.randint(8, 45), 'plugin'))
    for (p_, h_) in unicode_pairs(r, 300 if n_glob < 100000 else 0, whole_bmp=(n_glob >= 100000)):
        if valid_unicode(p_) and valid_unicode(h_):
            c_, l_ = glob_case(impl, p_ + '!u@h', h_ + '!u@h'); c_.kind = 'unicode'; add(c_, l_)
    for _ in range(n_glob):
        p, h = gen_glob_pair(r)
        if valid_unicode(p) and valid_unicode(h):
            add(*glob_case(impl, p, h))
    return cases, lines, spans, wit

def fill_model(cases, lines, spans):
    outs = wire.run_driver(PROPERTY, lines, timeout=2400)
    for c, start, n in spans:
        c.model = '\n'.join(outs[start:start + n])

def load_corpus():
    p = os.path.join(os.path.dirname(os.path.dirname(os.path.abspath(__file__))), 'corpus', 'C04', 'histories.json')
    try:
        return json.load(open(p))
    except OSError:
        return []

def run(ctx):
    build = leanbuild.ensure(PROPERTY, THEOREMS, thorough=ctx.thorough, extractors=['IrcDbUsers', 'IrcDbCaps'])
    if ctx.thorough:
        cases, lines, spans, wit = explore(ctx, 40000, 8000, 12, 200000, corpus=load_corpus(), n_plug=6000)
    else:
        cases, lines, spans, wit = explore(ctx, 1800, 500, 1, 30000, corpus=load_corpus(), n_plug=200)
    if build.driver_ok:
        fill_model(cases, lines, spans)
    def search(disagreements, broken):
        os.environ['VERIF_SEED'] = str(ctx.seed + 7919)
        try:
            more, _, _, _ = explore(ctx, 6000, 1500, 3, 60000, stream='c04-search', n_plug=1500)
        finally:
            os.environ['VERIF_SEED'] = str(ctx.seed)
        return [c for c in more if c.oracle_ok is False and c.finding is None]
    # cross-model agreement with C01 (another engineer's files): built and reported, not part of the verdict
    import subprocess
    from vlib import LEAN
    try:
        pr = subprocess.run(['lake', 'build', 'LimnoriaModel.C04.AgreeC01'], cwd=LEAN, stdout=subprocess.PIPE, stderr=subprocess.STDOUT, timeout=900)
        agree = ('proved: C04.setDefaults_agree, C04.duplicate_agree (lean/LimnoriaModel/C04/AgreeC01.lean)' if pr.returncode == 0
                 else 'does not build at present: ' + pr.stdout.decode('utf-8', 'replace')[-300:])
    except Exception as e:
        agree = 'not checked: %r' % (e,)
    return verdict.conclude(PROPERTY, ctx.tier, ctx.seed, build, cases, search=search, rule=RULE,
                            extra={'cross_model_agreement_with_C01': agree},
                            trusted_base=TRUSTED,
                            assumptions=['Python asserts enabled', 'the clock does not run backwards', 'timeoutIdentification fixed within a history',
                                         'generated names and hostmasks are ASCII plus caseless non-ASCII characters (re.I / str.lower outside ASCII not modelled)'],
                            t0=ctx.t0)

def replay(ctx, path):
    d = json.load(open(path))
    c = d.get('case') or d.get('first_disagreement')
    if not c:
        print(json.dumps(d, indent=1)[:3000]); return 0
    inp = c['input']
    impl = Impl()
    if inp.get('op') == 'glob':
        c2, _ = glob_case(impl, inp['p'], inp['h'])
        print('pattern %r hostmask %r -> %s' % (inp['p'], inp['h'], c2.impl.split('\n')[0])); print('oracle:', c2.oracle_ok, c2.oracle_msg)
        return 0 if c2.oracle_ok else 1
    if 'pcmds' in inp:
        c2, _ = run_phistory(impl, rng.make('replay'), 0, 'replay', fixed=inp['pcmds'])
        for l in c2.input['trace']:
            print(l)
        print('property oracle on the implementation:', 'holds' if c2.oracle_ok else 'FAILS: ' + c2.oracle_msg)
        return 0 if c2.oracle_ok else 1
    ops = [tuple(o) for o in inp['ops']]
    c2, _ = run_history(impl, ops, 'replay')
    for l in c2.input['trace']:
        print(l)
    print('property oracle on the implementation:', 'holds' if c2.oracle_ok else 'FAILS: ' + c2.oracle_msg)
    return 0 if c2.oracle_ok else 1
