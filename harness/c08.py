"""C08 — CAP / SASL registration state machine of irclib.Irc.
Correspondence of lean/LimnoriaModel/C08/Model.lean with src/irclib.py (+ ircutils helpers) on seeded
server scripts (adversarial, state-aware and protocol-conformant), the property statement evaluated on
the implementation's own takeMsg stream (five safety predicates + stuck-state predicate), failing-input
search, known-finding handling.  The implementation-side runner is shared with harness/c09.py."""
import json, os, sys, time, base64
from vlib import wire, rng, leanbuild, verdict, bot, VERIF
from vlib.verdict import Case

PROPERTY = 'C08'
MANIFEST = {
 'level_text': "Lean 4 theorems, kernel-checked, about an executable model of irclib.Irc's CAP/SASL/registration machine (every handler with its exceptions and partial effects; FSM states, guards and expect_state lists, REQUEST_CAPABILITIES, _nickSetters, line/chunk sizes regenerated from /repo on every run). Proved for every state, configuration and server message, resp. for every history of messages and resets: req_subset and echo_needs_label (each word of a CAP REQ line is advertised and wanted; echo-message only next to labeled-response); wanted_bounded / wanted_rebuilt (the object's own REQUEST_CAPABILITIES is rebuilt from the class-level set at every reset: sasl exactly when this network has a usable mechanism); sasl_payload_invited / sasl_after_ack / sasl_entered_by_ack (credentials only as the answer to a server AUTHENTICATE inside INIT_SASL/CONNECTED_SASL, which is entered only while handling CAP ACK/NAK with sasl acknowledged); cap_end_once / cap_end_counted / cap_end_from_negotiation (at most one CAP END per connection epoch, none while an authentication is in progress); progress (deadlock-freedom of the bot against a formally defined conformant server, by a joint invariant over all joint histories: connected, or deliberately aborted, or the server still owes an answer, or the situation of finding C08-req-after-end). The conformant server of progress answers the oldest unanswered CAP REQ by ACK/NAK lines that each take some of its words (single or split answers, any order), acknowledges only what it advertises, may send CAP NEW and CAP DEL at any time after the final CAP LS, sends at most three AUTHENTICATE per mechanism, answers AUTHENTICATE * by a failure numeric, and treats a CAP REQ of an unregistered client as suspending the registration; kR6 is a concrete joint history with a split answer, a CAP NEW and a CAP DEL inside the negotiation. reset_fresh and epoch_clean (after Irc.reset every CAP/SASL/FSM/nick field, REQUEST_CAPABILITIES and both queues equal those of a new Irc; with the real SocketDriver a new socket is only opened right after such a reset, the rest of the old recv chunk is dropped). chunks_terminate (authenticate_generator: full-size lines, then one final line shorter than the chunk size or `+`) is what progress rests on for the credentials. join_needs_motd_end / join_only_after_motd_real: Owner's JOINs are queued only by the step in which Irc.do376 completed or dropped the connection, and along every real-driver history no JOIN is written to a socket while afterConnect is unset. sts_no_downgrade_real: along every real-driver history, while connected to a host with a stored STS policy the connection is forced-verified TLS (or ssl with the operator's own validation). nick_space_not_exhausted: the digit variations _getNextNick falls back to (10 000 of them reachable from any padded nick, pairwise distinct) are not exhausted while fewer than 10 000 nicks were tried on the connection (one per refusal), so its loop ends; the harness sends runs of up to 45 consecutive refusals under a per-message watchdog. Two statements are false on the code and recorded as findings with Lean counter-examples: 'no CAP REQ outstanding at CAP END' (cap_end_outstanding_witness; true parts cap_end_nothing_outstanding_partial - nothing outstanding unless a CAP NEW arrived after a mechanism was requested - and cap_requests_accounted) and progress after a CAP NEW between CAP END and the welcome (req_after_end_witness). An executable acceptor of the conformant-server relation, proved sound, lets the harness ask Lean whether each conformant script lies inside the domain of progress. The model is tied to the code by a differential correspondence run after every message (stub driver: adversarial, state-aware and conformant server scripts, configuration changes at run time; real SocketDriver over a fake socket) which also evaluates the property statement on the implementation's own takeMsg stream.",
 'level_note': "Trusted: Lean kernel, axioms propext/Classical.choice/Quot.sound only; harness/extractors/conn.py; the correspondence harness (generators bound what it sees; IrcMsg parsing supplies command/args/nick, property C05). Modelled and proved about: feedMsg dispatch, _nickSetters, reset/_setNonResettingVariables/resetSasl/_queueConnectMessages, capUpkeep, endCapabilityNegociation, tryNextSaslMechanism, _maybeStartSasl, doAuthenticate (plain, external, ecdsa with the signature as a parameter, scram-* with the library calls as parameters: step machine, unsupported hash, rejected challenge, bad server signature), sasl_response_sent, AuthenticateDecoder/authenticate_generator incl. which inputs base64 rejects, do903-908, doCapLs/Ack/Nak/New/Del, _addCapabilities, _onCapSts, _requestCaps (textwrap as greedy word fill), _getNextNick/do43x, do375/376/377/422 and Owner.do376/377/422, doPing, doError, doNick; SocketDriver.reconnect/_read loop/_sendIfMsgs as far as resets, sockets, the JOIN flag and the STS store are concerned. cap_end_once / sasl_after_ack / join / sts_no_downgrade also hold along every real-driver history (DReach). progress: stub-driver semantics (an abort ends the epoch), lock-step (the server sees the reaction to a line before it sends the next), at most 4300-digit integers, ASCII commands. pyxmpp2_scram is absent here: the SCRAM control flow of irclib is driven with a stand-in object exposing the same interface, whose answers are the model's parameters. Not modelled: user modes, zombie objects, requireStarttls, TLS itself, the random digits of the fallback nick (compared as a wildcard). Ghost fields endCount/saslAcked/epoch/joinBad are defined by the model and not observable in the implementation.",
 'technique': 'Lean 4 proof (refinement of every model function to an abstract move system + invariants by induction over arbitrary server message sequences; deadlock-freedom against a formal conformant-server relation) + table extraction + differential correspondence (stub driver and real SocketDriver over a fake socket)',
 'design_ref': 'DESIGN.md §6 C08',
}
THEOREMS = ['C08.req_subset', 'C08.wanted_bounded', 'C08.wanted_rebuilt', 'C08.echo_needs_label', 'C08.sasl_payload_invited',
            'C08.sasl_entered_by_ack', 'C08.sasl_after_ack', 'C08.saslAcked_only_by_ack', 'C08.cap_end_once',
            'C08.cap_end_counted', 'C08.cap_end_from_negotiation', 'C08.cap_end_outstanding_witness', 'C08.reset_fresh',
            'C08.epoch_clean', 'C08.epoch_clean_scheduled', 'C08.new_socket_only_by_error', 'C08.feedLines_stops', 'C08.flush_wire',
            'C08.progress', 'C08.no_stuck_state', 'C08.jR11', 'C08.kR6', 'C08.req_after_end_witness', 'C08.srvMoveB_sound',
            'C08.cap_end_nothing_outstanding_partial', 'C08.cap_requests_accounted', 'C08.chunks_terminate', 'C08.sasl_answer_complete',
            'C08.cap_end_once_real', 'C08.sasl_after_ack_real', 'C08.join_needs_motd_end', 'C08.join_only_after_motd_real',
            'C08.joinBad_flush', 'C08.sts_no_downgrade_real', 'C08.nick_space_not_exhausted', 'C08.lastDigit_exhausted']
TRUSTED = ['Lean 4.33.0 kernel; axioms ⊆ {propext, Classical.choice, Quot.sound}',
           'harness/extractors/conn.py (FSM states and guards, expect_state lists, REQUEST_CAPABILITIES, _nickSetters, MAX_LINE_SIZE, AUTHENTICATE_CHUNK_SIZE → Gen/Conn.lean)',
           'harness/c08.py: script generators, stub driver, canonical observation, hex line protocol',
           'IrcMsg parsing of the generated server lines (property C05) supplies command/args/nick to the model']
ASSUMPTIONS = ['Python asserts enabled', 'commands, capability names, mechanism names and nicks are ASCII; nick alphabet invariant under rfc1459 case folding',
               'msg.prefix never equals the bot nick (the oftc nick-instead-of-prefix rewrite is not modelled)',
               'pyxmpp2_scram is not installed: irclib.scram is replaced by a stand-in with the interface irclib uses (HASH_FACTORIES, SCRAMClientAuthenticator.start/challenge/finish, ScramException, BadSuccessException) whose answers are parameters of the run',
               'user modes, PASS-less ident defaults, requireStarttls and zombie Irc objects are outside the model']

SERVER = 'irc.test'
FSM_SASL = ('INIT_SASL', 'CONNECTED_SASL')

# ------------------------------------------------------------------------------------------
# implementation side
# ------------------------------------------------------------------------------------------
class StubDriver(object):
    """records reconnect()/die(); carries the attributes Irc._onCapSts reads"""
    def __init__(self, b, ssl=False, verify=False, host=SERVER, port=6667, forced=False):
        self.calls = []
        self.ssl = ssl
        self._verify = verify
        self.currentServer = b.drivers.Server(host, port, None, forced)
    def anyCertValidationEnabled(self):
        return self._verify
    def reconnect(self, wait=False, reset=True, server=None):
        self.calls.append(('reconnect', bool(wait), tuple(server) if server is not None else None))
    def die(self):
        self.calls.append(('die',))

class Tick(object):
    """clock for irclib: strictly increasing so that takeMsg never throttles"""
    def __init__(self):
        self.t = 1000.0
    def time(self):
        self.t += 0.001
        return self.t

class ScramException(Exception):
    pass

class BadSuccessException(ScramException):
    pass

class FakeScram(object):
    """Stand-in for the absent pyxmpp2_scram with the interface irclib uses (HASH_FACTORIES,
    SCRAMClientAuthenticator(hash, channel_binding).start/challenge/finish, ScramException,
    BadSuccessException).  What the calls answer is a parameter of the run (`P`), as in the model."""
    ScramException = ScramException
    BadSuccessException = BadSuccessException
    HASH_FACTORIES = {}
    P = {'first': b'', 'final': None, 'finish': 0}
    calls = []
    class SCRAMClientAuthenticator(object):
        def __init__(self, hash_name, channel_binding):
            FakeScram.calls.append(('new', hash_name, channel_binding))
        def start(self, properties):
            FakeScram.calls.append(('start', dict(properties)))
            return FakeScram.P['first']
        def challenge(self, challenge):
            FakeScram.calls.append(('challenge', challenge))
            if FakeScram.P['final'] is None:
                raise ScramException('bad challenge')
            return FakeScram.P['final']
        def finish(self, data):
            FakeScram.calls.append(('finish', data))
            if FakeScram.P['finish'] == 1:
                raise BadSuccessException('bad server signature')
            if FakeScram.P['finish']:
                raise ScramException('server error')
            return {}

_B = None
def boot():
    global _B
    if _B is None:
        b = bot.full(plugins=['Owner'])
        if b.irclib.scram is not None:
            raise RuntimeError('pyxmpp2_scram is installed: the harness drives the SCRAM control flow with a stand-in')
        b.irclib.time = Tick()
        b.excs = []
        def rec(fmt, *a, **k):
            # only the firewall of Irc.feedMsg ('%s in %s.%s:'), not IrcState.addMsg / callbacks
            if fmt == '%s in %s.%s:' and len(a) == 3 and a[2] == 'feedMsg':
                b.excs.append(sys.exc_info()[0].__name__ if sys.exc_info()[0] else '?')
        b.log.exception = rec
        b.cafile = os.path.join(b.dir, 'ca.pem'); open(b.cafile, 'w').write('-----BEGIN CERTIFICATE-----\nAAAA\n-----END CERTIFICATE-----\n')
        b.cadir = os.path.join(b.dir, 'ca.d'); os.makedirs(b.cadir, exist_ok=True)
        b.keyfile = os.path.join(b.dir, 'ecdsa.pem')
        # a key path that exists but cannot be opened (OSError at challenge time), and one that opens but is no key (ValueError)
        b.keydir = os.path.join(b.dir, 'ecdsa-key.d'); os.makedirs(b.keydir, exist_ok=True)
        b.keygarbage = os.path.join(b.dir, 'garbage.pem'); open(b.keygarbage, 'w').write('-----BEGIN NOTHING-----\nAAAA\n')
        try:
            from cryptography.hazmat.primitives.asymmetric import ec
            from cryptography.hazmat.primitives import serialization
            k = ec.generate_private_key(ec.SECP256R1())
            open(b.keyfile, 'wb').write(k.private_bytes(serialization.Encoding.PEM,
                 serialization.PrivateFormat.PKCS8, serialization.NoEncryption()))
            b.has_crypto = b.irclib.crypto is not None
        except ImportError:
            b.has_crypto = False
        _B = b
    return _B

DEFAULT_CFG = {
    'nick': 'test', 'ident': 'limnoria', 'user': 'Limnoria bot', 'password': '',
    'alternates': ['%s`', '%s_'], 'mechs': [], 'sasluser': '', 'saslpass': '', 'ecdsakey': '',
    'certfile': False, 'required': False, 'joins': False,
    'scram': False, 'scramhashes': ['SHA-1', 'SHA-256'], 'scramfirst': 'n,,n=u,r=cnonce', 'scramfinal': 'c=biws,r=cnoncesnonce,p=proof', 'scramfinish': 0,
    'ssl': False, 'certvalidation': False, 'verifycerts': False, 'forced': False, 'cafile': '',
    'host': SERVER, 'port': 6667, 'policies': {}, 'lastdisc': {}, 'now': 100000,
}

def full_cfg(cfg):
    c = dict(DEFAULT_CFG)
    c.update(cfg)
    return c

def apply_cfg(b, c, fresh=True):
    conf = b.conf
    net = conf.supybot.networks.test
    conf.supybot.nick.setValue(c['nick'])
    conf.supybot.nick.alternates.setValue(list(c['alternates']))
    conf.supybot.ident.setValue(c['ident'])
    conf.supybot.user.setValue(c['user'])
    net.password.setValue(c['password'])
    net.sasl.username.setValue(c['sasluser'])
    net.sasl.password.setValue(c['saslpass'])
    net.sasl.ecdsa_key.setValue({'': '', 'ok': b.keyfile, 'bad': os.path.join(b.dir, 'no-such-key.pem'),
                                 'dir': b.keydir, 'garbage': b.keygarbage,
                                 'tilde': '~vt-no-such-user/ecdsa.pem', 'home': '~/vt-no-such-dir/ecdsa.pem'}[c['ecdsakey']])
    net.sasl.mechanisms.setValue(list(c['mechs']))
    net.sasl.required.setValue(bool(c['required']))
    net.certfile.setValue('/nonexistent/cert.pem' if c['certfile'] else '')
    net.channels.setValue(['#vt'] if c['joins'] else [])
    net.ssl.setValue(bool(c['ssl']))
    conf.supybot.protocols.ssl.verifyCertificates.setValue(bool(c['verifycerts']))
    net.ssl.authorityCertificate.setValue({'': '', 'file': b.cafile, 'dir': b.cadir}[c['cafile']])
    if fresh:
        b.irclib.Irc.REQUEST_CAPABILITIES.discard('sasl')  # class level: nothing may ever add it there
    if c['scram']:
        FakeScram.HASH_FACTORIES = dict((h, None) for h in c['scramhashes'])
        FakeScram.P = {'first': c['scramfirst'].encode('utf-8'),
                       'final': None if c['scramfinal'] is None else c['scramfinal'].encode('utf-8'),
                       'finish': c['scramfinish']}
        del FakeScram.calls[:]
        b.irclib.scram = FakeScram
    else:
        b.irclib.scram = None
    if fresh:
        n = b.ircdb.networks.getNetwork('test')
        n.stsPolicies.clear(); n.stsPolicies.update(c['policies'])
        n.lastDisconnectTimes.clear(); n.lastDisconnectTimes.update(c['lastdisc'])

def new_irc(cfg):
    b = boot()
    c = full_cfg(cfg)
    apply_cfg(b, c)
    del b.excs[:]
    for i in list(b.world.ircs):
        b.world.ircs.remove(i)
    irc = b.irclib.Irc('test')
    irc.driver = StubDriver(b, ssl=c['ssl'], verify=c['certvalidation'], host=c['host'], port=c['port'], forced=c['forced'])
    return irc

def tok_msg(m):
    return 'M:%s:%s' % (m.command, wire.enc_list(m.args))

def enc_server(t):
    return '%s/%d/%s/%d' % (wire.enc(t[0]), t[1], '~' if t[2] is None else str(t[2]), 1 if t[3] else 0)

def tok_call(c):
    if c[0] == 'reconnect':
        return 'R:%d:%s' % (1 if c[1] else 0, '~' if c[2] is None else enc_server(c[2]))
    return 'D'

def enc_set(xs):
    return wire.enc_list(sorted(set(xs)))

class Obs(object):
    """one observation of the implementation: canonical string + the raw pieces the oracle needs"""
    __slots__ = ('s', 'msgs', 'calls', 'fsm', 'ls', 'req', 'ack', 'nak', 'auth', 'after', 'exc', 'wanted', 'x')

SCRAM_STEPS = {'uninitialized': 0, 'first-sent': 1, 'final-sent': 2, 'authenticated': 3}

def auth_field(irc):
    """sasl_authenticated, sasl_response_sent, SCRAM step"""
    return '%d%d%d' % (1 if irc.sasl_authenticated else 0, 1 if irc.sasl_response_sent else 0,
                       SCRAM_STEPS[irc.sasl_scram_state['step']])

def observe(irc):
    b = boot()
    st = irc.state
    msgs = []
    for _ in range(500):
        m = irc.takeMsg()
        if m is None:
            break
        msgs.append(m)
    calls = list(irc.driver.calls)
    del irc.driver.calls[:]
    d = irc.authenticate_decoder
    exc = b.excs[0] if b.excs else '-'
    del b.excs[:]
    outs = [tok_msg(m) for m in msgs] + [tok_call(c) for c in calls]
    ls = st.capabilities_ls
    net = b.ircdb.networks.getNetwork('test')
    f = [';'.join(outs) if outs else '-', st.fsm.state.name,
         ','.join(wire.enc(k) + '=' + wire.enc_opt(ls[k]) for k in sorted(ls)) if ls else '-',
         enc_set(st.capabilities_req), enc_set(st.capabilities_ack), enc_set(st.capabilities_nak),
         wire.enc_list(irc.sasl_next_mechanisms), wire.enc_opt(irc.sasl_current_mechanism),
         auth_field(irc),
         '~' if d is None else ('%d:%s' % (1 if d.ready else 0, wire.enc_list([c.decode() for c in d.chunks]))),
         wire.enc(irc.nick), '1' if irc.afterConnect else '0', exc,
         enc_set(irc.REQUEST_CAPABILITIES),
         ','.join(wire.enc(k) + '=' + wire.enc(v) for k, v in sorted(net.stsPolicies.items())) if net.stsPolicies else '-',
         ','.join(wire.enc(k) + '=' + str(v) for k, v in sorted(net.lastDisconnectTimes.items())) if net.lastDisconnectTimes else '-']
    o = Obs()
    o.s = '\t'.join(f); o.msgs = msgs; o.calls = calls; o.fsm = st.fsm.state.name
    o.ls = dict(ls); o.req = set(st.capabilities_req); o.ack = set(st.capabilities_ack); o.nak = set(st.capabilities_nak)
    o.auth = irc.sasl_authenticated; o.after = irc.afterConnect; o.exc = exc
    o.wanted = set(irc.REQUEST_CAPABILITIES)
    return o

class FeedTimeout(BaseException):
    """raised by the watchdog inside Irc.feedMsg (BaseException: the firewall of feedMsg lets it through)"""

FEED_LIMIT_S = 5
HANGS = [0]

def feed_guarded(irc, m):
    """irc.feedMsg(m) under a watchdog: False when it did not return within FEED_LIMIT_S seconds"""
    import signal
    def boom(sig, frm):
        raise FeedTimeout()
    old = signal.signal(signal.SIGALRM, boom)
    # once several feeds have hung (never on a correct tree) the verdict is settled: do not spend the full
    # limit on each further one
    # (repeating: library code with a bare `except:` around the interrupted spot may swallow the first one)
    signal.setitimer(signal.ITIMER_REAL, FEED_LIMIT_S if HANGS[0] < 3 else 0.5, 0.05)
    try:
        irc.feedMsg(m)
        return True
    except FeedTimeout:
        HANGS[0] += 1
        return False
    finally:
        signal.setitimer(signal.ITIMER_REAL, 0)
        signal.signal(signal.SIGALRM, old)

def parse_line(b, line):
    """raw server line -> IrcMsg or None when the real parser rejects it"""
    try:
        return b.ircmsgs.IrcMsg(line)
    except Exception:
        return None

class ImplRun(object):
    """one Irc object driven step by step; records ops, observations and the model's op lines"""
    def __init__(self, cfg, nov3=False):
        self.b = boot()
        self.cfg = cfg
        self.irc = new_irc(cfg)
        self.ops = []
        self.obs = [observe(self.irc)]
        self.lines = [cfg_line(cfg) + ('\tnov3:1' if nov3 else '')]
    def msg(self, line):
        self.ops.append(('msg', line))
        m = parse_line(self.b, line)
        if m is None or m.prefix == self.irc.nick:
            self.obs.append(None); self.lines.append(None)
            return None
        if getattr(self, 'hung', None):
            self.obs.append(None); self.lines.append(None)
            return None
        if not feed_guarded(self.irc, m):
            # the script ends here: the bot is inside feedMsg for good
            self.hung = 'Irc.feedMsg(%r) did not return within %d s (state %s)' % (line, FEED_LIMIT_S, self.irc.state.fsm.state.name)
            self.obs.append(None); self.lines.append(None)
            return None
        self.lines.append('msg\t%s\t%s\t%s' % (wire.enc(m.command), wire.enc_list(m.args), wire.enc(m.nick)))
        self.obs.append(observe(self.irc))
        return self.obs[-1]
    def reset(self):
        self.ops.append(('reset',))
        self.lines.append('reset')
        self.irc.reset()
        self.obs.append(observe(self.irc))
        return self.obs[-1]
    def recfg(self, cfg):
        """the operator changes the configuration while the bot runs (takes effect at the next reset)"""
        self.ops.append(('cfg', dict(cfg)))
        self.cfg_now = dict(cfg)
        apply_cfg(self.b, full_cfg(cfg), fresh=False)
        self.lines.append('cfg' + cfg_line(cfg)[3:])
        self.obs.append(observe(self.irc))
        return self.obs[-1]
    def last(self):
        for o in reversed(self.obs):
            if o is not None:
                return o
    def close(self):
        if self.irc in self.b.world.ircs:
            self.b.world.ircs.remove(self.irc)

def run_impl(cfg, ops):
    """replay a recorded op list"""
    run = ImplRun(cfg)
    for op in ops:
        if op[0] == 'msg':
            run.msg(op[1])
        elif op[0] == 'cfg':
            run.recfg(op[1])
        else:
            run.reset()
    run.close()
    return run

# ------------------------------------------------------------------------------------------
# real SocketDriver over a fake socket (STS / reset / epoch runs; shared with harness/c09.py)
# ------------------------------------------------------------------------------------------
import socket as _socket

class FakeSocket(object):
    """in-memory socket: records what is sent (globally ordered), hands out queued chunks"""
    def __init__(self, world):
        self.w = world
        world.nsock += 1
        self.id = world.nsock
        self.inq = []
        self._closed = False
        self.tls = None
        self.port = None
    def settimeout(self, t): pass
    def connect(self, addr):
        self.port = addr[1]
        if self.w.fail_next > 0:
            self.w.fail_next -= 1
            raise _socket.error(111, 'Connection refused')
    def send(self, data):
        if self._closed:
            raise _socket.error(9, 'Bad file descriptor')
        self.w.sent.append((self.id, data))
        return len(data)
    def recv(self, n):
        if self.inq:
            return self.inq.pop(0)
        raise _socket.timeout()
    def shutdown(self, how): pass
    def close(self):
        if not self._closed:
            self._closed = True
            self.w.events.append(('closed',))
    def fileno(self): return 100 + self.id

class FakeClock(object):
    def __init__(self): self.t = 100000
    def time(self): return self.t
    def sleep(self, x): pass
    def __getattr__(self, n): return getattr(time, n)

class NetWorld(object):
    """per-process fake network: patched into supybot.utils.net / drivers.Socket once"""
    def __init__(self, b):
        self.b = b
        self.nsock = 0; self.sent = []; self.events = []; self.socks = []
        from supybot import utils
        import supybot.drivers.Socket as S
        import supybot.drivers as D
        self.S = S; self.D = D
        self.clock = FakeClock()
        S.time = self.clock; D.time = self.clock; b.ircdb.time = self.clock
        w = self
        def getSocket(address, port=None, **kw):
            s = FakeSocket(w); w.socks.append(s); return s
        # the real utils.net.ssl_wrap_socket runs, over a stand-in for the ssl module: what it decides (CA file, CA
        # directory, CERT_NONE, fingerprint check) is recorded on the socket; TLS itself is outside
        import ssl as _ssl
        class FakeCtx(object):
            def __init__(self, **kw):
                self.kw = kw; self.check_hostname = True; self.verify_mode = _ssl.CERT_REQUIRED; self.ca = None
            def load_verify_locations(self, cafile=None, capath=None, cadata=None):
                if cafile is not None and os.path.isdir(cafile):
                    raise IsADirectoryError(21, 'Is a directory', cafile)
                if cafile is not None and not os.path.exists(cafile):
                    raise FileNotFoundError(2, 'No such file or directory', cafile)
                self.ca = cafile or capath
            def load_cert_chain(self, certfile, *a, **k):
                pass
            def wrap_socket(self, conn, server_hostname=None, **k):
                conn.tls = {'verify': None, 'required': self.verify_mode != _ssl.CERT_NONE, 'fp': False,
                            'ca': self.ca, 'capath': self.kw.get('capath')}
                return conn
        class SslProxy(object):
            def create_default_context(self, *a, **kw):
                return FakeCtx(**kw)
            def __getattr__(self, n):
                return getattr(_ssl, n)
        utils.net.ssl = SslProxy()
        def check_fp(conn, fps):
            conn.tls['fp'] = True
        utils.net.check_certificate_fingerprint = check_fp
        real_wrap = utils.net.ssl_wrap_socket
        def wrap(conn, *a, **kw):
            c2 = real_wrap(conn, *a, **kw)
            c2.tls['verify'] = bool(kw.get('verify', True))
            return c2
        utils.net.getSocket = getSocket
        utils.net.getAddressFromHostname = lambda h, attempt=0: '192.0.2.1'
        utils.net.ssl_wrap_socket = wrap
        self.fail_next = 0; self.effective = []
        self.pending = None
        def select(r, wl, x, t=None):
            # a chunk waiting for delivery goes to the socket the driver is polling now
            if w.pending is not None and r:
                r[0].inq.append(w.pending); w.pending = None
                w.delivered = (r[0].id, len(w.sent), len(w.events))
            return ([c for c in r if getattr(c, 'inq', None)], [], [])
        S.select.select = select
        orig = S.SocketDriver.reconnect
        def reconnect(self_, wait=False, reset=True, server=None):
            if reset:
                w.events.append(('reconnect', bool(wait), tuple(server) if server is not None else None))
            before = len(w.socks)
            r = orig(self_, wait=wait, reset=reset, server=server)
            if len(w.socks) > before and self_.connected:
                c = self_.conn
                w.events.append(('connected', tuple(self_.currentServer), c.tls is not None, bool(c.tls and c.tls['verify'])))
                # was the peer's certificate really going to be checked (CA verification or fingerprint)?
                w.effective.append((tuple(self_.currentServer), bool(c.tls and (c.tls['required'] or c.tls['fp'])), dict(c.tls or {})))
            elif len(w.socks) > before:
                w.events.append(('connectfailed', tuple(self_.currentServer)))
            return r
        S.SocketDriver.reconnect = reconnect
    def reset(self):
        self.nsock = 0; self.sent = []; self.events = []; self.socks = []; self.fail_next = 0; self.effective = []
        self.S.SocketDriver._instances[:] = []
        self.D._newDrivers.clear()

_NET = None
def networld():
    global _NET
    if _NET is None:
        _NET = NetWorld(boot())
    return _NET

def tok_event(e):
    if e[0] == 'reconnect':
        return tok_call(e)
    if e[0] == 'closed':
        return 'X'
    if e[0] == 'connectfailed':
        return 'F:' + enc_server(e[1])
    return 'C:%s:%d:%d' % (enc_server(e[1]), 1 if e[2] else 0, 1 if e[3] else 0)

class RealRun(object):
    """a real irclib.Irc driven by a real drivers.Socket.SocketDriver over FakeSocket.
    cfg additionally: 'servers' [(host, port)], 'fingerprints' (bool)."""
    def __init__(self, cfg):
        self.b = boot()
        self.w = networld()
        self.w.reset()
        self.cfg = cfg
        c = full_cfg(cfg)
        c['certvalidation'] = bool(c['verifycerts'] or c.get('fingerprints') or c['cafile'])
        apply_cfg(self.b, c)
        net = self.b.conf.supybot.networks.test
        self.servers = [tuple(x) for x in (c.get('servers') or [(SERVER, 6667)])]
        net.servers.setValue(['%s:%d' % s for s in self.servers])
        net.ssl.serverFingerprints.setValue(['sha256:' + '0' * 64] if c.get('fingerprints') else [])
        self.w.clock.t = c['now']
        del self.b.excs[:]
        self.trace = []
        self._new_irc()
        self.c = c
        self.ops = []
        self.lines = [cfg_line(dict(cfg, certvalidation=c['certvalidation']), real=True,
                               servers=[(h, p, False) for h, p in self.servers])]
        self.obs = []
        self.drv = None

    def _new_irc(self):
        for i in list(self.b.world.ircs):
            self.b.world.ircs.remove(i)
        self.irc = self.b.irclib.Irc('test')
        irc = self.irc
        feed = irc.feedMsg; reset = irc.reset; tr = self.trace
        def feedMsg(msg, tag=True):
            tr.append(('msg', irc.state.fsm.state.name, msg.command))
            return feed(msg, tag)
        def reset_():
            tr.append(('reset',))
            return reset()
        irc.feedMsg = feedMsg; irc.reset = reset_

    def fail(self, n):
        """the next n connection attempts are refused"""
        if getattr(self, 'crashed', None):
            return self.obs[-1]
        self.ops.append(('fail', n))
        self.lines.append('fail\t%d' % n)
        self.w.fail_next = n
        o = self._observe()
        o.x['crash'] = None
        self.obs.append(o)
        return o

    def restart(self, now):
        """the bot is stopped and started again: the networks database (STS policies, disconnection times) is
        written to its file and read back, a new Irc object and a new SocketDriver are created"""
        if getattr(self, 'crashed', None):
            return self.obs[-1]
        b = self.b
        self.ops.append(('restart', now))
        self.lines.append('restart\t%d' % now)
        self.w.clock.t = now
        nets = b.ircdb.networks
        net = nets.getNetwork('test')
        before = {'policies': dict(net.stsPolicies), 'lastdisc': dict(net.lastDisconnectTimes),
                  'current': tuple(self.drv.currentServer), 'connected': False}
        old_name, old_noflush = nets.filename, nets.noFlush
        nets.filename = os.path.join(b.dir, 'networks-vt.conf'); nets.noFlush = False
        try:
            nets.flush()
            nets.reload()
        finally:
            nets.filename, nets.noFlush = old_name, old_noflush
        self.w.S.SocketDriver._instances[:] = []
        self.w.D._newDrivers.clear()
        self.w.sent = []; self.w.events = []
        del self.trace[:]
        del b.excs[:]
        self._new_irc()
        crash = None
        try:
            self.drv = self.w.S.SocketDriver(self.irc)
        except Exception as e:
            crash = '%s: %s' % (type(e).__name__, e)
            self.crashed = crash
            class _Dead(object):
                connected = False; servers = []; nextReconnectTime = None; inbuffer = b''
            d = _Dead(); d.currentServer = b.drivers.Server(self.servers[0][0], self.servers[0][1], None, False)
            self.drv = d
        else:
            self.irc.driver = self.drv
            self.drv._sendIfMsgs()
        o = self._observe()
        o.x['crash'] = crash
        o.x['before'] = before; o.x['now'] = now; o.x['restart'] = True
        self.obs.append(o)
        return o

    def _observe(self):
        irc = self.irc; w = self.w; b = self.b
        st = irc.state
        d = irc.authenticate_decoder
        exc = b.excs[0] if b.excs else '-'
        del b.excs[:]
        ev = [tok_event(e) for e in w.events]
        ls = st.capabilities_ls
        net = b.ircdb.networks.getNetwork('test')
        q = irc.queue
        queued = [tok_msg(m) for m in list(irc.fastqueue)]
        for name in ('highpriority', 'normal', 'lowpriority'):
            queued += [tok_msg(m) for m in list(getattr(q, name, []))]
        sent = []
        for sid, data in w.sent:
            for line in data.decode('utf-8', 'replace').split('\r\n'):
                if line:
                    m = parse_line(b, line)
                    sent.append('%d@%s' % (sid, tok_msg(m) if m is not None else 'M:?:' + wire.enc(line)))
        drv = self.drv
        f = [';'.join(ev) if ev else '-', st.fsm.state.name,
             ','.join(wire.enc(k) + '=' + wire.enc_opt(ls[k]) for k in sorted(ls)) if ls else '-',
             enc_set(st.capabilities_req), enc_set(st.capabilities_ack), enc_set(st.capabilities_nak),
             wire.enc_list(irc.sasl_next_mechanisms), wire.enc_opt(irc.sasl_current_mechanism),
             auth_field(irc),
             '~' if d is None else ('%d:%s' % (1 if d.ready else 0, wire.enc_list([c.decode() for c in d.chunks]))),
             wire.enc(irc.nick), '1' if irc.afterConnect else '0', '-',
             enc_set(irc.REQUEST_CAPABILITIES),
             ','.join(wire.enc(k) + '=' + wire.enc(v) for k, v in sorted(net.stsPolicies.items())) if net.stsPolicies else '-',
             ','.join(wire.enc(k) + '=' + str(v) for k, v in sorted(net.lastDisconnectTimes.items())) if net.lastDisconnectTimes else '-',
             ';'.join(queued) if queued else '-', ';'.join(sent) if sent else '-',
             '1' if drv.connected else '0', enc_server(tuple(drv.currentServer)),
             ','.join(enc_server(tuple(x)) for x in drv.servers) if drv.servers else '-',
             '1' if drv.nextReconnectTime is not None else '0', str(w.nsock)]
        o = Obs()
        o.s = '\t'.join(f); o.msgs = []; o.calls = list(w.events); o.fsm = st.fsm.state.name
        o.ls = dict(ls); o.req = set(st.capabilities_req); o.ack = set(st.capabilities_ack); o.nak = set(st.capabilities_nak)
        o.auth = irc.sasl_authenticated; o.after = irc.afterConnect; o.exc = exc
        o.wanted = set(irc.REQUEST_CAPABILITIES)
        o.x = {'effective': list(w.effective), 'wire': list(w.sent), 'events': list(w.events), 'policies': dict(net.stsPolicies),
               'lastdisc': dict(net.lastDisconnectTimes), 'connected': drv.connected, 'sock': w.nsock,
               'current': tuple(drv.currentServer), 'inbuffer': bytes(drv.inbuffer), 'queued': queued,
               'trace': list(self.trace)}
        del self.trace[:]
        w.sent = []; w.events = []; w.effective = []
        return o

    def start(self):
        self.ops.append(('dstart',))
        self.lines.append('dstart')
        crash = None
        try:
            self.drv = self.w.S.SocketDriver(self.irc)
        except Exception as e:          # the bot would not get past creating the driver of this network
            crash = '%s: %s' % (type(e).__name__, e)
            self.crashed = crash
            class _Dead(object):
                connected = False; servers = []; nextReconnectTime = None; inbuffer = b''
            d = _Dead(); d.currentServer = self.b.drivers.Server(self.servers[0][0], self.servers[0][1], None, False)
            self.drv = d
        else:
            self.irc.driver = self.drv
            # SocketDriver.__init__ connects but does not send; the model's drvStart flushes: do the same
            self.drv._sendIfMsgs()
        o = self._observe()
        o.x['crash'] = crash
        self.obs.append(o)
        return self.obs[-1]

    def run(self, now, due, lines, partial=None):
        """one SocketDriver.run(); `lines` (+ an unterminated `partial` tail) arrive in one recv() on the
        socket current at select time.  The messages given to the model are what the driver will really
        parse: its buffered partial line + this chunk, split at LF."""
        if getattr(self, 'crashed', None):
            return self.obs[-1]
        b = self.b
        self.ops.append(('run', now, bool(due), list(lines), partial))
        self.w.clock.t = now
        drv = self.drv
        will_reconnect = drv.nextReconnectTime is not None and due
        if drv.nextReconnectTime is not None:
            drv.nextReconnectTime = now - 1 if due else now + 100000
        raw = b''.join(l.encode('utf-8') + b'\r\n' for l in lines) + (partial.encode('utf-8') if partial else b'')
        will_read = bool(raw) and (drv.connected or will_reconnect)
        msgs = []
        if will_read:
            full = bytes(drv.inbuffer) + raw
            for piece in full.split(b'\n')[:-1]:
                text = self.b.drivers.Socket.decode_raw_line(piece).strip() if hasattr(self.b.drivers, 'Socket') else piece.decode('utf-8', 'replace').strip()
                if not text:
                    continue
                m = parse_line(b, text)
                if m is None:
                    continue
                msgs.append(m)
        self.lines.append('\t'.join(['run', str(now), '1' if due else '0'] +
                          ['%s;%s;%s' % (wire.enc(m.command), wire.enc_list(m.args), wire.enc(m.nick)) for m in msgs]))
        self.w.pending = raw or None
        self.w.delivered = None
        net = b.ircdb.networks.getNetwork('test')
        before = {'policies': dict(net.stsPolicies), 'lastdisc': dict(net.lastDisconnectTimes),
                  'current': tuple(drv.currentServer), 'connected': drv.connected}
        inbuf_before = bytes(drv.inbuffer)
        crash = None
        try:
            drv.run()
        except Exception as e:          # drivers.run() would log this and remove the driver for good
            crash = '%s: %s' % (type(e).__name__, e)
        self.w.pending = None
        o = self._observe()
        o.x['crash'] = crash
        o.x['before'] = before; o.x['delivered'] = self.w.delivered; o.x['lines'] = list(lines); o.x['now'] = now
        o.x['inbuffer_before'] = inbuf_before
        self.obs.append(o)
        return o

    def close(self):
        self.w.S.SocketDriver._instances[:] = []
        if self.irc in self.b.world.ircs:
            self.b.world.ircs.remove(self.irc)

LATE_STATES = ('INIT_WAITING_MOTD', 'INIT_MOTD', 'CONNECTED', 'CONNECTED_SASL')

def _is_903(line):
    t = line.split(' ')
    if t and t[0].startswith(':'):
        t = t[1:]
    return bool(t) and t[0] == '903'

def required_oracle(cfg, ops, obs):
    """C09: with sasl.required the bot never sends CAP END / JOIN, never is past the negotiation and never
    sets afterConnect on a connection where SASL did not succeed.  "Succeeded" is judged from the outside:
    the server sent 903 while the bot was inside a SASL exchange (state INIT_SASL / CONNECTED_SASL, which it
    only enters after the server acknowledged `sasl`) — not from the bot's own flag.
    Stub-driver histories: judged until the first driver abort of an epoch."""
    if not cfg.get('required'):
        return []
    bad = []
    aborted = False
    success = False
    responded = False        # a complete answer of the bot went out since it last asked for a mechanism
    prev = None
    for op, o in zip([('new',)] + list(ops), obs):
        if o is None:
            continue
        if op[0] == 'reset':
            aborted = False; success = False; responded = False
        if op[0] == 'msg' and prev is not None and _is_903(op[1]) and prev.fsm in FSM_SASL and responded:
            success = True
        for m in o.msgs:
            if m.command == 'AUTHENTICATE' and m.args:
                if is_mech(m.args[0]):
                    responded = False
                elif m.args[0] != '*' and len(m.args[0]) < 400:
                    responded = True
        prev = o
        if aborted:
            continue
        sent = _judged_sends(o)
        if not success:
            if sent:
                bad.append(('sasl_required_safe', 'sasl.required is set, no SASL exchange succeeded, but the bot sent %r' % [(m.command,) + tuple(m.args) for m in sent]))
            if o.after:
                bad.append(('sasl_required_safe', 'sasl.required is set, no SASL exchange succeeded, but afterConnect is set'))
            if o.fsm in LATE_STATES:
                bad.append(('sasl_required_safe', 'sasl.required is set, no SASL exchange succeeded, but the connection state is %s' % o.fsm))
        if o.calls:
            aborted = True
    return bad

def _judged_sends(o):
    # in the very step in which Irc.do376 aborts, Owner.do376 (a callback running after it) still queues the
    # JOINs; with the real driver they land in the queue that reconnect() has just reset and that is reset
    # again before the next connection (checked on the wire in the real-driver histories), so only the
    # recording stub ever hands them out: not judged in the abort step itself
    return [m for m in o.msgs if (m.command == 'CAP' and m.args[:1] == ('END',)) or (m.command == 'JOIN' and not o.calls)]

def sts_tokens(line):
    """the `sts` items of a CAP LS / CAP NEW line the bot will look at: list of policy strings (None for a
    valueless `sts`); [] when the line is not such a line"""
    b = boot()
    m = parse_line(b, line)
    if m is None or m.command.upper() != 'CAP' or len(m.args) < 3:
        return []
    sub = m.args[1].upper()
    if sub == 'LS' and len(m.args) == 4 and m.args[2] == '*':
        caps = m.args[3]
    elif sub in ('LS', 'NEW') and len(m.args) == 3:
        caps = m.args[2]
    else:
        return []
    out = []
    for item in caps.split():
        item = item.lstrip('=~')
        if '=' in item:
            k, v = item.split('=', 1)
            if k == 'sts':
                out.append(v)
        elif item == 'sts':
            out.append(None)
    return out

def policy_port(policy, need_duration=False):
    d = {}
    for kv in policy.split(','):
        if '=' in kv:
            k, v = kv.split('=', 1); d[k] = v
        else:
            d[kv] = None
    try:
        port = int(d['port'])
        dur = int(d['duration']) if need_duration else None
    except (KeyError, ValueError, TypeError):
        return None
    return (port, dur)

def real_oracle(run):
    """the C08 `epoch_clean` and the C09 STS statements evaluated on a real-driver history"""
    bad = []
    c = run.c
    certval = bool(c['certvalidation'])
    pending_upgrade = None      # (port) the next connection must use
    success = False             # a SASL exchange succeeded in the current epoch
    sock_lines = {}             # socket id -> lines sent on it so far
    for op, o in zip(run.ops, run.obs):
        x = o.x
        if op[0] == 'restart':
            success = False; pending_upgrade = None
        if op[0] == 'fail':
            continue
        # --- a connection the bot takes for verified TLS (forced by a policy, or ssl with a validation of the operator's
        # own) was set up so that the certificate is really checked: CA verification or a fingerprint check
        for srv, eff, info in x['effective']:
            if (srv[3] or (c['ssl'] and certval)) and not eff:
                bad.append(('forced_tls_verified', 'connection to %r counts as verified TLS (forced=%s, ssl=%s, certificate validation configured=%s) but the TLS context checks nothing: %r' % (srv, srv[3], c['ssl'], certval, info)))
        if x.get('crash'):
            bad.append(('driver_crash', 'SocketDriver / SocketDriver.run() raised %s (drivers.run would remove the driver for good); stored policies: %r' % (x['crash'], x['policies'])))
        # --- sasl.required on the wire ("succeeded" = 903 received inside a SASL exchange, this epoch)
        for t in x['trace']:
            if t[0] == 'reset':
                success = False
            elif t[2] == '903' and t[1] in FSM_SASL:
                success = True
        if c['required'] and not success:
            for sid, data in x['wire']:
                for l in data.decode('utf-8', 'replace').split('\r\n'):
                    if l.startswith('CAP END') or l.startswith('JOIN '):
                        bad.append(('sasl_required_safe', 'sasl.required is set, no SASL exchange succeeded, but %r was written to socket %d' % (l, sid)))
            if o.after or o.fsm in LATE_STATES:
                bad.append(('sasl_required_safe', 'sasl.required is set, no SASL exchange succeeded, but state=%s afterConnect=%s' % (o.fsm, o.after)))
        # --- per socket: what was written
        fresh_after_delivery = set()
        dl = x.get('delivered')
        for i, (sid, data) in enumerate(x['wire']):
            ls_ = [l for l in data.decode('utf-8', 'replace').split('\r\n') if l]
            sock_lines.setdefault(sid, [])
            if dl is not None and sid > dl[0]:
                fresh_after_delivery.add(sid)
            sock_lines[sid] += ls_
        # --- epoch_clean: a socket opened by a handler while an old chunk is being processed only gets the connect messages
        for sid in fresh_after_delivery:
            got = sock_lines[sid]
            want = ['CAP LS :302'] + (['PASS :' + c['password']] if c['password'] else []) + ['NICK :' + c['nick'], 'USER %s 0 * :%s' % (c['ident'], c['user'])]
            if got != want:
                bad.append(('epoch_clean', 'socket %d (opened while processing a chunk received on socket %d) was sent %r, expected only the connect messages %r' % (sid, dl[0], got, want)))
        if dl is not None and (x['sock'] > dl[0] or not x['connected']) and x['inbuffer']:
            bad.append(('epoch_clean', 'after the reconnect the driver still buffers %r received on the old connection' % x['inbuffer']))
        if op[0] == 'restart':
            # what was stored survives the restart (written to networks.conf and read back) and is applied to the
            # first connection of the new process
            bp = x['before']
            for e in x['events']:
                if e[0] == 'connected':
                    _check_applied(bad, c, e, dict(bp['policies']), dict(bp['lastdisc']), x['now'], certval)
            for k, v in bp['policies'].items():
                pp = policy_port(v, need_duration=True)
                ld = bp['lastdisc'].get(k)
                expired = pp is not None and ld is not None and ld + pp[1] < x['now']
                if x['policies'].get(k) != v and not expired and pp is not None:
                    bad.append(('sts_applied', 'the STS policy %r stored for %s did not survive the restart (networks database written and read back): now %r' % (v, k, x['policies'].get(k))))
            continue
        if op[0] != 'run':
            # first connection
            for e in x['events']:
                if e[0] == 'connected':
                    _check_applied(bad, c, e, dict(c['policies']), dict(c['lastdisc']), c['now'], certval)
            continue
        before = x['before']
        # --- connections made in this op (the disconnection time is recorded when the old socket is closed)
        lastdisc = dict(before['lastdisc'])
        cur_host = before['current'][0]
        for e in x['events']:
            if e[0] == 'closed':
                lastdisc[cur_host] = x['now']
            if e[0] == 'connectfailed':
                cur_host = e[1][0]
                if pending_upgrade is not None:
                    # the upgrade was attempted (and refused): it must have been to the policy's port, forced
                    if not (e[1][1] in pending_upgrade and e[1][3]):
                        bad.append(('sts_insecure_upgrade', 'after an STS policy with port %r on an insecure connection the next connection attempt is %r' % (sorted(pending_upgrade), e[1])))
                    pending_upgrade = None
                elif x['policies'] == before['policies']:
                    _check_applied(bad, c, ('connected', e[1], True, True), before['policies'], lastdisc, x['now'], True)
            if e[0] == 'connected':
                cur_host = e[1][0]
                if pending_upgrade is not None:
                    srv = e[1]
                    if not (srv[1] in pending_upgrade and e[2] and (e[3] or certval) and srv[3]):
                        bad.append(('sts_insecure_upgrade', 'after an STS policy with port %r on an insecure connection the next connection is %r tls=%s verify=%s' % (sorted(pending_upgrade), srv, e[2], e[3])))
                    pending_upgrade = None
                else:
                    # judged when the stored policies were not touched by this very operation
                    # (a policy stored or expired earlier in the operation cannot be attributed from outside)
                    if x['policies'] == before['policies']:
                        _check_applied(bad, c, e, before['policies'], lastdisc, x['now'], certval)
        # --- STS seen on the connection the chunk arrived on
        if dl is not None and before['connected'] and dl[0] == x['sock'] - len([e for e in x['events'] if e[0] in ('connected', 'connectfailed')]):
            cur = before['current']
            secure = bool(cur[3] or (c['ssl'] and certval))
            ports = []
            # judged when the policy is on the first line of the chunk (an earlier line may make the
            # driver leave the connection for another reason, then the rest of the chunk is dropped)
            toks = sts_tokens(x['lines'][0]) if x['lines'] and not x['inbuffer_before'] else []
            if toks and toks[0] is not None:
                for t in toks:
                    pp = policy_port(t, need_duration=False) if t is not None else None
                    if pp is not None:
                        ports.append(pp[0])
                if policy_port(toks[0], need_duration=secure) is None:
                    ports = []       # the first policy does not parse: the bot ignores it and goes on
            if ports and not secure:
                # nothing more on this socket, nothing stored, next connection = policy port + verification
                later = [(sid, d) for (sid, d) in x['wire'][dl[1]:] if sid == dl[0]]
                if later:
                    bad.append(('sts_insecure_upgrade', 'bytes %r written on the insecure socket after the STS policy arrived' % (later,)))
                if x['policies'] != before['policies']:
                    bad.append(('sts_store_only_secure', 'policy stored from an insecure connection: %r' % (x['policies'],)))
                got = [e for e in x['events'][dl[2]:] if e[0] == 'reconnect']
                if not got or got[0] != ('reconnect', True, (cur[0], ports[0], cur[2], True)):
                    bad.append(('sts_insecure_upgrade', 'expected reconnect(server=(%r, %d, %r, True), wait=True) first, driver calls were %r' % (cur[0], ports[0], cur[2], got)))
                else:
                    conn = [e for e in x['events'][dl[2]:] if e[0] == 'connected']
                    if conn:
                        srv = conn[0][1]
                        if not (srv[1] in ports and conn[0][2] and (conn[0][3] or certval) and srv[3]):
                            bad.append(('sts_insecure_upgrade', 'connection after the STS upgrade: %r' % (conn[0],)))
                    else:
                        pending_upgrade = set(ports)
        # --- a policy appears / changes only on a secure connection
        if x['policies'] != before['policies']:
            grown = {k: v for k, v in x['policies'].items() if before['policies'].get(k) != v}
            if grown:
                cur = before['current']
                secure_then = bool(cur[3] or (c['ssl'] and certval))
                # a reconnect inside the op may have changed the server: accept any server of this op that was secure
                secure_any = secure_then or any(e[0] == 'connected' and (e[1][3] or (c['ssl'] and certval)) for e in x['events'])
                if not secure_any:
                    bad.append(('sts_store_only_secure', 'policies %r stored although the connection was not verified TLS' % grown))
    return bad

def _check_applied(bad, c, e, policies, lastdisc, now, certval):
    srv = e[1]
    pol = policies.get(srv[0])
    if pol is None:
        return
    pp = policy_port(pol, need_duration=True)
    if pp is None:
        return
    last = lastdisc.get(srv[0])
    expired = last is not None and last + pp[1] < now
    if expired:
        return
    if not (srv[1] == pp[0] and e[2] and (e[3] or certval) and srv[3]):
        bad.append(('sts_applied', 'stored unexpired policy %r for %s but the connection is %r tls=%s verify=%s' % (pol, srv[0], srv, e[2], e[3])))

STS_LINES = ['CAP * LS :multi-prefix sts=port=6697,duration=100 batch', 'CAP * LS :sts=port=6697', 'CAP * LS * :sts=port=7000,duration=5',
             'CAP * LS :sts=duration=100 sasl', 'CAP * LS :sts=port=x,duration=1', 'CAP * LS :sts batch', 'CAP * NEW :sts=port=6697,duration=300',
             'CAP * LS :sts=port=6697,duration=0', 'CAP * LS :sts=port=+66_97,duration=1_0', 'CAP * LS :sts=port=6697,duration=,port=7001',
             'CAP * LS :batch sts=port=6697,duration=100000 sts=port=1', 'CAP * LS :sts=port=6697,duration=-5', 'CAP * NEW :sts=port=-1',
             'CAP * LS :~sts=port=6698,duration=10', 'CAP * LS :sts=port=6697,foo,duration=3600,preload']

def gen_policy(r):
    """an STS policy string: key=value tokens, value-less keys (the specification's `preload`, unknown ones) in any
    position, empty tokens (leading / double / trailing commas), repeated keys, keys with an empty value"""
    toks = []
    if r.random() < 0.9:
        toks.append('port=' + r.choice(['6697', '6697', '7000', '6667', '+6697', '66_97', '0', '-1', 'x', '', ' 6697']))
    if r.random() < 0.8:
        toks.append('duration=' + r.choice(['100', '2592000', '0', '1_0', '-5', '', 'x', '5000']))
    for _ in range(r.choice([0, 0, 1, 1, 2, 3])):
        toks.append(r.choice(['preload', 'preload', 'foo', 'foo=bar', 'foo=', '', '', 'port', 'duration', 'port=7001', 'duration=7', '=', '=x', 'PORT=1']))
    r.shuffle(toks)
    return ','.join(toks)

def gen_sts_line(r):
    if r.random() < 0.4:
        return r.choice(STS_LINES)
    item = 'sts=' + gen_policy(r)
    others = [r.choice(['batch', 'multi-prefix', 'sasl', 'msgid']) for _ in range(r.choice([0, 1, 2]))]
    caps = others + [item]
    if r.random() < 0.15:
        caps.append('sts=' + gen_policy(r))
    r.shuffle(caps)
    if r.random() < 0.2:
        # other white space than the blank inside the list (str.split() takes it as a separator too)
        caps.insert(r.randint(0, len(caps)), r.choice(['1', 'x', 'batch']))
        return r.choice(['CAP * LS :', 'CAP * LS :', 'CAP * LS * :', 'CAP * NEW :']) + ''.join(
            c + r.choice([' ', ' ', WS_ODD[r.randrange(len(WS_ODD))]]) for c in caps).rstrip(' ')
    return r.choice(['CAP * LS :', 'CAP * LS :', 'CAP * LS * :', 'CAP * NEW :']) + ' '.join(caps)

WS_ODD = ['\t', '\x0b', '\x0c', '\xa0', '\x1f', '\u2003', ' \t', '\t ']

def gen_real_cfg(r):
    c = gen_cfg(r, 'real')
    for k in ('forced', 'certvalidation'):
        c.pop(k, None)
    c['ssl'] = r.random() < 0.5
    c['verifycerts'] = r.random() < 0.4
    if r.random() < 0.3:
        c['fingerprints'] = True
    if r.random() < 0.25:
        c['cafile'] = r.choice(['file', 'file', 'dir'])
    # the configured host name: also mixed case / trailing dot (the STS store is keyed by exactly this string);
    # the configured port: also the very port a stored policy names
    host = r.choice([SERVER, SERVER, 'Irc.Test', 'IRC.Example.COM', 'irc.test.'])
    port = r.choice([6667, 6667, 6697, 7000])
    c['servers'] = [(host, port)]
    k = r.randint(0, 5)
    if k >= 2:
        key = host if r.random() < 0.85 else host.lower()
        c['policies'] = {key: r.choice(['port=6697,duration=1000', 'port=6697,duration=100000', 'port=7000,duration=0', 'port=6697,duration=500,preload',
                                        'preload,port=6697,duration=100000', 'port=6697,,duration=100000,', 'foo,port=7000,duration=100000,port=6697'])}
        if k >= 3:
            c['lastdisc'] = {key: 100000 - r.choice([0, 10, 600, 999, 1001, 5000, 99999])}
    if r.random() < 0.15:
        c['servers'] = [(host, port), ('alt.test', 7000)]
    return c

def script_real(r, cfg, n):
    run = RealRun(cfg)
    run.start()
    now = cfg.get('now', 100000)
    S = ':' + SERVER + ' '
    for _ in range(n):
        now += r.choice([0, 1, 1, 5, 60, 2000])
        lines = []
        for j in range(r.choice([0, 1, 1, 1, 2, 3, 4])):
            k = r.random()
            if k < (0.45 if j == 0 else 0.15):
                lines.append(S + gen_sts_line(r))
            elif k < 0.4:
                lines.append(r.choice(['ERROR :Closing link: (bye)', 'ERROR :You are connecting too fast', S + 'PING :vt']))
            else:
                lines.append(gen_adv_line(r, run.obs[-1]))
        if r.random() < 0.15:
            run.fail(r.choice([1, 1, 2, 3]))
        run.run(now, r.random() < 0.6, lines, 'PARTIAL' if r.random() < 0.1 else None)
        if r.random() < 0.12:
            now += r.choice([1, 60, 2000])
            run.restart(now)
    run.close()
    return run

def make_real_case(run, kind='real', preds=None):
    bad = real_oracle(run)
    if preds is not None:
        bad = [b for b in bad if b[0] in preds]
    ops = [list(op) for op in run.ops]
    t = set(['real'])
    for o in run.obs:
        t.add('fsm:' + o.fsm)
        for e in o.x['events']:
            t.add('drv:' + e[0] + (':wait' if e[0] == 'reconnect' and e[1] else '') + (':server' if e[0] == 'reconnect' and e[2] else '') +
                  ((':tls' if e[2] else ':plain') + (':verify' if e[3] else '') if e[0] == 'connected' else ''))
        if o.x['policies']:
            t.add('db:policy')
    c = XCase({'cfg': run.cfg, 'ops': ops, 'real': True}, kind=kind, tags=sorted(t))
    c.impl = '\n'.join(o.s for o in run.obs)
    c.oracle_ok = not bad
    c.oracle_msg = '; '.join('%s: %s' % b for b in bad[:4])
    c.finding = None
    c._lines = run.lines
    c._bad = bad
    c._skip_first = True
    return c

def run_real(cfg, ops):
    run = RealRun(cfg)
    for op in ops:
        if op[0] == 'dstart':
            run.start()
        elif op[0] == 'restart':
            run.restart(op[1])
        elif op[0] == 'fail':
            run.fail(op[1])
        else:
            run.run(op[1], op[2], op[3], op[4] if len(op) > 4 else None)
    run.close()
    return run

# ------------------------------------------------------------------------------------------
# model side
# ------------------------------------------------------------------------------------------
def cfg_line(cfg, real=False, servers=()):
    b = boot()
    c = full_cfg(cfg)
    def B(x): return '1' if x else '0'
    def srv(h, p, f): return '%s/%d/%s' % (wire.enc(h), p, B(f))
    f = ['new', 'nick:' + wire.enc(c['nick']), 'ident:' + wire.enc(c['ident']), 'user:' + wire.enc(c['user']),
         'password:' + wire.enc(c['password']), 'alternates:' + wire.enc_list(c['alternates']),
         'mechanisms:' + wire.enc_list(c['mechs']), 'sasluser:' + wire.enc(c['sasluser']), 'saslpass:' + wire.enc(c['saslpass']),
         'ecdsakey:' + wire.enc(c['ecdsakey']), 'ecdsaok:' + B(c['ecdsakey'] == 'ok'), 'certfile:' + B(c['certfile']),
         'required:' + B(c['required']), 'joins:' + B(c['joins']), 'crypto:' + B(b.has_crypto), 'real:' + B(real),
         'ssl:' + B(c['ssl']), 'certvalidation:' + B(c['certvalidation']), 'verifycerts:' + B(c['verifycerts']), 'tlsfails:' + B(c['cafile'] == 'dir'),
         'servers:' + (','.join(srv(*s) for s in servers) if servers else '-'),
         'scram:' + B(c['scram']), 'scramhashes:' + wire.enc_list(c['scramhashes']), 'scramfirst:' + wire.enc(c['scramfirst']),
         'scramfinal:' + wire.enc_opt(c['scramfinal']), 'scramfinish:%d' % c['scramfinish'],
         'stub:' + srv(c['host'], c['port'], c['forced']),
         'policies:' + (','.join(wire.enc(k) + '=' + wire.enc(v) for k, v in sorted(c['policies'].items())) if c['policies'] else '-'),
         'lastdisc:' + (','.join(wire.enc(k) + '=' + str(v) for k, v in sorted(c['lastdisc'].items())) if c['lastdisc'] else '-'),
         'now:%d' % c['now']]
    return '\t'.join(f)

def unify(model, impl):
    """model tokens ending in ':?' (random nick, ecdsa signature, JOIN list) match any impl token of that
    command — in the outs field and, for real-driver observations, in the queued and wire fields"""
    if ':?' not in model:
        return impl
    mf = model.split('\t'); jf = impl.split('\t')
    if len(mf) != len(jf):
        return impl
    for fi in (0, 16, 17):
        if fi >= len(mf) or ':?' not in mf[fi]:
            continue
        mt = mf[fi].split(';'); it = jf[fi].split(';')
        if len(mt) != len(it):
            continue
        for i, t in enumerate(mt):
            if t.endswith(':?') and it[i].startswith(t[:-1]):
                it[i] = t
        jf[fi] = ';'.join(it)
    return '\t'.join(jf)

# ------------------------------------------------------------------------------------------
# the property statement on the implementation's stream (stub driver)
# ------------------------------------------------------------------------------------------
MECH_NAMES = ('PLAIN', 'EXTERNAL', 'ECDSA-NIST256P-CHALLENGE')
def is_mech(x):
    """an AUTHENTICATE argument that names a mechanism (base64 has no '-')"""
    return x in MECH_NAMES or x.startswith('SCRAM-')
# numerics that make Irc.feedMsg adopt args[0] as the bot's nick (the server has registered us under it)
NICK_SETTERS = ('001', '002', '003', '004', '005', '250', '251', '252', '254', '255', '265', '266', '372', '375', '376', '333', '353', '332', '366')

def usable_mechs(cfg):
    """the mechanisms of the configuration the bot can offer (Irc.resetSasl), judged from the configuration"""
    c = full_cfg(cfg)
    out = []
    for m in c['mechs']:
        if m == 'ecdsa-nist256p-challenge':
            ok = boot().has_crypto and c['sasluser'] and c['ecdsakey']
        elif m == 'external':
            ok = c['certfile']
        elif m.startswith('scram-'):
            ok = c['scram'] and c['sasluser'] and c['saslpass']
        elif m == 'plain':
            ok = c['sasluser'] and c['saslpass']
        else:
            ok = False
        if ok:
            out.append(m)
    return out

def safety_oracle(ops, obs, cfg=None):
    """returns list of (predicate, message) violated.  Epochs end at 'reset'; after a driver abort
    (reconnect/die on the stub, which does not reset) the rest of the epoch is not judged.  `cfg` = the
    configuration the run started with (a 'cfg' op replaces it; it takes effect at the next reset)."""
    bad = []
    ends = 0; aborted = False; sasl_acked = False; welcomed = False
    answered = set()          # every capability the server ACKed or NAKed during the negotiation of this epoch
    srv_ack = set(); srv_nak = set()   # … ACKed / NAKed at any time in this epoch
    nicks = set(m.args[0] for m in obs[0].msgs if m.command == 'NICK' and m.args)   # every nick asked for in this epoch
    partial = []              # the 400-character AUTHENTICATE lines of the server message that is being received
    prev = obs[0]
    cfg_next = cfg; cfg_epoch = cfg; changed = False
    for op, o in zip(ops, obs[1:]):
        if o is None:
            continue
        if op[0] == 'cfg':
            cfg_next = op[1]; changed = True
            prev = o
            continue
        if op[0] == 'reset':
            ends = 0; aborted = False; sasl_acked = False; welcomed = False; answered = set(); srv_ack = set(); srv_nak = set()
            nicks = set(m.args[0] for m in o.msgs if m.command == 'NICK' and m.args)
            partial = []
            cfg_epoch = cfg_next
            if not changed and o.s.split('\t')[:13] != obs[0].s.split('\t')[:13]:
                bad.append(('reset_fresh', 'after reset the observable state differs from a new Irc: %r vs %r' % (o.s, obs[0].s)))
            prev = o
            continue
        if not aborted:
            trigger = op[1]
            if 'sasl' in o.ack:
                sasl_acked = True
            for m in o.msgs:
                if m.command == 'CAP' and m.args and m.args[0] == 'REQ':
                    words = m.args[1].split() if len(m.args) > 1 else []
                    for w in words:
                        if w not in o.ls:
                            bad.append(('req_subset', 'CAP REQ %r: %r was not advertised (ls=%r)' % (m.args, w, sorted(o.ls))))
                        if w not in o.wanted:
                            bad.append(('req_subset', 'CAP REQ %r: %r is not in REQUEST_CAPABILITIES' % (m.args, w)))
                        if w == 'sasl' and cfg_epoch is not None and not usable_mechs(cfg_epoch):
                            bad.append(('req_subset', 'CAP REQ %r asks for sasl although this network\'s configuration offers no usable mechanism (mechanisms=%r)' % (m.args, full_cfg(cfg_epoch)['mechs'])))
                    if 'echo-message' in words and 'labeled-response' not in words and 'labeled-response' not in prev.ack:
                        bad.append(('echo_needs_label', 'CAP REQ %r requests echo-message without labeled-response (ack=%r)' % (m.args, sorted(prev.ack))))
                if m.command == 'CAP' and m.args and m.args[0] == 'REQ' and ends and not welcomed:
                    bad.append(('req_after_end', 'CAP REQ %r sent after CAP END while the registration is not complete: the server suspends the registration until another CAP END, which is never sent' % (m.args,)))
                if m.command == 'CAP' and m.args and m.args[0] == 'END':
                    ends += 1
                    if ends > 1:
                        bad.append(('cap_end_once', 'second CAP END in the same connection epoch'))
                    if prev.fsm not in ('INIT_CAP_NEGOTIATION', 'INIT_SASL'):
                        bad.append(('cap_end_once', 'CAP END sent from state %s' % prev.fsm))
                    if not (o.req <= (o.ack | o.nak)):
                        bad.append(('cap_end_outstanding', 'CAP END sent while %r is requested but neither ACKed nor NAKed' % sorted(o.req - o.ack - o.nak)))
                if m.command == 'NICK' and m.args and not prev.after:
                    if m.args[0] in nicks:
                        bad.append(('progress', 'NICK %r asked for again after it was refused earlier on this connection (%d nicks tried)' % (m.args[0], len(nicks))))
                    nicks.add(m.args[0])
                if m.command == 'JOIN' and not o.after and not o.calls:
                    bad.append(('join_needs_motd_end', 'JOIN %r queued although the end of the MOTD has not been handled (afterConnect unset, no abort; state %s)' % (m.args, o.fsm)))
                if m.command == 'AUTHENTICATE':
                    if not sasl_acked:
                        bad.append(('sasl_after_ack', 'AUTHENTICATE %r sent although the server never acknowledged sasl' % (m.args,)))
                    if not (m.args and is_mech(m.args[0])):
                        # payload / abort: only as the answer to a server AUTHENTICATE, inside a SASL state
                        tm = trigger.split(' ')
                        tcmd = (tm[1] if tm[0].startswith(':') and len(tm) > 1 else tm[0]).upper()
                        if tcmd != 'AUTHENTICATE':
                            bad.append(('sasl_after_ack', 'AUTHENTICATE payload sent in response to %r' % trigger))
                        if prev.fsm not in FSM_SASL:
                            bad.append(('sasl_after_ack', 'AUTHENTICATE payload sent in state %s' % prev.fsm))
            # local progress (holds for every server, conformant or not): a final CAP LS arriving during the
            # negotiation is answered by CAP REQ, CAP END or an abort; a nick refusal before the end of the
            # registration is answered by a new NICK
            t = trigger.split(' ')
            if t and t[0].startswith(':'):
                t = t[1:]
            if len(t) >= 4 and t[0] == 'CAP' and t[2] == 'LS' and t[3].startswith(':') and prev.fsm == 'INIT_CAP_NEGOTIATION':
                if not o.calls and not any(m.command == 'CAP' and m.args[:1] in (('REQ',), ('END',)) for m in o.msgs):
                    bad.append(('progress', 'the final CAP LS %r was answered neither by CAP REQ nor by CAP END nor by an abort (state %s): the bot waits for something the server will not send' % (trigger, o.fsm)))
            # the AUTHENTICATE decoder holds exactly the lines of the server message being received on this connection
            # (nothing left over from an abandoned exchange), and an empty challenge is answered as one
            fdec = o.s.split('\t')[9]
            m_ = parse_line(boot(), trigger)
            if m_ is not None and m_.command == 'AUTHENTICATE' and m_.args and prev.fsm in FSM_SASL:
                empty_challenge = (m_.args[0] == '+' and not partial)
                if m_.args[0] != '+':
                    partial.append(m_.args[0])
                if empty_challenge and o.exc == '-' and cfg_epoch is not None and prev.s.split('\t')[7] == wire.enc_opt('ecdsa-nist256p-challenge'):
                    want = base64.b64encode(full_cfg(cfg_epoch)['sasluser'].encode('utf-8')).decode()
                    got = ''.join(m.args[0] for m in o.msgs if m.command == 'AUTHENTICATE' and m.args and m.args[0] != '+')
                    if got != want:
                        bad.append(('sasl_answer', 'the empty ECDSA challenge (AUTHENTICATE +, nothing pending) was not answered with the account name: sent %r' % ([(m.command,) + tuple(m.args) for m in o.msgs],)))
            if fdec == '~':
                partial = []
            else:
                held = wire.dec_list(fdec.split(':', 1)[1])
                if held != partial:
                    bad.append(('decoder_leak', 'the AUTHENTICATE decoder holds %d line(s) %r but %d line(s) of an unfinished server message arrived on this connection' % (len(held), [h[:12] for h in held], len(partial))))
                    partial = list(held)
            # the bot's record of the answers holds nothing the server did not say (a CAP DEL turns an ACK into a refusal)
            if len(t) >= 4 and t[0].upper() == 'CAP' and t[2].upper() in ('ACK', 'NAK'):
                m_ = parse_line(boot(), trigger)
                if m_ is not None and len(m_.args) == 3:
                    (srv_ack if m_.args[1].upper() == 'ACK' else srv_nak).update(m_.args[2].split())
            if not (o.ack <= srv_ack) or not (o.nak <= (srv_nak | srv_ack)):
                bad.append(('cap_sets', 'capabilities_ack=%r / capabilities_nak=%r hold names the server never acknowledged / refused (ACKed %r, NAKed %r)' % (sorted(o.ack), sorted(o.nak), sorted(srv_ack), sorted(srv_nak))))
            # once the server has answered every capability the bot requested (ACK or NAK, a later CAP DEL does not
            # take an answer back), the ACK / NAK that completes the answers ends the negotiation: CAP END, the SASL
            # exchange, or an abort
            if len(t) == 4 and t[0] == 'CAP' and t[2] in ('ACK', 'NAK') and t[3].startswith(':') and prev.fsm == 'INIT_CAP_NEGOTIATION':
                m_ = parse_line(boot(), trigger)
                words = m_.args[2].split() if m_ is not None and len(m_.args) == 3 else []
                answered |= set(words)
                if words and o.exc == '-' and not o.calls and o.fsm == 'INIT_CAP_NEGOTIATION' and o.req <= answered and not prev.auth:
                    bad.append(('progress', 'every requested capability %r has been answered by the server, but %r ended the negotiation neither by CAP END nor by AUTHENTICATE nor by an abort' % (sorted(o.req), trigger)))
            if o.exc not in ('-', 'ValueError', 'AssertionError', 'IndexError', 'AttributeError', 'Error'):
                # the handlers reject malformed input by ValueError (state check), AssertionError, IndexError, AttributeError (908)
                # and binascii.Error; anything else is an error path the code does not handle
                bad.append(('progress', 'the handler of %r raised %s (state %s, sent %r)' % (trigger, o.exc, o.fsm, [(m.command,) + tuple(m.args) for m in o.msgs])))
            # the credentials of one answer end with a line shorter than the chunk size (or `+`): the server
            # takes a line of exactly AUTHENTICATE_CHUNK_SIZE characters as "more follows"
            pay = [m.args[0] for m in o.msgs if m.command == 'AUTHENTICATE' and m.args and not is_mech(m.args[0])]
            if pay and len(pay[-1]) >= 400:
                bad.append(('progress', 'the AUTHENTICATE answer ends with a %d-character line (%d lines): the server waits for the rest, the bot for the verdict' % (len(pay[-1]), len(pay))))
            if any(len(x) > 400 for x in pay) or any(len(x) != 400 for x in pay[:-1]):
                bad.append(('progress', 'AUTHENTICATE answer chunked as %r characters' % [len(x) for x in pay]))
            if t and t[0] in NICK_SETTERS:
                welcomed = True
            if t and t[0] in ('432', '433', '437') and not prev.after and not welcomed:
                if not o.calls and not any(m.command == 'NICK' for m in o.msgs):
                    bad.append(('progress', 'the nick refusal %r was not answered by a new NICK (exception: %s)' % (trigger, o.exc)))
            if o.calls:
                aborted = True
        prev = o
    return bad

# ------------------------------------------------------------------------------------------
# generators
# ------------------------------------------------------------------------------------------
WANTED = ['account-notify', 'account-tag', 'away-notify', 'batch', 'chghost', 'echo-message', 'extended-join',
          'invite-notify', 'labeled-response', 'message-tags', 'metadata-notify', 'msgid', 'multi-prefix',
          'server-time', 'setname', 'userhost-in-names']
CAP_POOL = WANTED + ['sasl', 'sasl=PLAIN', 'sasl=PLAIN,EXTERNAL', 'sasl=EXTERNAL,ECDSA-NIST256P-CHALLENGE', 'sasl=', 'sasl=plain',
                     'sasl=SCRAM-SHA-256', 'foo', 'foo=bar', 'draft/x=1', '=multi-prefix', '~batch', '=~=msgid', 'cap-notify',
                     'echo-message', 'labeled-response', 'echo-message', 'labeled-response', 'batch=', 'MULTI-PREFIX',
                     'sts', 'sts=port=6697', 'sts=port=6697,duration=100', 'sts=duration=100', 'sts=port=x', 'sts=port=', 'sts=port=+66_97,duration=0',
                     'sts=port=6697,duration=,port=7000', 'sts=,', 'sts=port=-1,duration=1_0']

def gen_cfg(r, stream):
    c = {}
    k = r.randint(0, 9)
    if k <= 1:
        pass                                     # no credentials
    elif k <= 4:
        c.update(mechs=['plain'], sasluser=r.choice(['u', 'bot', 'ü', 'a' * 150]), saslpass=r.choice(['p', 'sécret', 'b' * 160]))
        if r.random() < 0.45:
            # PLAIN payload = 2*len(user)+len(pass)+2 bytes; its base64 length is drawn around the
            # AUTHENTICATE chunk boundaries: 396, 400, 404, 800, 1200 (and one below / above)
            nbytes = r.choice([295, 296, 297, 298, 299, 300, 301, 303, 598, 599, 600, 601, 898, 900, 901])
            u = r.randint(1, (nbytes - 3) // 2)
            c.update(sasluser='u' * u, saslpass='p' * (nbytes - 2 - 2 * u))
    elif k == 5:
        c.update(mechs=['external'], certfile=True)
    elif k == 6:
        c.update(mechs=['external', 'plain'], certfile=r.random() < 0.7, sasluser='u', saslpass='p')
    elif k == 7:
        c.update(mechs=['ecdsa-nist256p-challenge', 'plain'], sasluser=r.choice(['u', 'u', 'n' * 300, 'n' * 299, 'n' * 600]), saslpass=r.choice(['', 'p']), ecdsakey=r.choice(['ok', 'ok', 'bad', 'dir', 'garbage', 'tilde', 'home', '']))
    elif k == 8:
        c.update(mechs=['ecdsa-nist256p-challenge', 'external', 'plain'], sasluser='u', saslpass='p', ecdsakey=r.choice(['ok', 'bad', 'dir', 'garbage', 'tilde', 'home']), certfile=True)
    else:
        c.update(mechs=r.choice([['scram-sha-256', 'plain'], ['scram-sha-256'], ['scram-sha-512', 'scram-sha-1', 'plain'],
                                 ['scram-sha-256-plus', 'scram-sha-256'], ['SCRAM-SHA-256', 'scram-SHA-1', 'plain'], ['scram-', 'scram-sha-1-plus']]),
                 sasluser=r.choice(['u', 'u', 'u', '']), saslpass='p')
        if r.random() < 0.8:
            # the SCRAM library is a parameter: what start()/challenge()/finish() answer
            c.update(scram=True, scramfinal=r.choice(['c=biws,r=cs,p=proof', 'c=biws,r=cs,p=proof', 'f' * r.choice([299, 300, 301]), None]),
                     scramfinish=r.choice([0, 0, 0, 1, 2]),
                     scramfirst=r.choice(['n,,n=u,r=c', 'n,,n=u,r=c', '', 'n' * r.choice([297, 300, 303, 600])]),
                     scramhashes=r.choice([['SHA-1', 'SHA-256'], ['SHA-1', 'SHA-256'], ['SHA-256'], []]))
    if r.random() < 0.35:
        c['required'] = True
    if r.random() < 0.2:
        c['password'] = 'srvpw'
    if r.random() < 0.3:
        c['joins'] = True
    if r.random() < 0.25:
        c['nick'] = r.choice(['bot', 'a', 'vt_bot', 'x`'])
    if r.random() < 0.2:
        c['alternates'] = r.choice([[], ['%s_'], ['other'], ['%s-', '%s-', 'zz'], ['test'], ['pre%spost']])
    if stream != 'conformant' and r.random() < 0.3:
        c.update(ssl=r.random() < 0.7, certvalidation=r.random() < 0.6, forced=r.random() < 0.2)
    return c

def caps_string(r, pool=CAP_POOL, lo=0, hi=6):
    n = r.randint(lo, hi)
    sep = ' ' if r.random() < 0.93 else r.choice(['\t', '\x0b', '\xa0', ' \t', '\x1f'])
    return r.choice(['', '', ' ', '  ']).join([]) + sep.join(r.choice(pool) for _ in range(n)) + r.choice(['', '', ' '])

def gen_adv_line(r, o):
    """one adversarial server line; `o` = last observation (lets the adversary be plausible)"""
    S = ':' + SERVER + ' '
    k = r.randint(0, 27)
    req = sorted(o.req - o.ack - o.nak) if o is not None else []
    if o is not None and 'labeled-response' in o.req and r.random() < 0.25:
        # the echo-message / labeled-response pairing after the server took labeled-response away again
        if 'labeled-response' in o.ls:
            return S + 'CAP * DEL :labeled-response'
        return S + 'CAP * NEW :echo-message' + r.choice(['', ' batch', ' labeled-response'])
    if k <= 2:
        return S + 'CAP * LS :' + caps_string(r)
    if k == 3:
        return S + 'CAP * LS * :' + caps_string(r)
    if k <= 6:
        if req and r.random() < 0.8:
            sub = [c for c in req if r.random() < 0.7] or req
            return S + 'CAP * %s :%s' % (r.choice(['ACK', 'ACK', 'ACK', 'NAK']), ' '.join(sub))
        return S + 'CAP * %s :%s' % (r.choice(['ACK', 'NAK']), caps_string(r, WANTED + ['sasl', 'foo'], 0, 3))
    if k == 7:
        return S + 'CAP * NEW :' + caps_string(r, hi=3)
    if k == 8:
        return S + 'CAP * DEL :' + caps_string(r, WANTED + ['sasl', 'sasl=x', 'foo'], 0, 3)
    if k == 9:
        return S + r.choice(['CAP * LS', 'CAP * ACK', 'CAP * LS x :multi-prefix', 'CAP * ACK a :b', 'CAP', 'CAP *', 'cap * ls :batch',
                             'CAP * ack :sasl', 'CAP * Nak :sasl', 'CAP * LIST :x', 'CAP * NEW', 'CAP * DEL :', 'CAP * LS * a :b', 'CAP * NEW : '])
    if k <= 12:
        return r.choice(['AUTHENTICATE +', 'AUTHENTICATE +', 'AUTHENTICATE +', 'AUTHENTICATE ' + 'a' * 400, 'AUTHENTICATE abc', 'AUTHENTICATE QUJD',
                         'AUTHENTICATE ' + base64.b64encode(b'x' * 32).decode(), 'AUTHENTICATE =', 'AUTHENTICATE ab==', 'authenticate +',
                         'AUTHENTICATE', 'AUTHENTICATE é', 'AUTHENTICATE ' + 'Zm9v' * 100, 'AUTHENTICATE a=b=c=d='])
    if k == 13:
        return S + '900 test n!u@h acct :You are now logged in'
    if k <= 15:
        return S + '903 test :SASL authentication successful'
    if k <= 17:
        return S + '%s test :SASL failure' % r.choice(['904', '904', '905', '906', '907'])
    if k == 18:
        return S + r.choice(['908 test PLAIN,EXTERNAL :are available', '908 test', '908'])
    if k == 19:
        n = r.choice(['test', 'test', 'other', 'x`'])
        if r.random() < 0.05:
            return S + '001'
        return S + r.choice(['001 %s :Welcome', '002 %s :Your host is x, running y', '002 %s :oneword', '003 %s :created',
                             '004 %s srv ver io bkl', '005 %s NETWORK=x :are supported']) % n
    if k == 20:
        return S + '375 test :- MOTD -'
    if k <= 22:
        return S + r.choice(['376 test :End of MOTD', '422 test :No MOTD', '377 test :x', '376'])
    if k <= 24:
        return S + '%s * test :Nickname problem' % r.choice(['433', '433', '432', '437'])
    if k == 25:
        return r.choice(['PING :abc', S + 'PING x', 'PING', S + 'PONG :x'])
    if k == 26:
        return r.choice(['ERROR :Closing link: (bye)', 'ERROR :closing LINK', 'ERROR :You are connecting too fast', 'ERROR :other', 'ERROR'])
    nick = o and wire.dec(o.s.split('\t')[10]) or 'test'
    return r.choice([':%s!u@h NICK :newnick' % nick, ':other!u@h NICK :x', ':%s!u@h NICK' % nick])

class ConfServer(object):
    """A protocol-conformant server: processes the client's lines strictly in order and answers each
    request as the specifications allow (DESIGN §6 C08 `progress`, clauses i–v).  Randomised choices
    where the protocol leaves freedom."""
    def __init__(self, r):
        self.r = r
        self.ircv3 = r.random() < 0.9
        offered = [c for c in WANTED if r.random() < 0.5]
        if r.random() < 0.7:
            offered.append(r.choice(['sasl', 'sasl', 'sasl=PLAIN', 'sasl=PLAIN,EXTERNAL', 'sasl=EXTERNAL', 'sasl=ECDSA-NIST256P-CHALLENGE,PLAIN',
                                     'sasl=SCRAM-SHA-256,PLAIN', 'sasl=SCRAM-SHA-1,SCRAM-SHA-256,SCRAM-SHA-512']))
        if r.random() < 0.3:
            offered += ['cap-notify', 'draft/foo=1']
        if r.random() < 0.08:
            offered = ['echo-message']
        if r.random() < 0.05:
            offered.append('sts=port=6697,duration=1000')
        r.shuffle(offered)
        self.offered = offered
        self.names = set(c.split('=')[0] for c in offered)
        mech = [c for c in offered if c.startswith('sasl')]
        self.mechs = (mech[0].split('=')[1].split(',') if mech and '=' in mech[0]
                      else ['PLAIN', 'EXTERNAL', 'ECDSA-NIST256P-CHALLENGE', 'SCRAM-SHA-256', 'SCRAM-SHA-1', 'SCRAM-SHA-512', 'SCRAM-SHA-256-PLUS'])
        # CAP NEW / CAP DEL during the registration (allowed once the CAP LS reply is out)
        self.notify = r.choice([0, 0, 0, 0.05, 0.2])
        self.ls_done = False
        self.spare = [c for c in WANTED if c not in self.names]
        self.collisions = r.choice([0, 0, 0, 0, 1, 2, 3, 4, 4, 15, 22, 45])
        self.auth_ok = r.random() < 0.6
        self.nak_prob = r.choice([0, 0, 0.3, 1])
        self.inq = []
        self.negotiating = False; self.nick = None; self.user = False; self.welcomed = False
        self.auth = None; self.acked = set()
        self.motd = r.random() < 0.7

    def see(self, msgs):
        self.inq.extend(msgs)

    def pending(self):
        return bool(self.inq)

    def _welcome(self):
        if any(m.command == 'CAP' and m.args[:1] == ('REQ',) for m in self.inq):
            self.negotiating = True         # a CAP REQ of the unregistered client is on its way: registration suspended
        if self.nick is None or not self.user or self.negotiating or self.welcomed:
            return []
        self.welcomed = True
        S = ':' + SERVER + ' '; n = self.nick
        out = [S + '001 %s :Welcome to the network %s' % (n, n), S + '002 %s :Your host is %s, running version vt-1' % (n, SERVER),
               S + '003 %s :This server was created today' % n, S + '004 %s %s vt-1 iow bklmnt' % (n, SERVER),
               S + '005 %s NETWORK=vt CHANTYPES=# :are supported by this server' % n]
        if self.motd:
            out += [S + '375 %s :- %s Message of the day -' % (n, SERVER), S + '372 %s :- hello' % n, S + '376 %s :End of /MOTD command.' % n]
        else:
            out += [S + '422 %s :MOTD File is missing' % n]
        return out

    def _notify(self, keep=()):
        """maybe a CAP NEW / CAP DEL line; `keep` = capabilities an answer still to be sent acknowledges"""
        r = self.r
        if not (self.ircv3 and self.ls_done and not self.welcomed and r.random() < self.notify):
            return []
        S = ':' + SERVER + ' '; n = self.nick or '*'
        if self.spare and r.random() < 0.6:
            k = r.randint(1, min(2, len(self.spare)))
            new = [self.spare.pop(r.randrange(len(self.spare))) for _ in range(k)]
            self.names |= set(new)
            return [S + 'CAP %s NEW :%s' % (n, ' '.join(new))]
        cur = sorted(self.names - set(['sasl'] if self.auth else []) - set(keep))
        if cur:
            gone = r.sample(cur, min(len(cur), r.randint(1, 2)))
            self.names -= set(gone); self.acked -= set(gone)
            self.spare += [c for c in gone if c in WANTED]
            return [S + 'CAP %s DEL :%s' % (n, ' '.join(gone))]
        return []

    def step(self):
        """process the next client line; returns the server lines it causes"""
        out = self._step()
        if out and self.r.random() < 0.5:
            # inside a split ACK / NAK answer, or after the batch; never inside the multi-line CAP LS reply
            t0 = out[0].split(' ')
            k = self.r.randint(0, len(out)) if (len(out) > 1 and t0[1:2] == ['CAP'] and t0[3:4] != ['LS']) else len(out)
            keep = set(w.lstrip(':') for l in out[k:] if ' ACK ' in l for w in l.split(' ')[4:])
            out = out[:k] + self._notify(keep) + out[k:]
        return out

    def _step(self):
        m = self.inq.pop(0)
        r = self.r
        S = ':' + SERVER + ' '
        cmd = m.command.upper(); a = list(m.args)
        n = self.nick or '*'
        if cmd == 'CAP':
            if not self.ircv3:
                return []
            if a and a[0] == 'LS':
                self.negotiating = not self.welcomed
                self.ls_done = True
                if len(self.offered) > 2 and r.random() < 0.4:
                    k = r.randint(1, len(self.offered) - 1)
                    return [S + 'CAP %s LS * :%s' % (n, ' '.join(self.offered[:k])), S + 'CAP %s LS :%s' % (n, ' '.join(self.offered[k:]))]
                return [S + 'CAP %s LS :%s' % (n, ' '.join(self.offered))]
            if a and a[0] == 'REQ':
                self.negotiating = not self.welcomed
                words = a[1].split() if len(a) > 1 else []
                if all(w in self.names for w in words) and r.random() >= self.nak_prob:
                    self.acked |= set(words)
                    if len(words) > 1 and r.random() < 0.2:
                        # a split answer: the words spread over several ACK lines, in any order
                        w2 = list(words); r.shuffle(w2)
                        cuts = sorted(set(r.randint(1, len(w2) - 1) for _ in range(r.randint(1, 2))))
                        parts = [w2[i:j] for i, j in zip([0] + cuts, cuts + [len(w2)])]
                        return [S + 'CAP %s ACK :%s' % (n, ' '.join(p)) for p in parts]
                    return [S + 'CAP %s ACK :%s' % (n, ' '.join(words))]
                if len(words) > 1 and r.random() < 0.1:
                    k = r.randint(1, len(words) - 1)
                    return [S + 'CAP %s NAK :%s' % (n, ' '.join(words[:k])), S + 'CAP %s NAK :%s' % (n, ' '.join(words[k:]))]
                return [S + 'CAP %s NAK :%s' % (n, ' '.join(words))]
            if a and a[0] == 'END':
                self.negotiating = False
                return self._welcome()
            return []
        if cmd == 'NICK':
            if self.welcomed:
                return []
            if self.collisions > 0:
                self.collisions -= 1
                return [S + '%s %s %s :Nickname is unavailable' % (r.choice(['433', '433', '432', '437']), n, a[0] if a else '*')]
            self.nick = a[0] if a else 'x'
            return self._welcome()
        if cmd == 'USER':
            self.user = True
            return self._welcome()
        if cmd == 'AUTHENTICATE':
            if 'sasl' not in self.acked:
                return [S + '904 %s :SASL authentication failed' % n]
            x = a[0] if a else ''
            if x == '*':
                self.auth = None
                return [S + '906 %s :SASL authentication aborted' % n]
            if self.auth is None:
                if x not in self.mechs:
                    return [S + '908 %s %s :are available SASL mechanisms' % (n, ','.join(self.mechs)), S + '904 %s :SASL authentication failed' % n]
                if r.random() < 0.15:
                    return [S + '904 %s :SASL authentication failed' % n]
                self.auth = ('payload', x, 0)
                return ['AUTHENTICATE +']
            kind, mech, rounds = self.auth
            if len(x) == 400:
                return []
            # complete client response
            if mech == 'ECDSA-NIST256P-CHALLENGE' and rounds == 0:
                self.auth = ('payload', mech, 1)
                return ['AUTHENTICATE ' + base64.b64encode(bytes(r.randrange(256) for _ in range(32))).decode()]
            if mech.startswith('SCRAM-') and rounds < 2:
                # server-first, then server-final; the client's third message is the empty one
                self.auth = ('payload', mech, rounds + 1)
                if r.random() < 0.1:
                    self.auth = None
                    return [S + '904 %s :SASL authentication failed' % n]
                return ['AUTHENTICATE ' + base64.b64encode(b'r=cs,s=c2FsdA==,i=4096' if rounds == 0 else b'v=c2ln').decode()]
            self.auth = None
            if self.auth_ok or r.random() < 0.3:
                return [S + '900 %s %s!u@h acct :You are now logged in as acct' % (n, n), S + '903 %s :SASL authentication successful' % n]
            return [S + '904 %s :SASL authentication failed' % n]
        return []

# ------------------------------------------------------------------------------------------
# scripts
# ------------------------------------------------------------------------------------------
def script_adversarial(r, cfg, n):
    run = ImplRun(cfg)
    burst = 0
    if r.random() < 0.06 and usable_mechs(cfg):
        # a SASL exchange abandoned in the middle of a multi-line server message, then a new one
        S = ':' + SERVER + ' '
        for l in [S + 'CAP * LS :sasl', S + 'CAP * ACK :sasl', 'AUTHENTICATE ' + r.choice(['a', 'Zm9v', 'QUJD']) * (400 // r.choice([1, 4]))][:3]:
            run.msg(l if len(l) != 13 + 100 else l)
        k = r.random()
        if k < 0.6:
            run.reset()
            run.msg(S + 'CAP * LS :sasl'); run.msg(S + 'CAP * ACK :sasl')
        elif k < 0.8:
            run.msg(S + '%s test :SASL failure' % r.choice(['904', '906']))
        run.msg(r.choice(['AUTHENTICATE +', 'AUTHENTICATE +', 'AUTHENTICATE ' + 'b' * 400, 'AUTHENTICATE QUJD']))
    for _ in range(n):
        x = r.random()
        if burst or x > 0.985:
            # a long run of nick refusals: the alternates run out, then the digit variations of the nick
            burst = burst - 1 if burst else r.choice([14, 16, 25, 40])
            run.msg(':' + SERVER + ' %s * %s :Nickname problem' % (r.choice(['433', '433', '432', '437']), 'test'))
            continue
        if x < 0.03:
            run.reset()
        elif x < 0.045:
            # the operator edits the SASL settings while connected; the next reset picks them up
            c2 = dict(run.ops[-1][1]) if run.ops and run.ops[-1][0] == 'cfg' else dict(cfg)
            if r.random() < 0.6:
                c2.update(mechs=[], sasluser='', saslpass='')
            else:
                c2.update(mechs=['plain'], sasluser='u', saslpass='p')
            run.recfg(c2)
            if r.random() < 0.8:
                run.reset()
        else:
            run.msg(gen_adv_line(r, run.last()))
    run.close()
    return run, None

def script_conformant(r, cfg, noise=0.0, limit=120):
    """the bot against a conformant server; returns (run, stuck: bool).  `noise` > 0 mixes in
    adversarial lines (then the script is not judged for progress)."""
    srv = ConfServer(r)
    run = ImplRun(cfg, nov3=not srv.ircv3)
    run.conformant = not noise
    srv.see(run.obs[0].msgs)
    aborted = False
    steps = 0
    while srv.pending() and steps < limit and not aborted:
        for line in srv.step():
            if r.random() < 0.08:
                o = run.msg('PING :vt%d' % steps)
                if o is not None:
                    srv.see([m for m in o.msgs])
            if noise and r.random() < noise:
                o = run.msg(gen_adv_line(r, run.last()))
                if o is not None:
                    srv.see(o.msgs)
                    aborted = aborted or bool(o.calls)
            o = run.msg(line)
            steps += 1
            if getattr(run, 'hung', None):
                aborted = True          # judged by the watchdog predicate, not as a stall
                break
            if o is None:
                continue
            srv.see(o.msgs)
            if o.calls:
                aborted = True
                break
    last = run.last()
    stuck = (not noise) and (not aborted) and steps < limit and last.fsm != 'CONNECTED'
    run.close()
    return run, stuck

def tags_of(run):
    t = set()
    for op, o in zip(run.ops, run.obs[1:]):
        if o is None:
            t.add('unparsable'); continue
        if op[0] == 'reset':
            t.add('reset'); continue
        if op[0] == 'cfg':
            t.add('recfg'); continue
        t.add('fsm:' + o.fsm)
        if o.exc != '-':
            t.add('exc:' + o.exc)
        for m in o.msgs:
            if m.command == 'CAP':
                t.add('out:CAP ' + (m.args[0] if m.args else ''))
            elif m.command == 'AUTHENTICATE':
                t.add('out:AUTH ' + ('mech' if m.args and is_mech(m.args[0]) else ('abort' if m.args == ('*',) else 'payload')))
            else:
                t.add('out:' + m.command)
        for c in o.calls:
            t.add('drv:' + c[0] + (':wait' if c[0] == 'reconnect' and c[1] else '') + (':server' if c[0] == 'reconnect' and c[2] else ''))
    return sorted(t)

def _is_cap_sub(line, subs):
    t = line.split(' ')
    if t and t[0].startswith(':'):
        t = t[1:]
    return len(t) >= 3 and t[0].upper() == 'CAP' and t[2].upper() in subs

def finding_capend_outstanding(run, bad):
    """class of KNOWN_FINDINGS C08-capend-outstanding: the only violated predicate is `cap_end_outstanding`
    and the server sent CAP NEW or CAP DEL earlier in the same connection epoch"""
    if not bad or any(p != 'cap_end_outstanding' for p, _ in bad):
        return False
    seen = False
    for op, o in zip(run.ops, run.obs[1:]):
        if op[0] == 'reset':
            seen = False
            continue
        if op[0] == 'cfg':
            continue
        if _is_cap_sub(op[1], ('NEW', 'DEL')):
            seen = True
        if o is not None and any(m.command == 'CAP' and m.args[:1] == ('END',) for m in o.msgs):
            if not (o.req <= (o.ack | o.nak)) and not seen:
                return False
    return True

def finding_req_after_end(run, bad):
    """class of KNOWN_FINDINGS C08-req-after-end: a CAP REQ went out after CAP END before any welcome numeric
    (predicate `req_after_end`), possibly followed by the stall it causes against a conformant server"""
    preds = set(p for p, _ in bad)
    if 'req_after_end' not in preds or not preds <= set(['req_after_end', 'progress']):
        return False
    return all(p != 'progress' or msg.startswith('conformant server has answered everything') for p, msg in bad)

def classify_finding(run, bad):
    """known-finding classes (predicates on the script); None = not in any class"""
    b1 = [b for b in bad if b[0] == 'cap_end_outstanding']
    b2 = [b for b in bad if b[0] != 'cap_end_outstanding']
    if b1 and not finding_capend_outstanding(run, b1):
        return None
    if b2 and not finding_req_after_end(run, b2):
        return None
    return 'C08-capend-outstanding' if b1 else ('C08-req-after-end' if b2 else None)

def finding_status():
    """replay the listed witnesses on the real code"""
    out = {}
    for f in verdict.load_findings(PROPERTY):
        if f['id'] == 'C08-capend-outstanding':
            w = f['witness']
            hits = 0
            for ops in (w['ops'], w['second']):
                run = run_impl(w['cfg'] if ops is w['ops'] else {}, [tuple(op) for op in ops])
                bad = safety_oracle(run.ops, run.obs, run.cfg)
                if any(p == 'cap_end_outstanding' for p, _ in bad):
                    hits += 1
            out[f['id']] = (hits > 0, 'CAP END sent while a CAP REQ is unanswered after CAP NEW during SASL / CAP DEL + second CAP LS (%d of 2 witnesses reproduce)' % hits)
        if f['id'] == 'C08-req-after-end':
            w = f['witness']
            run = run_impl(w['cfg'], [tuple(op) for op in w['ops']])
            bad = safety_oracle(run.ops, run.obs, run.cfg)
            last = run.last()
            still = any(p == 'req_after_end' for p, _ in bad) and last.fsm == 'INIT_WAITING_MOTD'
            out[f['id']] = (still, 'CAP NEW between the bot\'s CAP END and the welcome: CAP REQ sent, no second CAP END, final state %s' % last.fsm)
    return out

class XCase(Case):
    """Case + the model op lines of the script"""
    pass

def make_case(run, kind, stuck=False):
    ops = [list(op) for op in run.ops]
    bad = safety_oracle(run.ops, run.obs, run.cfg)
    if getattr(run, 'hung', None):
        bad.append(('progress', run.hung))
    if stuck:
        last = run.last()
        bad.append(('progress', 'conformant server has answered everything, the bot is in state %s, sent nothing more and did not abort' % last.fsm))
    c = XCase({'cfg': run.cfg, 'ops': ops}, kind=kind, tags=tags_of(run))
    c.impl = '\n'.join(o.s if o is not None else 'skipped' for o in run.obs)
    c.oracle_ok = not bad
    c.oracle_msg = '; '.join('%s: %s' % b for b in bad[:4])
    c.finding = classify_finding(run, bad) if bad else None
    c._lines = run.lines
    c._bad = bad
    c._viewq = bool(getattr(run, 'conformant', False))
    return c

VIEW_STATS = {'conformant_scripts': 0, 'accepted_by_lean_relation': 0, 'server_moves_accepted': 0, 'outside_relation': 0,
              'progress_conclusion_false_on_model': 0, 'reopened_after_cap_end': 0}

def fill_model(cases, prop=None):
    lines = []
    for c in cases:
        lines += [l for l in c._lines if l is not None]
        if getattr(c, '_viewq', False):
            lines.append('viewq')
    outs = wire.run_driver(prop or PROPERTY, lines)
    i = 0
    for c in cases:
        mo = []
        for l in c._lines:
            if l is None:
                mo.append('skipped')
            else:
                mo.append(outs[i]); i += 1
        if getattr(c, '_viewq', False):
            # the Lean relation SrvMove judged every server line of this conformant script; on the accepted
            # ones the conclusion of theorem `progress` is re-evaluated on the model (must hold)
            q = dict(kv.split('=') for kv in outs[i].split(' ')); i += 1
            VIEW_STATS['conformant_scripts'] += 1
            VIEW_STATS['server_moves_accepted'] += int(q['acc'])
            if q['rej'] == '0':
                VIEW_STATS['accepted_by_lean_relation'] += 1
                if q.get('reopened') == '1':
                    VIEW_STATS['reopened_after_cap_end'] += 1
                if not (q['after'] == '1' or q['aborted'] == '1' or q['owes'] == '1' or q.get('reopened') == '1'):
                    VIEW_STATS['progress_conclusion_false_on_model'] += 1
                    mo.append('PROGRESS-CONCLUSION-FALSE')
            else:
                VIEW_STATS['outside_relation'] += 1
        if getattr(c, '_skip_first', False):
            mo = mo[1:]          # real-driver runs: the observation after `new` has no counterpart
        impl = c.impl.split('\n')
        c.impl = '\n'.join(unify(m, j) for m, j in zip(mo, impl))
        c.model = '\n'.join(mo)
    return cases

def load_corpus():
    d = os.path.join(VERIF, 'corpus', PROPERTY)
    out = []
    if os.path.isdir(d):
        for f in sorted(os.listdir(d)):
            if f.endswith('.json'):
                out.append(json.load(open(os.path.join(d, f))))
    return out

def explore(ctx, n_adv, n_conf, n_mixed, n_real=0, stream='c08'):
    boot()
    r = rng.make(stream)
    cases = []
    for w in load_corpus():
        if w.get('real'):
            cases.append(make_real_case(run_real(w['cfg'], w['ops']), 'corpus', preds=('epoch_clean',)))
        else:
            run = run_impl(w['cfg'], [tuple(op) for op in w['ops']])
            cases.append(make_case(run, 'corpus'))
    for _ in range(n_adv):
        run, _ = script_adversarial(r, gen_cfg(r, 'adv'), r.randint(1, 40))
        cases.append(make_case(run, 'adversarial'))
    for _ in range(n_conf):
        run, stuck = script_conformant(r, gen_cfg(r, 'conformant'))
        cases.append(make_case(run, 'conformant', stuck))
    for _ in range(n_mixed):
        run, _ = script_conformant(r, gen_cfg(r, 'mixed'), noise=r.choice([0.05, 0.15, 0.4]))
        cases.append(make_case(run, 'mixed'))
    for _ in range(n_real):
        run = script_real(r, gen_real_cfg(r), r.randint(1, 8))
        cases.append(make_real_case(run, 'real-driver', preds=('epoch_clean', 'driver_crash')))
    return cases

RULE = ('seeded server scripts against a real irclib.Irc (Owner plugin loaded, world.testing False) with a recording stub driver: '
        '(adversarial) 1-40 lines over the alphabet CAP LS/ACK/NAK/NEW/DEL (single, multi-line, values, malformed), AUTHENTICATE, 900-908, '
        '001-005, 375/376/377/422, 432/433/437, PING/PONG, ERROR, NICK, plus Irc.reset(), biased towards plausible answers to what the bot '
        'requested; (conformant) a sequential protocol-conformant server simulator (split ACK/NAK answers, CAP NEW / CAP DEL during the registration, SCRAM rounds) answering the bot until nothing is owed; (mixed) the same with '
        'adversarial lines injected; x SASL configurations {none, plain, external, external+plain, ecdsa(+key ok/bad/missing), scram-* (library absent / stand-in library with drawn answers)} '
        'x required x SASL settings edited at run time x server password x nick alternates.  After every message the canonical observation (messages taken, '
        'FSM state, capability sets, SASL fields, decoder, nick, afterConnect, exception class, REQUEST_CAPABILITIES, STS store) is compared with the model. '
        'A case is non-trivial when it has at least one tag; distinct = distinct (cfg, ops).')

EXH_ALPHABET = [':irc.test CAP * LS :sasl multi-prefix echo-message', ':irc.test CAP * LS * :labeled-response batch',
                ':irc.test CAP * ACK :multi-prefix sasl', ':irc.test CAP * ACK :echo-message labeled-response multi-prefix sasl',
                ':irc.test CAP * NAK :multi-prefix sasl', ':irc.test CAP * NEW :batch', ':irc.test CAP * DEL :sasl',
                'AUTHENTICATE +', ':irc.test 903 test :ok', ':irc.test 904 test :failed', ':irc.test 376 test :End of MOTD',
                ':irc.test 433 * test :Nickname is already in use']

def explore_exhaustive(maxlen, cfgs):
    """every script of length <= maxlen over EXH_ALPHABET (differential testing, thorough tier)"""
    import itertools
    boot()
    cases = []
    for cfg in cfgs:
        for n in range(1, maxlen + 1):
            for tup in itertools.product(range(len(EXH_ALPHABET)), repeat=n):
                run = ImplRun(cfg)
                for i in tup:
                    run.msg(EXH_ALPHABET[i])
                run.close()
                c = make_case(run, 'exhaustive')
                c.oracle_ok = c.oracle_ok and not required_oracle(cfg, run.ops, run.obs)
                cases.append(c)
    return cases

def run(ctx):
    build = leanbuild.ensure(PROPERTY, THEOREMS, thorough=ctx.thorough, extractors=['Conn'])
    scale = 10 if ctx.thorough else 1
    cases = explore(ctx, 3000 * scale, 2400 * scale, 1400 * scale, 900 * scale)
    if ctx.thorough:
        cases += explore_exhaustive(4, [{'mechs': ['plain'], 'sasluser': 'u', 'saslpass': 'p'},
                                        {'mechs': ['external', 'plain'], 'certfile': True, 'sasluser': 'u', 'saslpass': 'p', 'required': True}])
    if build.driver_ok:
        fill_model(cases)
    def search(disagreements, broken):
        os.environ['VERIF_SEED'] = str(ctx.seed + 7919)
        more = explore(ctx, 3000, 2000, 1000, 600, stream='c08-search')
        os.environ['VERIF_SEED'] = str(ctx.seed)
        return [c for c in more if c.oracle_ok is False]
    return verdict.conclude(PROPERTY, ctx.tier, ctx.seed, build, cases, search=search, rule=RULE,
                            finding_status=finding_status(), trusted_base=TRUSTED, assumptions=ASSUMPTIONS, t0=ctx.t0,
                            extra={'conformant_server_relation': dict(VIEW_STATS)})

def replay(ctx, path):
    d = json.load(open(path))
    c = d.get('case') or d.get('first_disagreement')
    if not c:
        print(json.dumps(d, indent=1)); return 0
    inp = c['input']
    if inp.get('real'):
        run = run_real(inp['cfg'], inp['ops'])
        print('cfg:', json.dumps(inp['cfg']))
        for op, o in zip(run.ops, run.obs):
            print('<', op)
            print('    state=%s events=%s wire=%s policies=%s inbuffer=%r' % (o.fsm, o.x['events'], o.x['wire'], o.x['policies'], o.x['inbuffer']))
        print('property predicates violated now:', real_oracle(run) or 'none')
        print('recorded:', c.get('oracle_msg'))
        return 0
    run = run_impl(inp['cfg'], [tuple(op) for op in inp['ops']])
    print('cfg:', json.dumps(inp['cfg']))
    for op, o in zip([('new',)] + run.ops, run.obs):
        print('<', ' '.join(str(x) for x in op))
        if o is not None:
            print('    state=%s out=%s drv=%s exc=%s' % (o.fsm, [(m.command,) + tuple(m.args) for m in o.msgs], o.calls, o.exc))
    bad = safety_oracle(run.ops, run.obs, run.cfg)
    print('property predicates violated now:', bad or 'none')
    print('recorded:', c.get('oracle_msg'))
    return 0
