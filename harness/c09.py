"""C09 — server input cannot downgrade required SASL or strict transport security.
The connection machine, its model and the implementation-side runners are shared with C08
(harness/c08.py, lean/LimnoriaModel/C08/Model.lean); this check drives them with the C09 histories
(sasl.required configurations on the stub driver; STS policies x connection kinds x stored-policy ages x
disconnect histories on the real SocketDriver over a fake socket) and evaluates the C09 statements on
the implementation."""
import json, os, sys
from vlib import wire, rng, leanbuild, verdict, bot, VERIF
from vlib.verdict import Case
import c08

PROPERTY = 'C09'
MANIFEST = {
 'level_text': 'Lean 4 theorems, kernel-checked, about the connection-machine model shared with C08 (Irc handlers, _abortIfSaslRequired, _onCapSts, parseStsPolicy, ServersMixin._applyStsPolicy/_getNextServer, SocketDriver.reconnect/starttls/_sendIfMsgs; FSM tables regenerated from /repo on every run). sasl_required_safe: with sasl.required, in every state reachable by any sequence of server messages and resets, being past the negotiation / afterConnect / a CAP END sent in this epoch implies that the server confirmed SASL success (903) inside a SASL exchange that started after a CAP ACK of sasl; auth_only_in_exchange: sasl_authenticated is raised only by the 903 handler, only when the FSM was in INIT_SASL/CONNECTED_SASL and only after a complete response of the bot went out for the mechanism requested last (an unsolicited 903, and a 903 right after AUTHENTICATE <mechanism>, are ignored); response_only_by_authenticate: that flag is raised only while handling a server AUTHENTICATE inside a SASL state; cap_end_needs_auth. STS: sts_parse (parseStsPolicy is None exactly on a missing/valueless/non-integer port, or duration when needed, for all strings); sts_store_only_secure_msg / _lines / _run (no feedMsg, no recv chunk of any lines, no whole SocketDriver.run() without a due reconnect on a connection that is not verified TLS adds or changes a stored policy: the handlers that store never open a socket and vice versa); C08.sts_no_downgrade_real (along every real-driver history, while connected to a host with a stored policy the connection is forced-verified TLS or ssl with a certificate validation of the operator); sts_insecure_upgrade + upgrade_reconnect + flush_not_connected + upgrade_next_server + forced_tls_verified (a valid policy on an insecure connection makes the bot call reconnect(Server(host, port, attempt, True), wait=True) in state SHUTTING_DOWN; the real driver closes the socket, writes nothing while disconnected, connects next to a forced server of that host with TLS and verification); sts_applied / sts_not_expired_without_disconnect / sts_expired_dropped / sts_stored_policy_applied (store and lookup use the configured host string as it is: whatever its spelling, the policy stored on a verified connection is applied to the next connections to that host until it expires). Tied to the code by differential correspondence on required-SASL histories (stub driver) and STS histories with the real SocketDriver over a fake socket (policy strings x connection kinds x stored-policy ages x disconnect histories), with the C09 statements evaluated on the implementation from the outside (SASL success = 903 received while the observed FSM state was a SASL state and after a complete AUTHENTICATE answer of the bot since its last mechanism request).',
 'level_note': 'Trusted: Lean kernel, axioms propext/Classical.choice/Quot.sound only; harness/extractors/conn.py; the correspondence harness incl. the fake socket and the patched utils.net functions (TLS itself is outside: the claim is which port, whether TLS and which verify flag are passed). sasl_required_safe is proved for all histories of the stub-driver operations (messages, resets) and, as sasl_required_safe_real, for all histories of the real SocketDriver run loop (any clock values, due/not-due reconnects, recv chunks); the STS store and no-downgrade statements are proved along whole runs / histories of the real driver, the upgrade sequence itself (decision, close, schedule, next server, TLS choice) as function-level theorems at its decision points plus the correspondence. Owner.do376\'s JOINs: C08.join_needs_motd_end / join_only_after_motd_real (theorems) and the oracle (never on the wire without success). Python int() of policy numbers: ASCII digits, sign, single underscores; Unicode digits and the 4300-digit limit are outside the model.',
 'technique': 'Lean 4 proof (invariant over all server message sequences via refinement to an abstract move system; function-level theorems at the STS decision points) + table extraction + differential correspondence incl. the real SocketDriver over a fake socket',
 'design_ref': 'DESIGN.md §6 C09',
}
THEOREMS = ['C09.sasl_required_safe', 'C09.sasl_required_safe_real', 'C09.auth_only_in_exchange', 'C09.response_only_by_authenticate',
            'C09.cap_end_needs_auth', 'C09.sts_parse', 'C09.stsInt_none',
            'C09.sts_store_only_secure', 'C09.sts_store_only_secure_stub', 'C09.sts_store_only_secure_msg', 'C09.sts_store_only_secure_lines',
            'C09.sts_store_only_secure_run', 'C08.sts_no_downgrade_real', 'C08.join_only_after_motd_real', 'C09.restart_pins_policy', 'C09.connect_failure_schedules', 'C09.sts_insecure_upgrade',
            'C09.upgrade_reconnect', 'C09.flush_not_connected', 'C09.upgrade_next_server', 'C09.forced_tls_verified',
            'C09.sts_applied', 'C09.sts_not_expired_without_disconnect', 'C09.sts_expired_dropped',
            'C09.sts_stored_policy_applied', 'C09.connectTo_host']
TRUSTED = c08.TRUSTED + ['fake socket / patched utils.net.getSocket, getAddressFromHostname, ssl_wrap_socket (TLS itself is outside: the claim is which verify flag and which port are used)']
ASSUMPTIONS = c08.ASSUMPTIONS + ['STS policy integers are ASCII, fewer than 4300 digits', 'one driver per network; connect() to the fake socket succeeds unless the script makes it refuse']
RULE = ('(required) the C08 adversarial / conformant / mixed script generators with sasl.required forced on, servers that omit sasl, NAK it, '
        'fail every mechanism or skip CAP; (real-driver) a real SocketDriver over a fake socket, with refused connections / TLS that cannot be set up (ssl.authorityCertificate = file or directory; the real utils.net.ssl_wrap_socket runs over a stand-in SSL context that records what would be verified) and restarts of the process in between (networks database written to its file and read back, new Irc and driver; restart_pins_policy): STS policy strings from a grammar with omissions / '
        'garbage / duplicates x connection kind {cleartext, TLS unverified, TLS verified, fingerprints, forced by a stored policy} x stored-policy age '
        'x disconnect history x due/not-due reconnects x several lines per recv(); after every operation the canonical observation (driver calls, sockets '
        'opened with port/TLS/verify, bytes per socket, Irc state, networks data base, server list) is compared with the model. Non-trivial = has a tag.')

def explore(ctx, n_req, n_conf, n_real, stream='c09'):
    c08.boot()
    r = rng.make(stream)
    cases = []
    d = os.path.join(VERIF, 'corpus', PROPERTY)
    if os.path.isdir(d):
        for f in sorted(os.listdir(d)):
            if f.endswith('.json'):
                w = json.load(open(os.path.join(d, f)))
                if w.get('real'):
                    cases.append(c08.make_real_case(c08.run_real(w['cfg'], w['ops']), 'corpus'))
                else:
                    cases.append(make_req_case(c08.run_impl(w['cfg'], [tuple(op) for op in w['ops']]), 'corpus'))
    for _ in range(n_req):
        cfg = c08.gen_cfg(r, 'adv'); cfg['required'] = True; cfg['joins'] = True
        run, _ = c08.script_adversarial(r, cfg, r.randint(1, 40))
        cases.append(make_req_case(run, 'required-adversarial'))
    for _ in range(n_conf):
        cfg = c08.gen_cfg(r, 'conformant'); cfg['required'] = True; cfg['joins'] = True
        run, stuck = c08.script_conformant(r, cfg, noise=r.choice([0, 0, 0.1]))
        if stuck and any(p == 'req_after_end' for p, _ in c08.safety_oracle(run.ops, run.obs, run.cfg)):
            stuck = False        # the stall of finding C08-req-after-end (a C08 statement, recorded there)
        cases.append(make_req_case(run, 'required-conformant', stuck))
    for _ in range(n_real):
        run = c08.script_real(r, c08.gen_real_cfg(r), r.randint(1, 8))
        cases.append(c08.make_real_case(run, 'real-driver',
                     preds=('sts_insecure_upgrade', 'sts_store_only_secure', 'sts_applied', 'sasl_required_safe', 'driver_crash', 'forced_tls_verified')))
    return cases

def make_req_case(run, kind, stuck=False):
    bad = c08.required_oracle(run.cfg, run.ops, run.obs)
    if stuck:
        bad.append(('sasl_required_safe', 'stuck: neither connected nor aborted in state %s' % run.last().fsm))
    c = c08.XCase({'cfg': run.cfg, 'ops': [list(op) for op in run.ops]}, kind=kind, tags=c08.tags_of(run))
    c.impl = '\n'.join(o.s if o is not None else 'skipped' for o in run.obs)
    c.oracle_ok = not bad
    c.oracle_msg = '; '.join('%s: %s' % b for b in bad[:4])
    c._lines = run.lines
    c._bad = bad
    return c

def run(ctx):
    build = leanbuild.ensure(PROPERTY, THEOREMS, thorough=ctx.thorough, extractors=['Conn'])
    scale = 10 if ctx.thorough else 1
    cases = explore(ctx, 2000 * scale, 1600 * scale, 2500 * scale)
    if build.driver_ok:
        c08.fill_model(cases, PROPERTY)
    def search(disagreements, broken):
        os.environ['VERIF_SEED'] = str(ctx.seed + 7919)
        more = explore(ctx, 2000, 1500, 2500, stream='c09-search')
        os.environ['VERIF_SEED'] = str(ctx.seed)
        return [c for c in more if c.oracle_ok is False]
    return verdict.conclude(PROPERTY, ctx.tier, ctx.seed, build, cases, search=search, rule=RULE,
                            finding_status={}, trusted_base=TRUSTED, assumptions=ASSUMPTIONS, t0=ctx.t0)

def replay(ctx, path):
    d = json.load(open(path))
    c = d.get('case') or d.get('first_disagreement')
    if not c:
        print(json.dumps(d, indent=1)); return 0
    inp = c['input']
    if inp.get('real'):
        return c08.replay(ctx, path)
    run = c08.run_impl(inp['cfg'], [tuple(op) for op in inp['ops']])
    print('cfg:', json.dumps(inp['cfg']))
    for op, o in zip([('new',)] + run.ops, run.obs):
        print('<', ' '.join(str(x) for x in op))
        if o is not None:
            print('    state=%s authenticated=%s afterConnect=%s out=%s drv=%s' % (o.fsm, o.auth, o.after, [(m.command,) + tuple(m.args) for m in o.msgs], o.calls))
    print('C09 predicates violated now:', c08.required_oracle(run.cfg, run.ops, run.obs) or 'none')
    print('recorded:', c.get('oracle_msg'))
    return 0
