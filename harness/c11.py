"""C11 — the socket driver preserves the byte stream under any fragmentation.
Correspondence of lean/LimnoriaModel/C11/Model.lean with the real supybot.drivers.Socket.SocketDriver
(driven through the real drivers.run() over a scripted fake socket), plus the property statement
evaluated directly on the implementation (bytes on the fake socket / messages handed to feedMsg)."""
import json, os, socket, ssl, sys, time
from vlib import wire, rng, leanbuild, verdict, bot, VERIF
from vlib.verdict import Case

PROPERTY = 'C11'
MANIFEST = {
 'level_text': 'Lean 4 theorems, kernel-checked, about an executable model of SocketDriver._sendIfMsgs/_read/_handleSocketError/run/_select, drivers.parseMsg, decode_raw_line and the per-driver part of drivers.run, in which the socket is a pair of arbitrary outcome scripts: for every history of queue/script/loop operations the bytes accepted by the socket followed by the out-buffer are exactly the UTF-8 encoding of the messages taken so far (hence on drain: each message once, in order, whatever the short writes and EAGAINs), EAGAIN bursts of up to 121 never disconnect, and the messages delivered to feedMsg are a function of the concatenated received bytes only (any two partitions of the same stream deliver the same messages, including cuts inside a multi-byte character or inside CR LF); the model is tied to src/drivers/Socket.py by a differential run of thousands of generated schedules per run against the real driver under the real drivers.run(), which also evaluates the property statement on the implementation.',
 'level_note': 'Trusted: Lean kernel (axioms propext/Classical.choice/Quot.sound only); the correspondence harness (FakeSocket, StubIrc, generators bound what it sees). Modelled and proved: out-buffer arithmetic, EAGAIN accounting, disconnect on other errors, zombie flush, in-buffer line framing, UTF-8 encoding and decoding with replacement (CPython algorithm; decode∘encode = id proved), strip/parse via the C05 model, exception flow into drivers.run. The Irc object is any deterministic function of the feed history (the stub of the correspondence run answers PING and reconnects on ERROR like Irc.doError; the real queue is C19). Connections come in epochs (handler-requested and timer reconnects, fix 9171ff7: buffers emptied, rest of the chunk dropped): the invariants are per connection, the explicit chunk-independence theorems assume no reconnect point inside the stream. TLS, connect() failures and the write-check timer are not modelled. Known finding: a short write while a zombie Irc kills the driver leaves the tail of the last messages unsent (recorded, partial theorem + counter-example).',
 'technique': 'Lean 4 proof (invariants over operation histories, induction over chunk lists) + differential correspondence against the real driver with fault injection on send()/recv()',
 'design_ref': 'DESIGN.md §6 C11',
}
THEOREMS = ['C11.write_exact', 'C11.write_exact_drained', 'C11.queue_conserved', 'C11.eagain_tolerated',
            'C11.eagain_limit', 'C11.drains', 'C11.read_is_function_of_stream', 'C11.read_chunk_independent',
            'C11.read_delivers_lines', 'C11.read_chunks_from_any_state', 'C11.framing_exact',
            'C11.reconnect_drops_rest_of_chunk', 'C11.ping_timeout_reconnect_clean', 'C11.decode_encode', 'C11.line_roundtrip', 'C11.never_crashes', 'C11.flushed_when_removed_partial',
            'C11.zombie_short_write_loses_tail', 'C11.inv_multiLoop', 'C11.select_eq']
TRUSTED = ['Lean 4.33.0 kernel; axioms ⊆ {propext, Classical.choice, Quot.sound}',
           'harness/c11.py: FakeSocket (send accepts a scripted prefix / raises a scripted error; recv returns scripted chunks), StubIrc (FIFO + PING→PONG), generators, canonical state dump',
           'LimnoriaModel.C05.Model (IrcMsg parse/format) as tied to src/ircmsgs.py by check C05',
           'parameter: datetime.strptime accepts/rejects a time tag value (instantiated with the real function)']
RULE = ('streams: (write) message lists ASCII/2/3/4-byte text x send() schedules of short writes, zero writes and EAGAIN bursts (1..123); '
        '(read) byte streams of valid, hostile and invalid-UTF-8 lines x random / 1-byte / boundary-targeted partitions into recv() chunks; '
        '(mixed) random histories over the whole operation alphabet incl. socket errors, peer close and Irc.die(). '
        'A case is one history; non-trivial = it exercised at least one fault/branch tag; distinct = distinct history.')

# ---------------------------------------------------------------- rig: real driver over a fake socket
class FakeSock(object):
    def __init__(self):
        self.sent = b''; self.script = []; self.recvs = []; self._closed = False; self.nsend = 0; self.taken = []
        self.timeout = 'unset'
    def settimeout(self, t): self.timeout = t
    def setblocking(self, flag): self.timeout = None if flag else 0.0
    def connect(self, a): pass
    def shutdown(self, how): pass
    def fileno(self): return 7
    def close(self): self._closed = True
    def send(self, data):
        if not isinstance(data, (bytes, bytearray)):
            raise TypeError('send() needs bytes, got %s' % type(data).__name__)
        self.nsend += 1
        r = self.script.pop(0) if self.script else ('s', len(data))
        if r[0] == 's':
            n = min(r[1], len(data))
            self.sent += bytes(data[:n])
            return n
        raise mk_error(r)
    def recv(self, n):
        if not self.recvs:
            if self.timeout is None:
                # a blocking socket with nothing to read: the call would never return
                raise Hang('recv() on a socket in blocking mode with no data available')
            raise socket.timeout('timed out')
        r = self.recvs.pop(0)
        if r[0] == 'd':
            if len(r[1]) > n:
                self.recvs.insert(0, ('d', r[1][n:]))      # recv(n) returns at most n bytes
                return r[1][:n]
            return r[1]
        raise mk_error(r)

class Hang(BaseException):
    """the call would block forever (raised instead of blocking; no except clause of the code under test names it)"""

def mk_error(r):
    if r[0] == 't':
        return socket.timeout('timed out')
    if r[0] == 'T':      # the SSL flavour of a read timeout
        return ssl.SSLError('The read operation timed out')
    if r[0] == 'e':
        return socket.error(r[1], 'scripted error %d' % r[1])
    raise ValueError(r)

class RawMsg(object):
    """an outgoing 'message' with an arbitrary str() (the driver only ever calls str(msg))"""
    def __init__(self, s): self.s = s
    def __str__(self): return self.s

def out_object(ircmsgs, op):
    """what a 'q' op puts on the queue: ('q', s) an object whose str() is s; ('q', s, 'raw') the real
    IrcMsg(s) built from the line (as Owner.ircquote does); ('q', s, 'f', prefix, command, args) the real
    IrcMsg built from its fields.  Either way the driver must write the UTF-8 of str(m) == s."""
    if len(op) > 2:
        try:
            if op[2] == 'raw': m = ircmsgs.IrcMsg(op[1])
            else: m = ircmsgs.IrcMsg(prefix=op[3], command=op[4], args=tuple(op[5]))
            if str(m) == op[1]:
                return m
        except Exception:
            pass
    return RawMsg(op[1])

class StubIrc(object):
    network = 'test'
    def __init__(self, ircmsgs, rig):
        self.q = []; self.fed = []; self.zombie = False; self.driver = None; self.reconnect_requests = 0; self.ping_due = False
        self.ircmsgs = ircmsgs; self.rig = rig
    def __str__(self): return 'StubIrc'
    __repr__ = __str__
    def queueMsg(self, m):
        if not self.zombie:
            self.q.append(m)
    def takeMsg(self):
        if self.q:
            m = self.q.pop(0); self.rig.sock.taken.append(m); return m
        if self.ping_due:
            # Irc.takeMsg with both queues empty and a PING outstanding past its interval: driver.reconnect()
            self.ping_due = False; self.reconnect_requests += 1
            self.driver.reconnect()
            return None
        if self.zombie:
            # Irc.takeMsg: self.driver.die(); self._reallyDie() (which calls driver.die() again)
            self.driver.die(); self.driver.die()
        return None
    def feedMsg(self, m):
        self.fed.append(m)
        if not self.zombie and m.command == 'PING' and m.args:
            try:
                self.q.append(self.ircmsgs.pong(m.args[0]))
            except AssertionError:
                pass
        if m.command == 'ERROR' and m.args:          # Irc.doError
            if m.args[0].lower().startswith('closing link'):
                self.reconnect_requests += 1; self.driver.reconnect()
            elif 'too fast' in m.args[0]:
                self.reconnect_requests += 1; self.driver.reconnect(wait=True)
    def reset(self):
        self.q = []                                  # Irc.reset(): queue.reset(), fastqueue.reset()
        self.ping_due = False                        # … outstandingPing = False

class Rig(object):
    def __init__(self):
        b = bot.full(plugins=())
        self.b = b
        from supybot import utils, drivers, conf, ircmsgs
        import supybot.drivers.Socket as S
        self.S = S; self.drivers = drivers; self.conf = conf; self.ircmsgs = ircmsgs; self.utils = utils
        conf.supybot.networks.test.servers.set('localhost:6667')
        self.sock = None; self.socks = []; self.offset = 0.0
        rig = self
        utils.net.getAddressFromHostname = lambda h, attempt=0: '127.0.0.1'
        def get_socket(*a, **k):
            rig.sock = FakeSock(); rig.socks.append(rig.sock); return rig.sock
        utils.net.getSocket = get_socket
        import select as _select
        class SelShim(object):
            error = _select.error
            @staticmethod
            def select(r, w, x, t=None):
                return ([c for c in r if getattr(c, 'recvs', None)], [], [])
        class TimeShim(object):
            @staticmethod
            def time(): return time.time() + rig.offset
            @staticmethod
            def sleep(t): pass
        S.select = SelShim; S.time = TimeShim

    def fresh(self, irc=None):
        S = self.S; drivers = self.drivers
        S.SocketDriver._instances[:] = []
        drivers._drivers.clear(); drivers._newDrivers.clear(); drivers._deadDrivers.clear()
        self.conf.supybot.drivers.poll._callbacks = []
        stub = irc or StubIrc(self.ircmsgs, self)
        self.socks = []
        d = S.SocketDriver(stub)
        stub.driver = d
        fs = self.sock
        drivers.run()                      # registers the new driver (does not run it yet)
        st = type('St', (), {})()
        st.crash = None; st.wpos = 0; st.fpos = 0
        st.name = d.name()                 # (name() changes once drivers.run() sets driver.irc = None)
        orig = d.run
        def run_wrapped():
            try:
                return orig()
            except BaseException as e:
                st.crash = type(e).__name__
                raise
        d.run = run_wrapped
        return d, stub, fs, st

def as_bytes(x):
    """a buffer of the driver as bytes (a str buffer is a change of representation: shown as its UTF-8)"""
    return bytes(x) if isinstance(x, (bytes, bytearray)) else x.encode('utf-8', 'surrogatepass')

def enc_tags(t):
    return '-' if not t else ','.join(wire.enc(k) + ':' + wire.enc_opt(v) for k, v in t.items())

def enc_msg(m):
    return '/'.join([wire.enc(m.prefix), wire.enc(m.command), wire.enc_list(m.args), enc_tags(m.server_tags),
                     wire.enc_opt(m.server_tags.get('time'))])

def dump(rig, d, stub, fs, st):
    fed = stub.fed[st.fpos:]; st.fpos = len(stub.fed)
    allsent = b''.join(x.sent for x in rig.socks)
    w = allsent[st.wpos:]; st.wpos = len(allsent)
    ob = d.outbuffer if isinstance(d.outbuffer, bytes) else d.outbuffer.encode('utf-8', 'surrogatepass')
    ib = d.inbuffer if isinstance(d.inbuffer, bytes) else d.inbuffer.encode('utf-8', 'surrogatepass')   # (a str buffer is a change of representation, shown as its bytes)
    s = 'c%d z%d x%d k%d r%d e%d ep%d ob=%s ib=%s w=%s q=%d f=%s' % (
        d.connected, d.zombie, st.name in rig.drivers._deadDrivers, rig.sock._closed,
        d.nextReconnectTime is not None, d.eagains, len(rig.socks) - 1, ob.hex(), ib.hex(), w.hex(), len(stub.q),
        ';'.join(enc_msg(m) for m in fed) if fed else '-')
    if st.crash:
        s += ' crash=' + st.crash
    return s

def op_line(op):
    k = op[0]
    if k == 'q': return 'q\t' + wire.enc(op[1])
    if k == 'ss': return 'ss\t' + res_str(op[1])
    if k == 'sr': return 'sr\t' + res_str(op[1])
    if k == 'die': return 'die'
    if k == 'tick': return 'tick'
    if k == 'pt': return 'pt'
    if k == 'loop': return 'loop'
    raise ValueError(op)

def res_str(r):
    if r[0] == 's': return 's%d' % r[1]
    if r[0] == 'e': return 'e%d' % r[1]
    if r[0] in 'tT': return 't'
    if r[0] == 'd': return 'd' + r[1].hex()
    raise ValueError(r)

def op_json(op):
    if op[0] in ('ss', 'sr'):
        r = op[1]
        return [op[0], [r[0], r[1].hex()] if r[0] == 'd' else list(r)]
    return list(op)

def op_unjson(j):
    if j[0] in ('ss', 'sr'):
        r = j[1]
        return (j[0], ('d', bytes.fromhex(r[1])) if r[0] == 'd' else tuple(r))
    if j[0] == 'q' and len(j) > 5:
        return tuple(j[:5]) + (tuple(j[5]),)
    return tuple(j)

def run_history(rig, ops, irc=None):
    """execute one history on the real driver; returns (per-op dumps, observations)"""
    d, stub, fs, st = rig.fresh(irc)
    outs = []
    obs = {'queued': [], 'must_be_drained': False}
    for op in ops:
        k = op[0]
        fs = rig.sock                      # scripts address the current socket
        # a loop pass that starts with nothing scripted sends everything; later q/ss ops void that
        if k == 'loop':
            obs['must_be_drained'] = not fs.script and not fs.recvs
        elif k in ('q', 'ss', 'sr'):
            obs['must_be_drained'] = False
        if k == 'q':
            if not stub.zombie:
                obs['queued'].append(op[1])
            stub.queueMsg(out_object(rig.ircmsgs, op))
        elif k == 'ss': fs.script.append(op[1])
        elif k == 'sr': fs.recvs.append(op[1])
        elif k == 'die': stub.zombie = True
        elif k == 'tick': rig.offset += 100000
        elif k == 'pt': stub.ping_due = True
        elif k == 'loop': rig.drivers.run()
        outs.append(dump(rig, d, stub, fs, st))
    fs = rig.sock
    obs['epochs'] = [(x.sent, [str(m) for m in x.taken]) for x in rig.socks]
    obs['sent'] = fs.sent
    obs['taken'] = [str(m) for m in fs.taken]
    obs['fed'] = [enc_msg(m) for m in stub.fed]
    obs['connected'] = d.connected
    obs['removed'] = st.name in rig.drivers._deadDrivers
    obs['outbuffer'] = d.outbuffer if isinstance(d.outbuffer, bytes) else d.outbuffer.encode('utf-8', 'surrogatepass')
    obs['left'] = len(stub.q)
    obs['recv_left'] = len(fs.recvs)
    obs['script_left'] = len(fs.script)
    obs['crash'] = st.crash
    obs['reconnect_requests'] = getattr(stub, 'reconnect_requests', 0)
    obs['pongs'] = [str(m) for x in rig.socks for m in x.taken if isinstance(m, rig.ircmsgs.IrcMsg)]
    return outs, obs

# ---------------------------------------------------------------- generators
A1 = 'abcdefXYZ0189 #:!@,.-_'
A2 = 'éßöñΩλжя'
A3 = '中文日本語€‰→'
A4 = '😀🎉𝔘𐍈'
def gen_text(r, maxlen=24):
    k = r.randint(0, 5)
    alpha = [A1, A1 + A2, A1 + A3, A1 + A4, A2 + A3 + A4, A1 + A2 + A3 + A4][k]
    return ''.join(r.choice(alpha) for _ in range(r.randint(0, maxlen)))

def gen_out_msg(rig, r):
    k = r.randint(0, 9)
    im = rig.ircmsgs
    t = gen_text(r)
    try:
        if k < 5: return str(im.privmsg(r.choice(['#c', '#chän', 'nick']), t or 'x'))
        if k < 6: return str(im.notice('n', t or 'y'))
        if k < 7: return str(im.IrcMsg(command='PRIVMSG', args=('#c', t), server_tags={'label': 'ab', '+k': t or None}))
        if k < 8: return str(im.join('#' + (t.replace(' ', '').replace(',', '') or 'c')))
    except AssertionError:
        pass
    if k == 8: return t            # a str() without CR LF: the driver must not care
    return 'PING :' + t + '\r\n'

def gen_twin_ops(rig, r):
    """real IrcMsg objects that are == (same prefix, command, args) but whose str() differ: one built from a raw
    line (its str() is that line as given), one from the fields (its str() is the canonical spelling)"""
    im = rig.ircmsgs
    word = ''.join(r.choice('abcxyz019é中') for _ in range(r.randint(1, 6)))
    k = r.randint(0, 4)
    if k == 0: prefix, cmd, args, raws = '', 'PING', (word,), ['PING %s\r\n', 'PING %s\n', 'PING  %s\r\n', 'PING :%s\n']
    elif k == 1: prefix, cmd, args, raws = '', 'PRIVMSG', ('#c', word), ['PRIVMSG #c %s\r\n', 'PRIVMSG #c %s\n', 'PRIVMSG  #c   %s\r\n']
    elif k == 2: prefix, cmd, args, raws = '', 'JOIN', ('#' + word,), ['JOIN #%s\r\n', 'JOIN #%s\n', 'JOIN    #%s\n']
    elif k == 3: prefix, cmd, args, raws = '', 'MODE', ('#c', '+o', word), ['MODE #c +o %s\r\n', 'MODE #c  +o  %s\n']
    else: prefix, cmd, args, raws = 'n!u@h', 'NOTICE', ('x', word), [':n!u@h NOTICE x %s\r\n', ':n!u@h  NOTICE x %s\n']
    canon = str(im.IrcMsg(prefix=prefix, command=cmd, args=args))
    out = [('q', canon, 'f', prefix, cmd, args)]
    for t in r.sample(raws, r.randint(1, len(raws))):
        line = t % word
        if line != canon:
            out.append(('q', line, 'raw'))
    r.shuffle(out)
    return out

EAGAIN_BURSTS = [1, 1, 2, 3, 7, 60, 100, 119, 120, 121]
def gen_send_script(r, benign=True, n=None):
    out = []
    for _ in range(n if n is not None else r.randint(0, 8)):
        k = r.randint(0, 11)
        if k < 5: out.append(('s', r.randint(1, 6)))
        elif k < 7: out.append(('s', r.randint(7, 80)))
        elif k < 8: out.append(('s', 0))
        elif k < 9: out.append(('s', 10 ** 6))
        elif k < 11: out += [('e', 11)] * r.choice(EAGAIN_BURSTS)
        elif benign: out.append(('s', 1))
        else: out += [('e', 11)] * r.choice([122, 123, 130])
    return out

def benign_script(script):
    """the fault model of the property: short writes and EAGAIN bursts the driver must tolerate"""
    run = 0
    for x in script:
        if x[0] == 'e':
            if x[1] != 11: return False
            run += 1
            if run > 121: return False
        else:
            run = 0
    return True

def gen_write_case(rig, r):
    ops = []
    script_all = []
    for _ in range(r.randint(1, 4)):
        for _ in range(r.randint(0, 4)):
            ops.append(('q', gen_out_msg(rig, r)))
        if r.random() < 0.25:
            tw = gen_twin_ops(rig, r)
            for o in tw:
                ops.insert(r.randint(max(0, len(ops) - 3), len(ops)), o)
        sc = gen_send_script(r)
        script_all += sc
        ops += [('ss', x) for x in sc]
        ops += [('loop',)] * r.randint(0, 3)
    # drain: every scripted outcome is consumed by at most one loop pass
    ops += [('loop',)] * (len(script_all) + 2)
    return ops

VALID_LINES = [':n!u@h PRIVMSG #c :hello world', 'PING :abc', 'PING x', ':srv 001 bot :Welcome',
               '@time=2011-10-19T16:40:51.620Z :n!u@h PRIVMSG #c :tagged', '@a=b;c :x NOTICE y :z',
               ':n!u@h PRIVMSG #c :héllo wörld', ':n!u@h PRIVMSG #c :中文 テスト', ':n PRIVMSG #c :😀 ok 🎉',
               'PING :é', 'PING :a\rb', ':srv 353 bot = #c :a b c', 'ERROR :bye', 'ERROR :bye', 'ERROR :Closing link: (bye)', 'ERROR :Trying to reconnect too fast',
               ':srv ERROR :closing LINK', 'ERROR']
HOSTILE_LINES = [':', '@tag', '@time=zz :a PRIVMSG b :c', '@time :a PRIVMSG b :c', '', ' ', '\r', ':a', '@ x', ': :',
                 '@time=2011-10-19T16:40:51.620Z PING :t', '\x1c\x1d PING :ws \x85', '　PING :ideo ']
BAD_BYTES = [b'\xff', b'\xc3', b'\xe2\x82', b'\xf0\x9f\x98', b'\xc0\xaf', b'\xed\xa0\x80', b'\xf4\x90\x80\x80',
             b'\xe0\x80\x80', b'\x80', b'\xf8\x88\x80\x80\x80', b'\xe2\x28\xa1', b'\xf0\x28\x8c\xbc', b'\x00']
def gen_stream(r):
    parts = []
    for _ in range(r.randint(1, 7)):
        k = r.randint(0, 9)
        if k < 5: l = r.choice(VALID_LINES).encode()
        elif k < 7: l = r.choice(HOSTILE_LINES).encode()
        elif k < 8:
            l = r.choice(VALID_LINES).encode()
            i = r.randrange(len(l) + 1)
            l = l[:i] + r.choice(BAD_BYTES) + l[i:]
        elif k < 9: l = ('PING :' + gen_text(r, 12)).encode()
        else: l = bytes(r.choice([0x20, 0x3a, 0x40, 0x41, 0x0d, 0xc3, 0xa9, 0xe2, 0x82, 0xac, 0xf0, 0x9f, 0x98, 0x80, 0xff, 0x00, 0x50]) for _ in range(r.randint(0, 12)))
        parts.append(l + r.choice([b'\r\n', b'\r\n', b'\n', b'\r\r\n', b'\n\n']))
    if r.random() < 0.3:
        parts.append(r.choice(VALID_LINES).encode()[:r.randint(0, 9)])     # unterminated tail
    return b''.join(parts)

LONG_SIZES = [513, 514, 520, 600, 700, 1000, 1023, 1024, 1025, 1100, 1500, 2047, 2049, 2600]
def gen_long_line(r):
    """a valid line longer than 512 bytes (message tags may take 8191 bytes on their own; some servers do not limit the rest either)"""
    n = r.choice(LONG_SIZES)
    k = r.randint(0, 4)
    fill = lambda m, alpha='abcdefghij0123456789': ''.join(r.choice(alpha) for _ in range(max(1, m)))
    if k == 0:
        tags = []
        while sum(len(t) + 1 for t in tags) < n:
            tags.append('%s=%s' % (fill(r.randint(1, 8), 'abcdexyz'), fill(r.randint(1, 120))))
        l = '@' + ';'.join(tags) + ' :n!u@h PRIVMSG #c :tagged'
    elif k == 1: l = '@label=' + fill(n) + ' PING :x'
    elif k == 2: l = ':n!u@h PRIVMSG #c :' + fill(n, 'abc def ghi')
    elif k == 3: l = ':n!u@h PRIVMSG #c :' + fill(max(400, n // 2), 'aé中😀 ')
    else: l = ':srv 353 bot = #c :' + ' '.join(fill(r.randint(1, 9), 'abcxyz') for _ in range(n // 5))
    return l.encode()

def gen_long_stream(r):
    """-> (stream, [(start, end)] of the long lines in it, without their terminators)"""
    out = b''; spans = []
    n = r.randint(1, 4); sure = r.randrange(n)
    for i in range(n):
        if i == sure or r.random() < 0.4:
            l = gen_long_line(r); spans.append((len(out), len(out) + len(l)))
        else:
            l = r.choice(VALID_LINES[:12]).encode()
        out += l + r.choice([b'\r\n', b'\r\n', b'\n'])
    if r.random() < 0.3:
        l = gen_long_line(r)
        out += l[:r.randint(1, len(l))]                # an unfinished long line stays buffered
    return out, spans

def partition_long(r, data, spans):
    """few chunks; for the long lines a cut that leaves more than 512 bytes of the line waiting for its LF"""
    cuts = set()
    for (a, b) in spans:
        k = r.randint(0, 3)
        if k == 0: cuts.add(min(a + 513, b))
        elif k == 1: cuts.add(r.randint(min(a + 513, b), b))
        elif k == 2: cuts.add(b)                        # everything but the terminator
        if r.random() < 0.3: cuts.add(a)
    for _ in range(r.choice([0, 0, 1, 2, 5])):
        cuts.add(r.randrange(1, len(data)))
    cuts = sorted(c for c in cuts if 0 < c < len(data))
    out = []; p = 0
    for c in cuts + [len(data)]:
        out.append(data[p:c]); p = c
    return cap_chunks([x for x in out if x])

def partition(r, data, mode):
    if not data: return []
    if mode == 'one': return cap_chunks([data])
    if mode == 'bytes': return [data[i:i + 1] for i in range(len(data))]
    cuts = set()
    if mode == 'targeted':
        # cut inside multi-byte characters and between CR and LF
        for i in range(1, len(data)):
            if (data[i] & 0xC0) == 0x80 or (data[i - 1] == 13 and data[i] == 10):
                if r.random() < 0.6: cuts.add(i)
    else:
        for _ in range(r.randint(0, max(1, len(data) // 4))):
            cuts.add(r.randrange(1, len(data)) if len(data) > 1 else 0)
    cuts = sorted(c for c in cuts if 0 < c < len(data))
    out = []; p = 0
    for c in cuts + [len(data)]:
        out.append(data[p:c]); p = c
    return cap_chunks([x for x in out if x])

RECV_SIZE = 1024
def cap_chunks(chunks):
    """recv(1024) never returns more than 1024 bytes"""
    out = []
    for c in chunks:
        for i in range(0, len(c), RECV_SIZE):
            out.append(c[i:i + RECV_SIZE])
    return out

def full_buffer_case(r):
    """a burst delivered in chunks of EXACTLY the recv size, each followed by 'nothing more for now' (timeout / EAGAIN)"""
    s = b''
    while len(s) < RECV_SIZE * r.choice([1, 2, 2, 3]) + r.choice([0, 0, 7]):
        s += gen_stream(r)
        if r.random() < 0.15: s += gen_long_line(r) + b'\r\n'
    s = s.replace(b'ERROR', b'NOTICE')
    ops = []
    for i in range(0, len(s), RECV_SIZE):
        ops.append(('sr', ('d', s[i:i + RECV_SIZE])))
        k = r.randint(0, 3)
        if k == 0: ops.append(('sr', ('t',)))
        elif k == 1: ops.append(('sr', ('e', 11)))
        ops.append(('loop',))
        if r.random() < 0.5: ops.append(('loop',))
    ops += [('loop',)] * 4
    return ops

def read_ops(r, chunks, noise=True):
    ops = []
    for c in chunks:
        ops.append(('sr', ('d', c)))
        if noise and r.random() < 0.15: ops.append(('sr', (r.choice('tT'),)))
        if not noise or r.random() < 0.7: ops.append(('loop',))
    ops += [('loop',)] * (len(chunks) + 2)
    return ops

def gen_mixed_case(rig, r):
    ops = []
    for _ in range(r.randint(3, 25)):
        k = r.randint(0, 19)
        if k < 5: ops.append(('q', gen_out_msg(rig, r)))
        elif k < 8: ops += [('ss', x) for x in gen_send_script(r, benign=False, n=r.randint(1, 2))]
        elif k < 9: ops.append(('ss', ('e', r.choice([0, 32, 104, 110]))))
        elif k < 12:
            s = gen_stream(r)
            ops += [('sr', ('d', c)) for c in partition(r, s, r.choice(['random', 'targeted', 'one']))]
        elif k < 13: ops.append(('sr', r.choice([('d', b''), ('e', 104), ('e', 11), ('t',), ('T',)])))
        elif k < 14: ops.append(r.choice([('die',), ('tick',), ('tick',), ('pt',), ('pt',)]))
        else: ops.append(('loop',))
    ops += [('loop',)] * 3
    return ops

# ---------------------------------------------------------------- several drivers sharing SocketDriver._select
class MultiRig(object):
    """n real SocketDrivers (one stub Irc and one fake socket each) registered with the real drivers.run()"""
    def __init__(self, rig, n):
        self.rig = rig
        S = rig.S; drivers = rig.drivers
        S.SocketDriver._instances[:] = []
        drivers._drivers.clear(); drivers._newDrivers.clear(); drivers._deadDrivers.clear()
        rig.conf.supybot.drivers.poll._callbacks = []
        rig.socks = []
        self.ds = []; self.stubs = []; self.sts = []
        for i in range(n):
            net = 'test' if i == 0 else 'vtnet%d' % i
            try:
                rig.conf.supybot.networks.get(net)
            except Exception:
                rig.conf.registerNetwork(net)
                getattr(rig.conf.supybot.networks, net).ssl.setValue(False)
            getattr(rig.conf.supybot.networks, net).servers.set('localhost:%d' % (6667 + i))
            stub = StubIrc(rig.ircmsgs, None); stub.network = net
            stub.__class__ = type('StubIrc%d' % i, (StubIrc,), {'__str__': lambda self, i=i: 'StubIrc%d' % i, '__repr__': lambda self, i=i: 'StubIrc%d' % i})
            d = S.SocketDriver(stub); stub.driver = d
            holder = type('H', (), {})(); holder.sock = d.conn
            stub.rig = holder                       # takeMsg records on the driver's current socket
            self.ds.append(d); self.stubs.append(stub)
            st = type('St', (), {})(); st.name = d.name(); st.wpos = 0; st.fpos = 0; st.socks = [d.conn]; st.crash = None
            self.sts.append(st)
            drivers.run()                     # register one at a time: drivers.run() pops _newDrivers from the end
    def sync(self):
        for d, st, stub in zip(self.ds, self.sts, self.stubs):
            if d.conn is not st.socks[-1]:
                st.socks.append(d.conn)
            stub.rig.sock = d.conn
    def dump(self, i):
        d = self.ds[i]; st = self.sts[i]; stub = self.stubs[i]
        fed = stub.fed[st.fpos:]; st.fpos = len(stub.fed)
        allsent = b''.join(x.sent for x in st.socks)
        w = allsent[st.wpos:]; st.wpos = len(allsent)
        return 'c%d z%d x%d k%d r%d e%d ep%d ob=%s ib=%s w=%s q=%d f=%s' % (
            d.connected, d.zombie, st.name in self.rig.drivers._deadDrivers, d.conn._closed, d.nextReconnectTime is not None, d.eagains,
            len(st.socks) - 1, as_bytes(d.outbuffer).hex(), as_bytes(d.inbuffer).hex(), w.hex(), len(stub.q),
            ';'.join(enc_msg(m) for m in fed) if fed else '-')

def multi_cases(rig, r, n_cases):
    cases = []; lines = []; spans = []
    for _ in range(n_cases):
        n = r.choice([2, 2, 3])
        mr = MultiRig(rig, n)
        ops = []; outs = []
        for _ in range(r.randint(4, 18)):
            i = r.randrange(n)
            k = r.randint(0, 9)
            if k < 1:
                # the same message (==) spelled differently, for different networks
                tw = gen_twin_ops(rig, r)
                for o in tw[:-1]:
                    ops.append(('m', r.randrange(n), o))
                op = ('m', r.randrange(n), tw[-1])
            elif k < 3: op = ('m', i, ('q', gen_out_msg(rig, r)))
            elif k < 5: op = ('m', i, ('ss', r.choice([('s', r.randint(0, 9)), ('e', 11), ('s', 0), ('s', 10 ** 6)])))
            elif k < 8:
                # (no line that makes the stub reconnect and no fatal socket error here: leaving _instances inside _select
                #  mutates the list being iterated, which makes CPython skip the next driver for that pass — a latency quirk,
                #  not modelled; such histories are covered by the single-driver streams)
                s_ = gen_stream(r)
                while b'ERROR' in s_.upper():
                    s_ = gen_stream(r)
                chunks = partition(r, s_, r.choice(['random', 'one', 'targeted']))[:4]
                for c in chunks[:-1]:
                    ops.append(('m', i, ('sr', ('d', c))))
                op = ('m', i, ('sr', ('d', chunks[-1]))) if chunks else ('mloop',)
            else: op = ('mloop',)
            ops.append(op)
        ops += [('mloop',)] * (3 + sum(1 for o in ops if o[0] == 'm' and o[2][0] == 'sr'))
        all_ok = True; msg = ''
        streams = [b'' for _ in range(n)]
        for op in ops:
            mr.sync()
            if op[0] == 'mloop':
                rig.drivers.run()
            else:
                _, i, o = op
                stub = mr.stubs[i]; fs = mr.ds[i].conn
                if o[0] == 'q': stub.queueMsg(out_object(rig.ircmsgs, o))
                elif o[0] == 'ss': fs.script.append(o[1])
                elif o[0] == 'sr':
                    fs.recvs.append(o[1])
                    if o[1][0] == 'd': streams[i] += o[1][1]
            mr.sync()
            outs.append(' || '.join(mr.dump(i) for i in range(n)))
        # the property per connection: what each socket got is a prefix of the encoding of what was taken for it
        for st in mr.sts:
            for sk in st.socks:
                if not encoded([str(m) for m in sk.taken]).startswith(sk.sent):
                    all_ok = False; msg = 'with %d drivers sharing _select, a socket received %r… not a prefix of the encoding of its messages' % (n, sk.sent[:60])
        # … and every driver's input is delivered, whichever its position in SocketDriver._instances
        for i in range(n):
            if mr.ds[i].connected and all_ok:
                got = [enc_msg(m) for m in mr.stubs[i].fed]
                want = reference_messages(rig, streams[i])
                if mr.ds[i].conn.recvs:
                    all_ok = False; msg = 'driver %d of %d: %d recv() result(s) were never read although the loop ran once more per scripted result' % (i, n, len(mr.ds[i].conn.recvs))
                elif got != want:
                    all_ok = False; msg = 'driver %d of %d was delivered %d message(s), its stream %r… holds %d' % (i, n, len(got), streams[i][:60], len(want))
        cases.append(Case({'multi': n, 'ops': [[o[0]] if o[0] == 'mloop' else ['m', o[1], op_json(o[2])] for o in ops]}, impl='\n'.join(outs),
                          oracle_ok=all_ok, oracle_msg=msg, kind='multi-driver', tags=('drivers-%d' % n,)))
        lines.append('mreset\t%d' % n)
        spans.append((len(lines), len(ops)))
        for o in ops:
            lines.append('mloop' if o[0] == 'mloop' else 'm\t%d\t%s' % (o[1], op_line(o[2])))
    return cases, lines, spans

# ---------------------------------------------------------------- oracle (implementation only)
def encoded(strs):
    return ''.join(strs).encode('utf-8')

def oracle_write(ops, obs):
    """bytes on the socket = UTF-8 of the str(m)s handed over, in order, each once"""
    for (sent_i, taken_i) in obs['epochs'][:-1]:
        if not encoded(taken_i).startswith(sent_i):
            return False, 'an earlier connection received %r… which is not a prefix of the encoding %r… of what was taken for it' % (
                sent_i[-24:], encoded(taken_i)[-32:]), None
    want = encoded(obs['taken'])
    sent = obs['sent']
    if not want.startswith(sent):
        i = next((i for i in range(min(len(want), len(sent))) if want[i] != sent[i]), min(len(want), len(sent)))
        return False, 'socket received %r… where the encoding of the messages is %r… (first difference at byte %d)' % (
            sent[max(0, i - 8):i + 8], want[max(0, i - 8):i + 8], i), None
    script = [o[1] for o in ops if o[0] == 'ss']
    hostile = any(o[0] == 'sr' and (o[1][0] == 'e' or (o[1][0] == 'd' and not o[1][1])) for o in ops) or len(obs['epochs']) > 1 or obs['reconnect_requests'] > 0
    if obs['removed'] and sent != want and benign_script(script) and not hostile:
        return False, ('the driver was removed from the loop with %d byte(s) of taken messages never written '
                       '(socket got %r, messages were %r)' % (len(want) - len(sent), sent[-30:], want[-40:])), 'C11-zombie-flush'
    if benign_script(script) and not hostile and not obs['removed']:
        if not obs['connected']:
            return False, 'driver disconnected although the socket only reported short writes / tolerable EAGAIN bursts', None
        if obs['must_be_drained'] and (sent != want or obs['left']):
            return False, 'after a loop pass with no fault scripted the socket has %d of %d bytes, %d message(s) still queued' % (len(sent), len(want), obs['left']), None
    return True, '', None

def reference_messages(rig, data):
    """the messages of a byte stream, by the IRC framing rule (lines end with LF; surrounding blanks/CR
    dropped; empty and malformed lines skipped) — written independently of the driver"""
    out = []
    for line in data.split(b'\n')[:-1]:
        s = line.decode('utf-8', 'replace').strip()
        if not s:
            continue
        try:
            out.append(enc_msg(rig.ircmsgs.IrcMsg(s)))
        except rig.ircmsgs.MalformedIrcMsg:
            pass
    return out

def oracle_read(rig, r, stream_ops, obs):
    """messages delivered = those of the unsplit stream"""
    data = b''.join(o[1][1] for o in stream_ops if o[0] == 'sr' and o[1][0] == 'd')
    ref_ops = []
    for c in cap_chunks([data]):
        ref_ops += [('sr', ('d', c)), ('loop',)]
    _, ref = run_history(rig, ref_ops + [('loop',)] * 2)
    if obs['fed'] != ref['fed']:
        i = next((i for i in range(min(len(ref['fed']), len(obs['fed']))) if ref['fed'][i] != obs['fed'][i]), min(len(ref['fed']), len(obs['fed'])))
        show = lambda l: [x if len(x) < 200 else x[:90] + '…(%d)…' % len(x) + x[-60:] for x in l[i:i + 2]]
        return False, 'delivered %d message(s), from number %d on %r, but the same bytes in as few recv(1024) as possible deliver %d, from number %d on %r' % (
            len(obs['fed']), i, show(obs['fed']), len(ref['fed']), i, show(ref['fed']))
    want = reference_messages(rig, data)
    if obs['fed'] != want:
        i = next((i for i in range(min(len(want), len(obs['fed']))) if want[i] != obs['fed'][i]), min(len(want), len(obs['fed'])))
        show = lambda l: [x if len(x) < 200 else x[:90] + '…(%d)…' % len(x) + x[-60:] for x in l[i:i + 2]]
        return False, 'delivered %d message(s), from number %d on %r, but the LF-terminated lines of the stream (%d bytes, longest line %d) are %d message(s), from number %d on %r' % (
            len(obs['fed']), i, show(obs['fed']), len(data), max(len(l) for l in data.split(b'\n')), len(want), i, show(want))
    return True, ''

def case_tags(ops, outs, obs):
    t = set()
    script = [o[1] for o in ops if o[0] == 'ss']
    if any(x[0] == 's' and x[1] < 50 for x in script): t.add('short-write')
    if any(x == ('s', 0) for x in script): t.add('zero-write')
    if any(x == ('e', 11) for x in script): t.add('eagain')
    run = 0; mx = 0
    for x in script:
        run = run + 1 if x == ('e', 11) else 0
        mx = max(mx, run)
    if mx >= 100: t.add('eagain-burst>=100')
    if mx > 121: t.add('eagain-burst>121')
    if any(x[0] == 'e' and x[1] != 11 for x in script): t.add('send-error')
    if any(o[0] == 'die' for o in ops): t.add('irc-die')
    if obs['removed']: t.add('driver-removed')
    if obs['removed'] and obs['outbuffer']: t.add('zombie-flush-incomplete')
    if not obs['connected']: t.add('disconnected')
    chunks = [o[1][1] for o in ops if o[0] == 'sr' and o[1][0] == 'd']
    if any(o[0] == 'sr' and o[1][0] in 'tT' for o in ops): t.add('recv-timeout')
    if any(o[0] == 'sr' and o[1][0] == 'e' for o in ops): t.add('recv-error')
    if any(not c for c in chunks): t.add('peer-closed')
    for c in chunks:
        if c and (c[0] & 0xC0) == 0x80: t.add('cut-inside-multibyte')
        if c and c[0] == 10: t.add('cut-before-LF')
    if len(chunks) > 1: t.add('multi-chunk')
    if any(len(l) > 512 for l in b''.join(chunks).split(b'\n')): t.add('line>512')
    if any(len(l) > 1024 for l in b''.join(chunks).split(b'\n')): t.add('line>1024')
    if any(' ib=' in o and len(o.split(' ib=')[1].split(' ')[0]) > 1024 for o in outs): t.add('>512-bytes-buffered-without-LF')
    if sum(1 for o in ops if o[0] == 'q' and len(o) > 2) > 1: t.add('equal-messages-spelled-differently')
    data = b''.join(chunks)
    if data:
        try: data.decode('utf-8')
        except UnicodeDecodeError: t.add('invalid-utf8')
    if obs['fed']: t.add('delivered')
    if any(' ib=' in o and not o.split(' ib=')[1].startswith(' ') for o in outs): t.add('partial-line-buffered')
    if any(' ob=' in o and not o.split(' ob=')[1].startswith(' ') for o in outs): t.add('outbuffer-nonempty')
    if obs['pongs']: t.add('pong')
    if len(obs['epochs']) > 1: t.add('reconnected')
    if any(o[0] == 'tick' for o in ops): t.add('tick')
    if any(o[0] == 'pt' for o in ops): t.add('ping-timeout')
    if any(any(ord(ch) > 127 for ch in o[1]) for o in ops if o[0] == 'q'): t.add('multibyte-out')
    return tuple(sorted(t))

# ---------------------------------------------------------------- exploration
def make_case(rig, r, ops, kind, reads=False):
    outs, obs = run_history(rig, ops)
    ok, msg, fid = oracle_write(ops, obs)
    if ok and reads and obs['connected'] and not obs['removed'] and not obs['recv_left'] and len(obs['epochs']) == 1 and not obs['reconnect_requests'] and \
            not any(o[0] == 'sr' and ((o[1][0] == 'e' and o[1][1] != 11) or (o[1][0] == 'd' and not o[1][1])) for o in ops):
        ok, msg = oracle_read(rig, r, ops, obs)
    if obs['crash']:
        ok = False; msg = 'exception %s escaped SocketDriver.run()' % obs['crash']; fid = None
    c = Case({'ops': [op_json(o) for o in ops]}, impl='\n'.join(outs), oracle_ok=ok, oracle_msg=msg,
             tags=case_tags(ops, outs, obs), finding=fid, kind=kind)
    return c

def load_corpus():
    d = os.path.join(VERIF, 'corpus', PROPERTY)
    out = []
    if os.path.isdir(d):
        for f in sorted(os.listdir(d)):
            if f.endswith('.json'):
                j = json.load(open(os.path.join(d, f)))
                out.append((f, [op_unjson(o) for o in j['ops']]))
    return out

def explore(rig, stream, n_write, n_read, n_mixed, exhaustive_bytes=0, corpus=True):
    r = rng.make(stream)
    cases = []
    if corpus:
        for name, ops in load_corpus():
            cases.append(make_case(rig, r, ops, 'corpus', reads=True))
    for _ in range(n_write):
        cases.append(make_case(rig, r, gen_write_case(rig, r), 'write'))
    for i in range(n_read):
        s = gen_stream(r)
        mode = ['random', 'targeted', 'bytes', 'random'][i % 4]
        if mode == 'bytes' and len(s) > 160: mode = 'targeted'
        cases.append(make_case(rig, r, read_ops(r, partition(r, s, mode)), 'read-' + mode, reads=True))
    for _ in range(max(20, n_read // 12)):
        cases.append(make_case(rig, r, full_buffer_case(r), 'read-full-buffer', reads=True))
    for _ in range(max(20, n_read // 10)):
        s, spans = gen_long_stream(r)
        cases.append(make_case(rig, r, read_ops(r, partition_long(r, s, spans), noise=False), 'read-long-lines', reads=True))
    for _ in range(exhaustive_bytes):
        s = gen_stream(r)[:120]
        cases.append(make_case(rig, r, read_ops(r, partition(r, s, 'bytes'), noise=False), 'read-bytes', reads=True))
    for _ in range(n_mixed):
        cases.append(make_case(rig, r, gen_mixed_case(rig, r), 'mixed', reads=True))
    return cases

def time_ok(v):
    import datetime
    try:
        datetime.datetime.strptime(v, '%Y-%m-%dT%H:%M:%S.%fZ'); return True
    except ValueError:
        return False

def _needed_times(outs):
    need = set()
    for o in outs:
        for part in o.split(' || '):
            f = part.split(' f=')
            if len(f) > 1 and f[1].split(' ')[0] != '-':
                for m in f[1].split(' ')[0].split(';'):
                    tv = m.split('/')[4]
                    if tv != '~': need.add(wire.dec(tv))
    return need

def model_outputs(lines):
    """run the model; instantiate its strptime parameter with the real function (fixed point over the values it relied on)"""
    def run(pre):
        return wire.run_driver(PROPERTY, pre + lines)[len(pre):]
    outs = run(['timeall'])
    need = _needed_times(outs)
    if any(not time_ok(v) for v in need):
        for _ in range(5):
            good = sorted(v for v in need if time_ok(v))
            outs = run(['timeset\t' + wire.enc_list(good)])
            need2 = need | _needed_times(outs)
            if need2 == need: break
            need = need2
    return outs

def fill_model(cases):
    lines = []; spans = []
    for c in cases:
        ops = [op_unjson(o) for o in c.input['ops']]
        lines.append('reset')
        spans.append((len(lines), len(ops)))
        lines += [op_line(o) for o in ops]
    outs = model_outputs(lines)
    for c, (a, n) in zip(cases, spans):
        c.model = '\n'.join(outs[a:a + n])
    return cases

# ---------------------------------------------------------------- micro-suites for the pure functions
def micro_cases(rig, r, n):
    """decode_raw_line / str.encode / split+pop against the model's decode / utf8 / splitLF"""
    from supybot.utils.str import decode_raw_line
    cases = []; lines = []
    for i in range(n):
        k = i % 3
        if k == 0:
            b = b''.join(r.choice(BAD_BYTES + [b'a', b' ', b'\xc3\xa9', b'\xe2\x82\xac', b'\xf0\x9f\x98\x80', b'\xf0\x9f', b'\xe2', b'\xed\x9f\xbf', b'\xef\xbf\xbd',
                                                 bytes([r.randrange(256)]), bytes([r.randrange(0x80, 0x100)])]) for _ in range(r.randint(0, 8)))
            cases.append(Case({'micro': 'decode', 'bytes': b.hex()}, impl=wire.enc(decode_raw_line(b)), kind='micro-decode',
                              tags=('decode-invalid',) if b'\xef\xbf\xbd'.decode() in decode_raw_line(b) else ('decode',)))
            lines.append('decode\t' + b.hex())
        elif k == 1:
            t = gen_text(r, 10) + r.choice(['', '\x00', '\x7f', '\x80', '߿', 'ࠀ', '￿', '\U00010000', '\U0010ffff', '퟿', ''])
            cases.append(Case({'micro': 'utf8', 'text': t}, impl=t.encode().hex(), kind='micro-utf8', tags=('utf8',)))
            lines.append('utf8\t' + wire.enc(t))
        else:
            b = bytes(r.choice([10, 10, 13, 65, 66, 0xc3, 0xa9, 32]) for _ in range(r.randint(0, 10)))
            parts = b.split(b'\n'); rem = parts.pop()
            cases.append(Case({'micro': 'splitlf', 'bytes': b.hex()}, impl=(','.join(p.hex() for p in parts) if parts else '-') + '|' + rem.hex(),
                              kind='micro-split', tags=('splitlf',)))
            lines.append('splitlf\t' + b.hex())
    return cases, lines

# ---------------------------------------------------------------- known finding: zombie short write
ZOMBIE_WITNESS = {'ops': [['q', 'QUIT :bye\r\n'], ['die'], ['ss', ['s', 4]], ['loop'], ['loop'], ['loop']]}

def zombie_real_irc(rig):
    """replay the witness with a REAL irclib.Irc (not the stub): queue QUIT, Irc.die(), let send() take 4 bytes"""
    irclib = rig.b.irclib
    irc = irclib.Irc('test')
    d, _, fs, st = rig.fresh(irc)
    irc.driver = d
    irc.afterConnect = True
    for _ in range(3): rig.drivers.run()           # connection registration messages go out
    before = len(fs.sent)
    irc.queueMsg(rig.ircmsgs.quit('bye'))
    irc.die()
    fs.script = [('s', 4)]
    for _ in range(4): rig.drivers.run()
    got = fs.sent[before:]
    want = b'QUIT :bye\r\n'
    still = (got != want)
    return still, ('Irc.die() with a short write: socket received %r of %r, driver removed from the loop with out-buffer %r, socket closed=%s'
                   % (got, want, d.outbuffer, fs._closed))

def run(ctx):
    build = leanbuild.ensure(PROPERTY, THEOREMS, thorough=ctx.thorough, extractors=[])
    rig = Rig()
    scale = 12 if ctx.thorough else 1
    cases = explore(rig, 'c11', 3500 * scale, 3500 * scale, 2500 * scale, exhaustive_bytes=150 * scale)
    mc, mlines = micro_cases(rig, rng.make('c11-micro'), 9000 * scale)
    if build.driver_ok:
        fill_model(cases)
        for c, o in zip(mc, wire.run_driver(PROPERTY, mlines)):
            c.model = o
    cases += mc
    mcs, mls, msp = multi_cases(rig, rng.make('c11-multi'), 250 * scale)
    if build.driver_ok:
        mouts = model_outputs(mls)
        for c, (a, n) in zip(mcs, msp):
            c.model = '\n'.join(mouts[a:a + n])
    cases += mcs
    wc = make_case(rig, rng.make('w'), [op_unjson(o) for o in ZOMBIE_WITNESS['ops']], 'finding-witness')
    st_stub = (wc.oracle_ok is False and wc.finding == 'C11-zombie-flush')
    try:
        st_real, what = zombie_real_irc(rig)
    except Exception as e:
        st_real, what = False, 'replay on the real Irc failed: %r' % (e,)
    def search(disagreements, broken):
        os.environ['VERIF_SEED'] = str(ctx.seed + 7919)
        try:
            more = explore(rig, 'c11-search', 3000, 3000, 2000, exhaustive_bytes=100, corpus=False)
            for dcase in disagreements[:50]:
                more.append(make_case(rig, rng.make('d'), [op_unjson(o) for o in dcase.input['ops']], 'disagreement', reads=True))
        finally:
            os.environ['VERIF_SEED'] = str(ctx.seed)
        return [c for c in more if c.oracle_ok is False]
    return verdict.conclude(PROPERTY, ctx.tier, ctx.seed, build, cases, search=search, rule=RULE,
                            finding_status={'C11-zombie-flush': (st_stub and st_real, what)},
                            trusted_base=TRUSTED,
                            assumptions=['outgoing str(m) are valid Unicode scalar sequences (no lone surrogates; see C07)',
                                         'send() returns 0 ≤ n ≤ len(buffer) or raises socket.error; recv() returns bytes or raises',
                                         'a (re)connection attempt succeeds; no write-check timer; one SocketDriver instance',
                                         'charade is not installed (decode_raw_line = UTF-8 with errors=replace)'],
                            t0=ctx.t0)

def replay(ctx, path):
    rig = Rig()
    d = json.load(open(path))
    c = d.get('case') or d.get('first_disagreement')
    if not c:
        print(json.dumps(d, indent=1)[:3000]); return 0
    print('recorded:', c.get('oracle_msg') or '(correspondence disagreement)')
    if 'ops' in c['input']:
        ops = [op_unjson(o) for o in c['input']['ops']]
        c2 = make_case(rig, rng.make('replay'), ops, 'replay', reads=True)
        for o, l in zip(ops, c2.impl.split('\n')):
            print('  %-60s %s' % (op_line(o)[:60], l))
        print('implementation now: oracle_ok=%s %s' % (c2.oracle_ok, c2.oracle_msg))
        return 0 if c2.oracle_ok else 1
    print(json.dumps(c['input']))
    return 0
