"""C07 — no line from the server can kill the connection loop or stop later processing.
Three correspondence levels against lean/LimnoriaModel/C07/Model.lean (+ the C11 driver model):
 L1  log.firewall / log.MetaFirewall on synthetic functions and class hierarchies (exact);
 L2  the stage flow of the real Irc.feedMsg / Irc.takeMsg with scripted handlers, state handlers and
     callbacks raising Exceptions / BaseExceptions / dropping (exact call log + outcome);
 L3  the real SocketDriver + real Irc + real plugins (+ the misbehaving plugin VtFaulty) on hostile
     byte streams under the real drivers.run(): driver still registered, PONG projection of the wire
     equals the model's, and a PING fed afterwards is answered (the property oracle)."""
import json, os, socket, sys, time
from vlib import wire, rng, leanbuild, verdict, bot, VERIF
from vlib.verdict import Case
import c11

PROPERTY = 'C07'
MANIFEST = {
 'level_text': 'Lean 4 theorems, kernel-checked, about an exception-flow model of the connection loop: log.firewall returns for every Exception raised by the wrapped body and by its error handler; MetaFirewall wraps every overridden method named in any ancestor\'s __firewalled__ map; Irc.feedMsg returns whatever its own handler, IrcState.addMsg, every inFilter and every callback do (return, drop, raise any Exception), and a raising callback never prevents the later ones from running; an outFilter raising an Exception never loses the message; hence in the driver model of C11 (SocketDriver._read/run/_select, framing, decoding, parsing) no history of server bytes, chunkings and socket outcomes makes an exception escape SocketDriver.run, the driver is never removed by drivers.run, and a well-formed PING line received on a quiet connection is answered by its PONG on the wire. Which methods are firewalled, which class every relevant except clause names and how the driver encodes are re-extracted from /repo on every run and enter the theorems through table lemmas; model and code are tied by three differential runs (firewall/metaclass, feedMsg/takeMsg stage flow on the real Irc, hostile byte streams through the real driver with real plugins and a misbehaving plugin).',
 'level_note': 'Trusted: Lean kernel; harness/extractors/firewall.py; the correspondence harness; LimnoriaModel.C05/C11 models as tied by their own checks. Modelled and proved: firewall, MetaFirewall attribute selection, feedMsg/takeMsg stage flow, driver read/send loop, drivers.run catch. Parameters (quantified over): what every handler/plugin does (returns, drops, raises). Not modelled: BaseExceptions other than as "escapes" (KeyboardInterrupt/SystemExit end the process by design), hangs, memory exhaustion, real sockets/TLS, reconnect internals; that no real handler hangs or raises a non-Exception is exploration (L3, run with the production logging path enabled: supybot formats every log record), reported as such; the answer of the real Irc to PING is a contract of later_ping_answered validated there, except the per-message ISUPPORT/channel preamble, which is modelled and proved total.',
 'technique': 'Lean 4 proof (case analysis on exception flow + the C11 invariant) + table extraction + differential correspondence at three levels',
 'design_ref': 'DESIGN.md §6 C07',
}
THEOREMS = ['C07.firewall_tables_ok', 'C07.firewall_total', 'C07.plugin_hooks_wrapped', 'C07.all_plugin_hooks_firewalled', 'C07.logging_swallows_exceptions', 'C07.feedMsg_total',
            'C07.callbacks_all_run', 'C07.outFilter_exception_keeps_message', 'C07.takeMsg_total',
            'C07.isupport_never_deafens', 'C07.no_escape', 'C07.read_never_raises', 'C07.driver_never_removed', 'C07.later_ping_answered',
            'C07.liveB_pingAnswered']
TRUSTED = ['Lean 4.33.0 kernel; axioms ⊆ {propext, Classical.choice, Quot.sound}',
           'harness/extractors/firewall.py (the __firewalled__ maps, except-clause classes, encode errors= → Gen/Firewall.lean)',
           'harness/c07.py + harness/c11.py (FakeSocket, generators, canonicalisation), harness/plugins/VtFaulty',
           'LimnoriaModel.C05.Model / C11.Model as tied to the code by checks C05 / C11']
RULE = ('L1: random outcomes (return / 10 Exception classes / 3 BaseException classes) for body and error handler; random class hierarchies (≤4 levels, '
        'multiple bases, dict and list maps). L2: messages VTOWN / VTNONE / argument-less 001 on a real Irc subclass with scripted own handler, state '
        'handler, 0–4 callbacks (inFilter pass/drop/raise, __call__ return/raise), outFilter chains. L3: hostile streams (invalid UTF-8, empty prefix, '
        'tags without command, bad time tags, numerics/MODE/KICK/CAP/AUTHENTICATE/BATCH with missing or absurd arguments, 10 kB lines, user commands '
        'incl. lone surrogates) in random order and chunking, VtFaulty raising in inFilter/outFilter/__call__. Non-trivial = at least one raise/drop/'
        'malformed/invalid tag; distinct = distinct input.')

EXC = {'SystemError': SystemError, 'ArithmeticError': ZeroDivisionError, 'UnicodeError': UnicodeError, 'BufferError': BufferError, 'ValueError': ValueError, 'KeyError': KeyError, 'AssertionError': AssertionError, 'IndexError': IndexError,
       'RuntimeError': RuntimeError, 'TypeError': TypeError, 'MemoryError': MemoryError, 'RecursionError': RecursionError,
       'StopIteration': StopIteration, 'OSError': OSError}
import asyncio
BASE = {'KeyboardInterrupt': KeyboardInterrupt, 'SystemExit': SystemExit, 'GeneratorExit': GeneratorExit, 'CancelledError': asyncio.CancelledError}

def gen_exc(r, base_p=0.15):
    if r.random() < base_p:
        return 'b' + r.choice(sorted(BASE))
    return 'x' + r.choice(sorted(EXC))

def raise_code(code):
    cls = (EXC if code[0] == 'x' else BASE)[code[1:]]
    raise cls('scripted')

# ---------------------------------------------------------------- L1: firewall, MetaFirewall
def l1_firewall_cases(r, n):
    from supybot import log
    cases = []; lines = []
    class Obj(object): pass
    for _ in range(n):
        f = 'rv' if r.random() < 0.3 else gen_exc(r)
        h = '-' if r.random() < 0.4 else ('rh' if r.random() < 0.5 else gen_exc(r))
        def body(self, f=f):
            if f[0] == 'r': return f[1:]
            raise_code(f)
        handler = None
        if h != '-':
            def handler(self, h=h):
                if h[0] == 'r': return h[1:]
                raise_code(h)
        m = log.firewall(body, handler)
        try:
            out = 'ret:%s' % (m(Obj()),)
        except BaseException as e:
            out = 'raise:' + type(e).__name__
        only_exc = f[0] != 'b' and h[0] != 'b'
        ok = not (only_exc and out.startswith('raise'))
        cases.append(Case({'l1': 'firewall', 'body': f, 'handler': h}, impl=out, oracle_ok=ok,
                          oracle_msg='' if ok else 'log.firewall let %s escape although only Exceptions were raised (body %s, handler %s)' % (out, f, h),
                          kind='L1-firewall', tags=('fw-' + ('ret' if f[0] == 'r' else 'exc' if f[0] == 'x' else 'base'),
                                                    'fwh-' + ('none' if h == '-' else 'ret' if h[0] == 'r' else 'exc' if h[0] == 'x' else 'base'))))
        lines.append('fw\t%s\t%s' % (f, h))
    return cases, lines

ATTRS = ['__call__', 'inFilter', 'outFilter', 'die', 'foo', 'bar', 'name']
def l1_meta_cases(r, n):
    from supybot import log
    cases = []; lines = []
    def show(m): return ','.join('%s:%d' % (a, int(h)) for a, h in m) if m else '-'
    for _ in range(n):
        classes = []
        def mk(depth):
            nb = r.choice([0, 1, 1, 2]) if depth < 3 and classes else 0
            bases = tuple(dict.fromkeys(r.choice(classes) for _ in range(nb)))
            cd = {}
            fwmap = None
            if r.random() < 0.6:
                keys = r.sample(ATTRS, r.randint(0, 4))
                if r.random() < 0.7:
                    fwmap = dict((k, (None if r.random() < 0.5 else (lambda self, *a: 'handled'))) for k in keys)
                else:
                    fwmap = list(keys)
                cd['__firewalled__'] = fwmap
            for a in r.sample(ATTRS, r.randint(0, 4)):
                def fn(self, *a_):
                    raise ValueError('boom')
                cd[a] = fn
            return bases, cd, fwmap
        leaf = None
        for i in range(r.randint(1, 5)):
            bases, cd, fwmap = mk(i)
            orig = dict((k, v) for k, v in cd.items() if k != '__firewalled__')
            try:
                cls = log.MetaFirewall('K%d' % i, bases or (object,), dict(cd))
            except TypeError:
                continue        # inconsistent MRO
            classes.append(cls)
            leaf = (cls, bases, fwmap, orig)
        if leaf is None:
            continue
        cls, bases, fwmap, orig = leaf
        got = []
        for a in ATTRS:
            if a in orig and cls.__dict__[a] is not orig[a]:
                try:
                    res = cls.__dict__[a](cls.__new__(cls))
                except Exception:
                    res = 'RAISED'
                got.append((a, res == 'handled'))
        def own_map(c):
            fm = c.__dict__.get('__firewalled__')
            if fm is None: return None
            if isinstance(fm, dict): return [(k, v is not None) for k, v in fm.items()]
            return [(k, False) for k in fm]
        anc = []
        for b in bases:
            maps = [own_map(c) for c in reversed(b.__mro__)]
            anc.append('|'.join(show(m) for m in maps if m is not None) or '-')
        own = own_map(cls) or []
        # the model answers in dict order of the merged map; compare as sorted sets
        lines.append('meta\t%s\t%s\t%s' % (';'.join(anc) if anc else '~', show(own), ','.join(orig) if orig else '~'))
        cases.append(Case({'l1': 'meta', 'bases': anc, 'own': show(own), 'classdict': sorted(orig)},
                          impl=','.join(sorted('%s:%d' % (a, int(h)) for a, h in got)) or '-', kind='L1-meta',
                          tags=('meta-depth%d' % len(cls.__mro__), 'meta-wrapped%d' % min(len(got), 3))))
    return cases, lines

def canon_meta(o):
    return '-' if o == '-' else ','.join(sorted(o.split(',')))

# ---------------------------------------------------------------- L2: Irc.feedMsg / takeMsg stage flow
class L2(object):
    def __init__(self, b):
        irclib = b.irclib; self.b = b
        l2 = self
        self.log = []; self.script = None
        class VtState(irclib.IrcState):
            def doVtown(self, irc, msg):
                l2.hit('addMsg', l2.script['addMsg'])
            doVtnone = doVtown
        class VtIrc(irclib.Irc):
            def doVtown(self, msg):
                l2.hit('own', l2.script['own'])
        class VtCb(irclib.IrcCallback):
            def __init__(self, i): self.i = i
            def name(self): return 'VtCb%d' % self.i
            def inFilter(self, irc, msg):
                o = l2.script['inFilters'][self.i]
                l2.log.append('in%d' % self.i)
                if o == 'p': return msg
                if o == 'd': return None
                raise_code(o)
            def outFilter(self, irc, msg):
                o = l2.script['outFilters'][self.i]
                if o == 'p': return msg
                if o == 'd': return None
                raise_code(o)
            def __call__(self, irc, msg):
                l2.hit('call%d' % self.i, l2.script['calls'][self.i])
        self.VtCb = VtCb
        self.cbs = []
        self.irc = VtIrc('test', callbacks=self.cbs)
        self.irc.state = VtState()
        if self.irc in b.world.ircs: b.world.ircs.remove(self.irc)
    def hit(self, what, o):
        self.log.append(what)
        if o != '-':
            raise_code(o)
    def feed(self, script):
        self.script = script; self.log = []
        self.cbs[:] = [self.VtCb(i) for i in range(len(script['inFilters']))]
        im = self.b.ircmsgs
        if script['pre'] != '-':
            m = im.IrcMsg(command='001', args=())
        else:
            m = im.IrcMsg(prefix='srv', command='VTNONE' if script['own'] == 'n' else 'VTOWN', args=('a',))
        try:
            self.irc.feedMsg(m)
            out = 'ret'
        except BaseException as e:
            out = 'raise:' + type(e).__name__
        return (','.join(self.log) if self.log else '-') + ' ' + out
    def take(self, outf):
        """takeMsg with the outFilter chain `outf` (given in reversed(callbacks) order)"""
        n = len(outf)
        self.script = {'outFilters': dict((n - 1 - j, o) for j, o in enumerate(outf)), 'inFilters': ['p'] * n, 'calls': ['-'] * n,
                       'own': 'n', 'addMsg': '-', 'pre': '-'}
        self.cbs[:] = [self.VtCb(i) for i in range(n)]
        irc = self.irc
        irc.fastqueue.reset(); irc.queue.reset()
        irc.sendMsg(self.b.ircmsgs.IrcMsg(command='VTNONE', args=('x',)))
        try:
            m = irc.takeMsg()
            out = 'msg' if m is not None else 'None'
        except BaseException as e:
            out = 'raise:' + type(e).__name__
        return out

def gen_feed_script(r):
    n = r.randint(0, 4)
    def filt():
        k = r.random()
        return 'p' if k < 0.55 else 'd' if k < 0.7 else gen_exc(r)
    def call():
        return '-' if r.random() < 0.6 else gen_exc(r)
    pre = 'xIndexError' if r.random() < 0.05 else '-'
    k = r.random()
    own = 'n' if k < 0.3 else '-' if k < 0.7 else gen_exc(r)
    return {'pre': pre, 'own': own, 'addMsg': '-' if r.random() < 0.7 else gen_exc(r),
            'inFilters': [filt() for _ in range(n)], 'calls': [call() for _ in range(n)]}

def only_exceptions(script):
    vals = [script['pre'], script['own'], script['addMsg']] + script['inFilters'] + script['calls']
    return not any(v.startswith('b') for v in vals)

def l2_cases(b, r, n):
    l2 = L2(b)
    cases = []; lines = []
    for _ in range(n):
        s = gen_feed_script(r)
        out = l2.feed(s)
        ok = True; msg = ''
        if only_exceptions(s) and 'raise' in out:
            ok = False; msg = 'Irc.feedMsg let %s escape although handlers raised only Exceptions (%r)' % (out.split(' ')[1], s)
        # a raising callback must not prevent the later ones from running
        if ok and only_exceptions(s) and s['pre'] == '-' and s['own'] in ('n', '-') and 'd' not in s['inFilters']:
            want = ['call%d' % i for i in range(len(s['calls']))]
            got = [x for x in out.split(' ')[0].split(',') if x.startswith('call')]
            if got != want:
                ok = False; msg = 'callbacks run %r, expected every one of %r (%r)' % (got, want, s)
        t = set()
        for v in [s['own'], s['addMsg']] + s['inFilters'] + s['calls'] + [s['pre']]:
            if v.startswith('x'): t.add('raise-exception')
            if v.startswith('b'): t.add('raise-base')
            if v == 'd': t.add('inFilter-drop')
        if s['own'] == 'n': t.add('no-own-handler')
        cases.append(Case({'l2': 'feed', 'script': s}, impl=out, oracle_ok=ok, oracle_msg=msg, kind='L2-feed', tags=tuple(sorted(t))))
        lines.append('feed\t%s\t%s\t%s\t%s\t%s' % (s['pre'], s['own'], s['addMsg'], ','.join(s['inFilters']) or '~', ','.join(s['calls']) or '~'))
    # takeMsg / outFilter
    for _ in range(n // 3):
        k = r.randint(0, 4)
        outf = []
        for _ in range(k):
            x = r.random()
            outf.append('p' if x < 0.55 else 'd' if x < 0.65 else gen_exc(r, 0.1))
        out = l2.take(outf)
        ok = True; msg = ''
        if not any(o == 'd' or o.startswith('b') for o in outf) and out != 'msg':
            ok = False; msg = 'an outFilter chain that only passes or raises Exceptions (%r) made takeMsg return %s instead of the message' % (outf, out)
        if not any(o.startswith('b') for o in outf) and out.startswith('raise'):
            ok = False; msg = 'Irc.takeMsg let %s escape (%r)' % (out, outf)
        t = set()
        for o in outf:
            if o.startswith('x'): t.add('outFilter-raise')
            if o.startswith('b'): t.add('outFilter-base')
            if o == 'd': t.add('outFilter-drop')
        cases.append(Case({'l2': 'take', 'outFilters': outf}, impl=out, oracle_ok=ok, oracle_msg=msg, kind='L2-take', tags=tuple(sorted(t)) or ('outFilter-pass',)))
        lines.append('take\t%s' % (','.join(outf) or '~'))
    return cases, lines

# ---------------------------------------------------------------- L1c: the real plugin classes
def real_class_cases(b):
    """for every class of every importable bundled plugin that derives from IrcCallback: which of the hooks defined in its
    body did the metaclass really wrap — against the model's MetaFirewall on the maps found along the real MRO"""
    import warnings
    irclib = b.irclib; log = b.log
    cases = []; lines = []
    def show(m): return ','.join('%s:%d' % (a, int(h)) for a, h in m) if m else '-'
    def own_map(c):
        fm = c.__dict__.get('__firewalled__')
        if fm is None: return None
        if isinstance(fm, dict): return [(k, v is not None) for k, v in fm.items()]
        return [(k, False) for k in fm]
    def is_wrapped(fn, depth=0):
        # log.firewall returns its inner function `m` (renamed): recognisable by its code object; other metaclasses
        # (MetaSynchronized) may wrap it once more: look through closures
        code = getattr(fn, '__code__', None)
        if code is not None and code.co_filename.endswith('log.py') and 'errorHandler' in code.co_freevars:
            return True
        if depth < 3:
            for cell in (getattr(fn, '__closure__', None) or ()):
                try:
                    v = cell.cell_contents
                except ValueError:
                    continue
                if callable(v) and is_wrapped(v, depth + 1):
                    return True
        return False
    names = sorted(d for d in os.listdir('/repo/plugins') if os.path.isdir('/repo/plugins/' + d) and d[0].isupper())
    seen = set()
    for n in names:
        try:
            with warnings.catch_warnings():
                warnings.simplefilter('ignore')
                mod = b.plugin.loadPluginModule(n)
        except Exception:
            continue
        pm = getattr(mod, 'plugin', mod)
        for cname, cls in sorted(vars(pm).items()):
            if not (isinstance(cls, type) and issubclass(cls, irclib.IrcCallback)) or cls.__module__ != pm.__name__ or cls in seen:
                continue
            seen.add(cls)
            hooknames = set()
            for anc in cls.__mro__:
                m = own_map(anc)
                if m: hooknames |= set(k for k, _ in m)
            defined = sorted(a for a in cls.__dict__ if a in hooknames and callable(cls.__dict__[a]))
            if not defined: continue
            got = sorted(a for a in defined if is_wrapped(cls.__dict__[a]))
            anc = []
            for base in cls.__bases__:
                maps = [own_map(c) for c in reversed(base.__mro__)]
                anc.append('|'.join(show(m) for m in maps if m is not None) or '-')
            own = own_map(cls) or []
            ok = got == defined
            cases.append(Case({'l1': 'real-class', 'plugin': n, 'class': cname, 'hooks': defined},
                              impl=','.join(got) or '-', oracle_ok=ok, kind='L1-plugin-classes', tags=('plugin-hooks',),
                              oracle_msg='' if ok else 'plugin class %s.%s: hooks %r are not firewalled (defined %r)' % (n, cname, sorted(set(defined) - set(got)), defined)))
            lines.append('meta\t%s\t%s\t%s' % (';'.join(anc) if anc else '~', show(own), ','.join(defined)))
    return cases, lines

def handler_arity():
    """for every do<Command> handler of Irc, IrcState and the bundled plugins: the largest constant index of msg.args it reads
    (or the length it unpacks) — the hostile stream sends each command with fewer arguments than that"""
    import ast, warnings
    out = {}
    files = ['/repo/src/irclib.py'] + sorted('/repo/plugins/%s/plugin.py' % d for d in os.listdir('/repo/plugins') if os.path.isfile('/repo/plugins/%s/plugin.py' % d))
    for f in files:
        try:
            with warnings.catch_warnings():
                warnings.simplefilter('ignore')
                tree = ast.parse(open(f, encoding='utf-8').read())
        except (OSError, SyntaxError):
            continue
        for fn in ast.walk(tree):
            if isinstance(fn, ast.FunctionDef) and fn.name.startswith('do') and len(fn.name) > 2 and (fn.name[2].isupper() or fn.name[2].isdigit()):
                mx = -1
                for n in ast.walk(fn):
                    if isinstance(n, ast.Subscript) and isinstance(n.value, ast.Attribute) and n.value.attr == 'args' \
                            and isinstance(n.value.value, ast.Name) and n.value.value.id == 'msg':
                        sl = n.slice
                        if isinstance(sl, ast.Constant) and isinstance(sl.value, int) and sl.value >= 0:
                            mx = max(mx, sl.value)
                        elif isinstance(sl, ast.Slice) and isinstance(sl.lower, ast.Constant) and isinstance(sl.lower.value, int):
                            mx = max(mx, sl.lower.value)
                    if isinstance(n, ast.Assign) and isinstance(n.value, ast.Attribute) and n.value.attr == 'args' and isinstance(n.targets[0], ast.Tuple):
                        mx = max(mx, len(n.targets[0].elts) - 1)
                cmd = fn.name[2:].upper()
                out[cmd] = max(out.get(cmd, -1), mx)
    return out

_ARITY = None
def arity_line(r):
    """a line for a command that has a handler, with fewer / exactly as many / more arguments than the handler reads"""
    global _ARITY
    if _ARITY is None:
        _ARITY = sorted(handler_arity().items())
    cmd, mx = r.choice(_ARITY)
    n = r.choice([0, max(0, mx), max(0, mx), mx + 1, mx + 2, r.randint(0, mx + 2)])
    args = [r.choice(WORDS + FMT).replace(' ', '_') or '*' for _ in range(n)]
    pfx = r.choice(['', ':srv ', ':n!u@h ', ':test!u@h '])
    line = pfx + cmd
    for a in args[:-1]: line += ' ' + a.lstrip(':')
    if args: line += (' :' if r.random() < 0.5 else ' ') + args[-1]
    return line.encode('utf-8', 'replace')

# ---------------------------------------------------------------- L2b: ISUPPORT tokens vs the per-message channel test
def isup_cases(b, r, n):
    irc = b.irclib.Irc('test')
    if irc in b.world.ircs: b.world.ircs.remove(irc)
    im = b.ircmsgs
    cases = []; lines = []
    names = ['CHANTYPES', 'chantypes', 'ChanTypes', 'CHANNELLEN', 'channellen', 'PREFIX', 'STATUSMSG', 'NICKLEN', 'X']
    vals = ['', '#', '#&', '+', 'x', '5', '0', '-1', ' 7 ', '1_0', '٣', '50', '200', '=', 'a=b']
    xs = ['#chan', 'nick', '', '#a,b', '&x', '#' + 'a' * 60, ' #c', '#c d', '+#c', '#\x07', '!x', '#é', '#c\n', '5']
    for _ in range(n):
        toks = []
        for _ in range(r.randint(0, 4)):
            nm = r.choice(names)
            toks.append(nm if r.random() < 0.35 else nm + '=' + r.choice(vals))
        x = r.choice(xs)
        irc.state.supported = type(irc.state.supported)()
        irc.state.do005(irc, im.IrcMsg(command='005', args=('test',) + tuple(toks) + ('are supported',)))
        try:
            out = 'true' if irc.isChannel(x) else 'false'
        except Exception as e:
            out = 'raise:' + type(e).__name__
        ints = []
        for t in toks:
            try:
                ints.append(str(int(t.split('=', 1)[1])) if '=' in t else 'x')
            except ValueError:
                ints.append('x')
        ok = not out.startswith('raise')
        t_ = set()
        if any('=' not in t for t in toks): t_.add('isupport-valueless')
        if any(t.lower().startswith('channellen=') for t in toks): t_.add('isupport-channellen')
        if any(t.lower().startswith('chantypes') for t in toks): t_.add('isupport-chantypes')
        cases.append(Case({'isup': toks, 'x': x}, impl=out, oracle_ok=ok, kind='L2-isupport', tags=tuple(sorted(t_)) or ('isupport-none',),
                          oracle_msg='' if ok else 'after 005 %r, Irc.isChannel(%r) raises %s: _tagMsg then fails for every incoming message' % (toks, x, out[6:])))
        lines.append('isup\t%s\t%s\t%s' % (wire.enc_list(toks), wire.enc_list(ints), wire.enc(x)))
    return cases, lines

# ---------------------------------------------------------------- L3: hostile streams through the real driver
class Rig3(c11.Rig):
    def __init__(self):
        bot.full(plugins=('Owner', 'Misc', 'User', 'Admin', 'Config', 'Channel', 'Utilities', 'VtFaulty'),
                 plugin_dirs=[os.path.join(VERIF, 'harness', 'plugins')])
        c11.Rig.__init__(self)
        # production formats every log record (Logger._log runs utils.str.format on msg/args whatever
        # the handler levels): let the real path run — records of level WARNING and above are really formatted and written to the scratch log file
        import logging
        logging.disable(logging.NOTSET)
        self.conf.supybot.log.level.set('WARNING')    # set(), not setValue(): it is what moves the file handler's level
        from supybot import log as _log
        assert _log._handler.level <= logging.WARNING, 'the file handler would not format records'
        from VtFaulty.plugin import ctl
        self.ctl = ctl
        self.socks = []
        rig = self
        def get_socket(*a, **k):
            rig.sock = c11.FakeSock(); rig.socks.append(rig.sock); return rig.sock
        self.utils.net.getSocket = get_socket
        self.utils.net.ssl_wrap_socket = lambda conn, **kw: conn
        self.offset = 0.0
        class TimeShim(object):
            @staticmethod
            def time(): return time.time() + rig.offset
            @staticmethod
            def sleep(t): pass
        self.S.time = TimeShim
        self.drivers.time = TimeShim      # _applyStsPolicy

    def session(self, tls=False):
        """a fresh Irc + SocketDriver on network 'test'; tls: the network is configured with TLS and certificate
        verification (the TLS layer itself is stubbed: ssl_wrap_socket returns the fake socket), which is when the
        bot stores the STS policies a server advertises (ircdb.networks) and applies them at the next connection"""
        b = self.b
        self.conf.supybot.networks.test.ssl.setValue(bool(tls))
        self.conf.supybot.protocols.ssl.verifyCertificates.setValue(bool(tls))
        from supybot import ircdb
        net = ircdb.networks.getNetwork('test')
        net.stsPolicies.clear(); net.lastDisconnectTimes.clear()      # (what an earlier session stored is not this one's input)
        for i in list(b.world.ircs):
            if i is not b.irc: b.world.ircs.remove(i)
        S = self.S; drivers = self.drivers
        S.SocketDriver._instances[:] = []
        drivers._drivers.clear(); drivers._newDrivers.clear(); drivers._deadDrivers.clear()
        self.conf.supybot.drivers.poll._callbacks = []
        self.socks = []
        self.ctl.reset()
        irc = b.irclib.Irc('test')
        d = S.SocketDriver(irc)
        irc.driver = d
        drivers.run()
        st = type('St', (), {})()
        st.crash = None; st.name = d.name(); st.reconnects = 0
        orig_run = d.run; orig_rec = d.reconnect
        def run_wrapped():
            try:
                return orig_run()
            except BaseException as e:
                st.crash = type(e).__name__; raise
        def rec_wrapped(*a, **k):
            st.reconnects += 1
            return orig_rec(*a, **k)
        d.run = run_wrapped; d.reconnect = rec_wrapped
        return irc, d, st

def wire_lines(socks):
    out = []
    for s in socks:
        out += s.sent.split(b'\n')
    return out

def pongs_of(data):
    """the PONG lines of a byte string, tags stripped"""
    out = []
    for l in data.split(b'\n'):
        l = l.rstrip(b'\r')
        if l.startswith(b'@'):
            l = l.split(b' ', 1)[1] if b' ' in l else b''
        if l.startswith(b'PONG'):
            out.append(l)
    return out

NUMS = ['001', '002', '003', '004', '005', '353', '352', '354', '367', '324', '329', '332', '333', '366', '433', '437', '900', '903', '904', '908', '670', '691', '376', '422', '315', '311', '318', '341', '730']
CMDS = ['MODE', 'KICK', 'CAP', 'AUTHENTICATE', 'BATCH', 'JOIN', 'PART', 'QUIT', 'NICK', 'TOPIC', 'INVITE', 'ACCOUNT', 'CHGHOST', 'AWAY', 'TAGMSG', 'NOTICE', 'PRIVMSG', 'PONG', 'WALLOPS', 'FAIL', 'WARN', 'NOTE', 'SETNAME', 'ERROR']
FMT = ['%s', '%d', '%(x)s', '%%', '%r', '100%sure', '%n', '%*d', '%', '%q', '%L', '%i', '{}', '{0}', '%(', '50%']
TIMES = ['0001-01-01T00:00:00.000Z', '9999-12-31T23:59:59.999Z', '0001-01-01T00:00:00.000+23:59', '9999-12-31T23:59:59.999-23:59', '0000-01-01T00:00:00.000Z',
         '2020-02-30T00:00:00.000Z', '2020-01-01T24:00:00.000Z', '2020-12-31T23:59:60.999Z', '2020-01-01T00:00:00.1234567Z', '2020-01-01T00:00:00.000+00:00',
         '2020-01-01T00:00:00.000-00:00', '2020-01-01T00:00:00.000+24:00', '1969-12-31T23:59:59.999Z', '1-1-1T1:1:1.1Z', '99999-01-01T00:00:00.000Z',
         '2020-13-01T00:00:00.000Z', '2020-01-01T00:00:00.' + '9' * 40 + 'Z', '2011-10-19T16:40:51.620Z', '%s', '100%sure', '']
WORDS = ['test', '#c', '#c,#d', '*', 'LS', 'ACK', 'NAK', 'NEW', 'DEL', 'LIST', 'REQ', 'sasl', 'sasl=PLAIN,EXTERNAL', 'sts=port=x', 'sts=duration=1', 'sts',
         'multi-prefix', 'labeled-response', 'batch', 'echo-message', '+', '+o', '-o+v', '+b', '+l', '+k', '+ovbeIqahlk', 'nick', 'n!u@h', '@nick', '+nick',
         '=', '@', ':', '', '0', '-1', '99999999999999999999', 'é', '中', '\x01ACTION x\x01', '\x01', '+batchid', '-batchid', 'netsplit', 'chathistory', 'a' * 600,
         'PLAIN', 'EXTERNAL', 'SCRAM-SHA-256', '+', 'AAAA', '====', 'dGVzdA==', 'CHANTYPES=', 'PREFIX=', 'PREFIX=(ov', 'PREFIX=(ov)@+', 'CHANMODES=', 'CHANMODES=a,b',
         'NICKLEN=x', 'STATUSMSG=@+', 'TARGMAX=', 'test test test', 'H@', 'G*+', 'closing link', 'too fast']
ISUPPORT = ['CHANTYPES', 'CHANTYPES=', 'CHANTYPES=#', 'CHANNELLEN', 'CHANNELLEN=', 'CHANNELLEN=x', 'CHANNELLEN=0', 'PREFIX', 'PREFIX=', 'PREFIX=(ov', 'PREFIX=(ov)@', 'PREFIX=ov@+',
            'CHANMODES', 'CHANMODES=', 'CHANMODES=a', 'CHANMODES=,,,', 'STATUSMSG', 'STATUSMSG=', 'STATUSMSG=@+#', 'MODES', 'MODES=', 'MODES=x', 'NICKLEN', 'NICKLEN=', 'NICKLEN=-1',
            'CASEMAPPING', 'CASEMAPPING=', 'CASEMAPPING=weird', 'TARGMAX', 'TARGMAX=PRIVMSG', 'TARGMAX=:', 'MAXLIST', 'MAXLIST=b', 'CHANLIMIT', 'CHANLIMIT=#', 'NETWORK', 'NETWORK=',
            '-CHANTYPES', '-PREFIX', 'EXCEPTS', 'INVEX=', 'ELIST=', 'TOPICLEN=x', 'KICKLEN', 'AWAYLEN=', 'WHOX', 'MONITOR', 'BOT', 'BOT=', 'UTF8ONLY', '=', '=x', 'A=B=C']
USER_CMDS = ['help "\\ud800"', 'echo "\\ud800"', '"\\ud800"', 'help', 'list', 'echo hi', 'ping', 'echo "\\x00\\r\\nQUIT"', 'echo ' + 'é' * 300, 'version', 'whoami',
             'echo [echo [echo x', 'echo ]', 'help "\\udfff\\ud800"', 'config help "\\ud83d"']
STS_LINES = [b':srv CAP * LS :multi-prefix sts=port=6697 server-time', b':srv CAP * LS :sts=port=6697,duration=forever', b':srv CAP * NEW :sts=port=6697,duration=',
             b':srv CAP * LS :sts=port=6697,duration=100 sasl', b':srv CAP * LS * :sts=duration=100,port=6697', b':srv CAP * NEW :sts=port=6697,duration=-1',
             b':srv CAP * LS :sts=port=6697,duration=1e3', b':srv CAP * LS :sts=port=6697,duration', b':srv CAP * LS :sts=port=6697,duration=0',
             b':srv CAP * LS :sts=port=,duration=100', b':srv CAP * LS :sts=duration=100', b':srv CAP * LS :sts=port=6697,duration=100,preload']
TARGETED = ['ERROR :Closing link: (flood)', 'ERROR :Trying to reconnect too fast, wait', 'CAP * LS :sts=port=6697,duration=100 sasl', ':srv CAP * LS :sts',
            'CAP * LS * :multi-prefix', 'CAP * ACK :labeled-response batch echo-message', 'CAP * NAK :sasl', 'AUTHENTICATE +', ':srv 904 test :SASL failed',
            ':srv 433 * test :Nickname in use', ':srv 437 * test :unavailable', ':test!u@h NICK', ':test!u@h NICK :other', ':srv 001', ':srv 005 test', ':srv 353 test', ':srv 352',
            ':n!u@h JOIN', ':n!u@h PART', ':n!u@h KICK #c', ':n!u@h MODE #c +o', ':n!u@h MODE', 'BATCH', 'BATCH +', 'BATCH -nope', '@batch=nope :n!u@h PRIVMSG #c :x',
            ':n!u@h PRIVMSG', ':n!u@h PRIVMSG test', ':n!u@h PRIVMSG test :\x01', ':n!u@h PRIVMSG test :\x01PING', ':n!u@h PRIVMSG test :\x01VERSION\x01', ':n!u@h TOPIC #c', 'PONG']
ODD_PREFIXES = [':nick!@host', ':!@', ':user@host!nick', ':!', ':@', ':n!u@', ':!u@h', ':n!@', ':@h!n', ':a!b!c@d', ':a@b@c!d', ':n!u@h@i', ':!!@@', ':n!u', ':n@h',
                ':@!', ':n!@h!', ':é!ü@ö', ':n !u@h', ':*!*@*']
def nick_run(r):
    """a long run of nick-collision numerics (the bot must find a new nick each time), before and/or after 001"""
    n = r.choice([15, 16, 20, 30, 45])
    out = []
    if r.random() < 0.4: out.append(b':srv 001 test :Welcome')
    for _ in range(n):
        num = r.choice(['433', '433', '433', '432', '437'])
        out.append((':srv %s %s %s :Nickname is already in use.' % (num, r.choice(['*', 'test']), r.choice(['test', 'test_', 'x']))).encode())
    if r.random() < 0.4: out.append(b':srv 001 test :Welcome')
    return out

def gen_hostile_line(r):
    if r.random() < 0.25:
        return arity_line(r)
    if r.random() < 0.06:
        return (r.choice(ODD_PREFIXES) + ' ' + r.choice(['PRIVMSG test :hi', 'PING :p', 'JOIN #c', 'NICK x', 'QUIT', 'MODE #c +o test', '001 test :hi', 'PRIVMSG #c :@echo x'])).encode()
    k = r.randint(0, 14)
    pfx = r.choice(['', ':srv ', ':n!u@h ', ':test!u@h ', ':test ', ': ', ':\x00 ', ':n!u@h!x '])
    words = WORDS + FMT + FMT
    tag = r.choice(['', '', '', '@time=bad ', '@time=2011-10-19T16:40:51.620Z ', '@batch=x ', '@label=q ', '@a;b=c\\:d;+e ', '@ ', '@time ',
                    '@time=' + r.choice(TIMES) + ' ', '@time=' + r.choice(TIMES) + ' ', '@' + r.choice(FMT) + '=' + r.choice(FMT) + ' ', '@k=' + r.choice(FMT) + ';time=' + r.choice(TIMES) + ' '])
    if r.random() < 0.12:
        pfx = ':' + r.choice(FMT) + r.choice(['', '!u@h', '!%s@%d']) + ' '
    if k < 4:
        cmd = r.choice(NUMS)
        args = [r.choice(words) for _ in range(r.choice([0, 0, 1, 1, 2, 3, 4, 6]))]
    elif k < 8:
        cmd = r.choice(CMDS)
        args = [r.choice(words) for _ in range(r.choice([0, 0, 1, 2, 2, 3, 4]))]
        if r.random() < 0.1: cmd = r.choice(FMT)
    elif k < 9:
        return (tag + pfx + 'PRIVMSG test :' + r.choice(USER_CMDS)).encode('utf-8', 'surrogatepass')
    elif k < 10:
        return (tag + pfx + r.choice(['PING', 'PING :' + r.choice(['a', 'é', 'x y', 'a\rb', '']), 'ping lower', 'PiNg Mixed', 'PING a b'])).encode()
    elif k < 11:
        if r.random() < 0.4:
            return (':srv 005 test ' + ' '.join(r.choice(ISUPPORT) for _ in range(r.randint(1, 4))) + r.choice([' :are supported by this server', '', ' :'])).encode()
        if r.random() < 0.3:
            # malformed AND carrying format directives / boundary time tags
            return r.choice(['@time=' + r.choice(TIMES + FMT) + ' :srv NOTICE * :hello', '@' + r.choice(FMT), ':' + r.choice(FMT), '@time=' + r.choice(FMT),
                             '@tag=' + r.choice(FMT) + ' :' + r.choice(FMT), '@time=' + r.choice(TIMES) + ' :' + r.choice(FMT)]).encode()
        return r.choice(c11.HOSTILE_LINES + TARGETED).encode()
    elif k < 12:
        l = (tag + pfx + r.choice(CMDS + NUMS) + ' ' + ' '.join(r.choice(WORDS) for _ in range(r.randint(0, 3)))).encode()
        i = r.randrange(len(l) + 1)
        return l[:i] + r.choice(c11.BAD_BYTES) + l[i:]
    elif k < 13:
        return (pfx + r.choice(CMDS + NUMS) + ' ' + r.choice(['x', 'é', ':']) * r.choice([600, 3000, 10000])).encode()
    elif k < 14:
        return bytes(r.randrange(256) for _ in range(r.randint(0, 20))).replace(b'\n', b'')
    else:
        cmd = r.choice(CMDS + NUMS); args = [r.choice(WORDS)]
    line = tag + pfx + cmd
    for a in args[:-1]:
        line += ' ' + (a.replace(' ', '_') or '*')
    if args:
        line += ' :' + args[-1] if r.random() < 0.6 else ' ' + args[-1]
    return line.encode('utf-8')

FAULT_MODES = [None, None, ('call', 'xValueError'), ('inFilter', 'xKeyError'), ('outFilter', 'xRuntimeError'), ('inFilter', 'drop'),
               ('call', 'xAssertionError'), ('outFilter', 'xTypeError'), ('inFilter', 'xMemoryError'),
               # Exception subclasses that do not look like ordinary errors (logging them must not re-raise them)
               ('call', 'xMemoryError'), ('outFilter', 'xMemoryError'), ('call', 'xRecursionError'), ('inFilter', 'xRecursionError'), ('outFilter', 'xStopIteration'),
               ('call', 'xStopIteration'), ('inFilter', 'xSystemError'), ('call', 'xSystemError'), ('outFilter', 'xOSError'), ('call', 'xUnicodeError'),
               # not subclasses of Exception: Irc.feedMsg's bare excepts around inFilter / the callbacks must stop them
               ('call', 'bGeneratorExit'), ('inFilter', 'bCancelledError'), ('call', 'bCancelledError'), ('inFilter', 'bGeneratorExit')]

def few_chunks(r, data):
    """at most ~25 recv() chunks (the model dumps its whole in-buffer after every operation)"""
    if not data: return []
    k = r.choice([0, 1, 2, 5, 12, 25])
    cuts = sorted(set(r.randrange(1, len(data)) for _ in range(k))) if len(data) > 1 else []
    if r.random() < 0.15:
        cuts = list(range(c11.RECV_SIZE, len(data), c11.RECV_SIZE))     # a burst read in full buffers
    out = []; p = 0
    for c in cuts + [len(data)]:
        out.append(data[p:c]); p = c
    return c11.cap_chunks([x for x in out if x])

class Alarm(BaseException): pass
def _alarm(sig, frm): raise Alarm()

def guarded_run(rig, st, seconds=3):
    """one pass of the real drivers.run() under a watchdog: a loop that does not return is a failure, not a wait.
    The limit is on the CPU time of this process (a busy loop burns it; a loaded machine does not), with a generous
    wall-clock limit behind it (a blocking read is reported by the fake socket itself)."""
    import signal
    signal.signal(signal.SIGVTALRM, _alarm)
    signal.signal(signal.SIGALRM, _alarm)
    signal.setitimer(signal.ITIMER_VIRTUAL, seconds)
    signal.alarm(90)
    try:
        rig.drivers.run()
    except Alarm:
        st.crash = 'Alarm'
    except BaseException as e:
        # not even drivers.run() held it back: the main loop of the bot would end here
        st.crash = 'out of drivers.run(): ' + type(e).__name__
    finally:
        signal.setitimer(signal.ITIMER_VIRTUAL, 0)
        signal.alarm(0)
    if st.crash == 'Alarm':
        rig.hangs = getattr(rig, 'hangs', 0) + 1

def run_l3(rig, r, lines, fault, probe_key, eof=False, tls=False):
    irc, d, st = rig.session(tls)
    if fault:
        what, mode = fault
        setattr(rig.ctl, what, 'drop' if mode == 'drop' else (EXC if mode[0] == 'x' else BASE)[mode[1:]])
    for _ in range(2): guarded_run(rig, st)
    data = b''.join(l + b'\r\n' for l in lines)
    chunks = c11.cap_chunks([data]) if data and len(data) % c11.RECV_SIZE == 0 else few_chunks(r, data)
    ops = []
    for c in chunks:
        rig.sock.recvs.append(('d', c)); ops.append(('sr', ('d', c)))
        guarded_run(rig, st); ops.append(('loop',))
    if eof:
        # the server dies in the middle of a line: unterminated tail, then EOF; the reconnect is only scheduled
        for c in (b':n!u@h PRIVMSG #c :cut in the mid', b''):
            rig.sock.recvs.append(('d', c)); ops.append(('sr', ('d', c)))
            guarded_run(rig, st); ops.append(('loop',))
    for _ in range(2):
        guarded_run(rig, st); ops.append(('loop',))
    batch_pongs = [p for s in rig.socks for p in pongs_of(s.sent)]
    registered = st.name in rig.drivers._drivers and st.name not in rig.drivers._deadDrivers
    reconnects = st.reconnects
    # the property probe: let any scheduled reconnect happen, then PING
    answered = None; heard = None
    if registered:
        for _ in range(3):
            if d.connected: break
            rig.offset += 100000; guarded_run(rig, st)
        if d.connected:
            n0 = len(rig.sock.sent)
            # the probe arrives the way TCP may deliver it: in three pieces
            probe = b'PING :' + probe_key + b'\r\n'
            for piece in (probe[:2], probe[2:7], probe[7:]):
                rig.sock.recvs.append(('d', piece)); guarded_run(rig, st)
            for _ in range(2): guarded_run(rig, st)
            answered = (b'PONG :' + probe_key) in pongs_of(rig.sock.sent[n0:])
            # a channel message must still be processed as well (the per-message channel lookup is on every path)
            n1 = len(rig.sock.sent)
            rig.sock.recvs.append(('d', b':prober!u@h PRIVMSG #probe :@echo ' + probe_key + b'\r\n'))
            for _ in range(3): guarded_run(rig, st)
            time.sleep(0)      # (commands run in this thread unless threaded)
            # (any reply counts: a server-imposed 600-character nick legitimately leaves no room for the text)
            heard = b'#probe' in rig.sock.sent[n1:] or b'prober' in rig.sock.sent[n1:]
    obs = {'registered': registered, 'crash': st.crash, 'reconnects': reconnects, 'pongs': batch_pongs, 'answered': answered,
           'connected': d.connected, 'zombie': irc.zombie, 'heard': heard}
    if irc in rig.b.world.ircs: rig.b.world.ircs.remove(irc)
    return obs, ops

def l3_cases(rig, r, n):
    cases = []; mlines = []; spans = []
    for i in range(n):
        if getattr(rig, 'hangs', 0) >= 3:
            break                     # the loop hangs: three replays are enough, every further one costs the watchdog delay
        lines = [gen_hostile_line(r) for _ in range(r.randint(1, 12))]
        if r.random() < 0.05:
            k_ = r.randrange(len(lines) + 1)
            lines[k_:k_] = nick_run(r)
        lines = [l for l in lines if b'\n' not in l]
        fault = r.choice(FAULT_MODES)
        key = ('k%d' % r.randrange(10 ** 6)).encode()
        eof = r.random() < 0.2
        tls = r.random() < 0.15
        if tls and r.random() < 0.6:
            # an STS policy advertised on the verified connection, then (often) the link goes away
            lines.insert(r.randrange(len(lines) + 1), r.choice(STS_LINES))
            if r.random() < 0.7: lines.append(r.choice([b'ERROR :Closing link: (bye)', b'ERROR :Trying to reconnect too fast, wait']))
        obs, ops = run_l3(rig, r, lines, fault, key, eof, tls)
        ok = True; msg = ''
        if obs['crash'] in ('Hang', 'Alarm'):
            ok = False; msg = 'the driver loop does not return (%s) after %r' % ('recv() on a blocking socket with nothing to read' if obs['crash'] == 'Hang' else 'drivers.run() — feedMsg of the last line fed — used 3 s of CPU without returning', lines)
        elif obs['crash'] or not obs['registered']:
            ok = False; msg = 'driver removed from drivers._drivers (exception %s escaped run()) after %r' % (obs['crash'], lines)
        elif obs['answered'] is False:
            ok = False; msg = 'PING :%s fed after the batch was not answered (connected=%s, reconnects=%d, fault=%r) after %r' % (
                key.decode(), obs['connected'], obs['reconnects'], fault, lines)
        elif obs['answered'] is None:
            ok = False; msg = 'driver still registered but never reconnected within the scheduled delay after %r' % (lines,)
        elif obs['heard'] is False and not (fault and fault[1] == 'drop'):
            ok = False; msg = "'@echo %s' said in a channel after the batch got no reply (PING was answered; fault=%r) after %r" % (key.decode(), fault, lines)
        comparable = obs['reconnects'] == 0 and obs['registered'] and not (fault and fault[1] == 'drop' and fault[0] == 'outFilter') \
            and all(len(l) < 400 for l in lines)
        impl = 'registered=%d answered=%s' % (obs['registered'], obs['answered'])
        if comparable:
            impl += ' pongs=' + ','.join(p.hex() for p in obs['pongs'])
        t = set()
        if fault: t.add('fault-%s-%s' % (fault[0], 'drop' if fault[1] == 'drop' else 'raise'))
        if obs['reconnects']: t.add('reconnect')
        if obs['pongs']: t.add('batch-pong')
        for l in lines:
            try: l.decode('utf-8')
            except UnicodeDecodeError: t.add('invalid-utf8')
            if b'\\ud' in l: t.add('surrogate-command')
            if len(l) > 512: t.add('long-line')
            if l[:1] == b'@': t.add('tagged')
            if l.strip() in (b':', b'@tag', b'', b': :', b':a', b'@ x'): t.add('malformed')
        if eof: t.add('eof-then-reconnect')
        if tls: t.add('tls-verified')
        if tls and any(b'sts=' in l for l in lines): t.add('tls-verified-sts-policy')
        c = Case({'l3': True, 'lines': [l.hex() for l in lines], 'fault': fault, 'eof': eof, 'tls': tls, 'chunks': [o[1][1].hex() for o in ops if o[0] == 'sr']},
                 impl=impl, oracle_ok=ok, oracle_msg=msg, kind='L3-hostile', tags=tuple(sorted(t)))
        c.input['comparable'] = comparable
        cases.append(c)
        mlines.append('d\treset')
        spans.append((len(mlines), len(ops)))
        mlines += ['d\t' + c11.op_line(o) for o in ops]
    return cases, mlines, spans

def fill_l3(cases, mlines, spans, pre):
    outs = wire.run_driver(PROPERTY, pre + mlines)[len(pre):]
    for c, (a, n) in zip(cases, spans):
        seg = outs[a:a + n]
        bad = [o for o in seg if 'crash=' in o or ' x1' in o]
        w = b''.join(bytes.fromhex(o.split(' w=')[1].split(' ')[0]) for o in seg)
        model = 'registered=%d answered=True' % (0 if bad else 1)
        if c.input.get('comparable'):
            model += ' pongs=' + ','.join(p.hex() for p in pongs_of(w))
        c.model = model

def time_values(mlines):
    """the strptime parameter of the model: which of the time-tag values the generator draws does the
    real strptime accept"""
    good = [v for v in TIMES + FMT + ['2011-10-19T16:40:51.620Z', 'bad'] if c11.time_ok(v)]
    return ['d\ttimeset\t' + wire.enc_list(sorted(set(good)))]

# ---------------------------------------------------------------- run
def explore(rig, stream, n1, n2, n3):
    r = rng.make(stream)
    groups = []
    c, l = l1_firewall_cases(r, n1); groups.append((c, l, None))
    c, l = l1_meta_cases(r, n1 // 2); groups.append((c, l, canon_meta))
    c, l = l2_cases(rig.b, r, n2); groups.append((c, l, lambda o: 'None' if o == 'dropped' else o))
    c, l = isup_cases(rig.b, r, n2); groups.append((c, l, None))
    c, l = real_class_cases(rig.b); groups.append((c, l, lambda o: '-' if o == '-' else ','.join(sorted(x.split(':')[0] for x in o.split(',')))))
    c3, ml, spans = l3_cases(rig, r, n3)
    return groups, (c3, ml, spans)

def load_corpus():
    d = os.path.join(VERIF, 'corpus', PROPERTY)
    out = []
    if os.path.isdir(d):
        for f in sorted(os.listdir(d)):
            if f.endswith('.json'):
                out.append(json.load(open(os.path.join(d, f))))
    return out

def corpus_cases(rig):
    cases = []; ml = []; spans = []
    r = rng.make('c07-corpus')
    for j in load_corpus():
        lines = [bytes.fromhex(x) for x in j['lines']]
        fault = tuple(j['fault']) if j.get('fault') else None
        obs, ops = run_l3(rig, r, lines, fault, b'corpus', bool(j.get('eof')), bool(j.get('tls')))
        ok = obs['registered'] and not obs['crash'] and obs['answered'] is True
        c = Case({'l3': True, 'corpus': j.get('note', ''), 'lines': j['lines'], 'fault': j.get('fault'), 'eof': bool(j.get('eof')), 'tls': bool(j.get('tls'))},
                 impl='registered=%d answered=%s' % (obs['registered'], obs['answered']), oracle_ok=ok,
                 oracle_msg='' if ok else 'corpus case %r: registered=%s crash=%s answered=%s (None: never reconnected) connected=%s reconnects=%d' % (
                     j.get('note'), obs['registered'], obs['crash'], obs['answered'], obs['connected'], obs['reconnects']),
                 kind='corpus', tags=('corpus',))
        c.input['comparable'] = False
        cases.append(c); ml.append('d\treset'); spans.append((len(ml), len(ops))); ml += ['d\t' + c11.op_line(o) for o in ops]
    return cases, ml, spans

def run(ctx):
    import threading
    threading.excepthook = lambda args: None      # command threads of the live bot die noisily on hostile input
    build = leanbuild.ensure(PROPERTY, THEOREMS, thorough=ctx.thorough, extractors=['Firewall', 'IrcMsgs'])
    rig = Rig3()
    scale = 10 if ctx.thorough else 1
    cc, cml, cspans = corpus_cases(rig)
    groups, (c3, ml, spans) = explore(rig, 'c07', 3000 * scale, 2000 * scale, 1200 * scale)
    cases = list(cc)
    if build.driver_ok:
        for cs, ls, canon in groups:
            for c, o in zip(cs, wire.run_driver(PROPERTY, ls)):
                c.model = canon(o) if canon else o
        pre = time_values(ml)
        fill_l3(c3, ml, spans, pre)
        fill_l3(cc, cml, cspans, pre)
    for cs, _, _ in groups: cases += cs
    cases += c3
    def search(disagreements, broken):
        os.environ['VERIF_SEED'] = str(ctx.seed + 7919)
        try:
            g, (c3b, _, _) = explore(rig, 'c07-search', 4000, 4000, 1500)
        finally:
            os.environ['VERIF_SEED'] = str(ctx.seed)
        more = [c for cs, _, _ in g for c in cs] + c3b
        return [c for c in more if c.oracle_ok is False]
    return verdict.conclude(PROPERTY, ctx.tier, ctx.seed, build, cases, search=search, rule=RULE, trusted_base=TRUSTED,
                            assumptions=['handlers and plugins raise only subclasses of Exception (KeyboardInterrupt/SystemExit/GeneratorExit are outside the claim; their flow is modelled and compared but they do escape by design)',
                                         'no handler hangs; Python asserts enabled; log.testing is False',
                                         'L3 PONG comparison: lines shorter than 400 bytes, ASCII command names (str.upper of non-ASCII letters is outside the model)',
                                         'a scheduled reconnect succeeds (fake socket)'],
                            t0=ctx.t0)

def replay(ctx, path):
    d = json.load(open(path))
    c = d.get('case') or d.get('first_disagreement')
    if not c:
        print(json.dumps(d, indent=1)[:3000]); return 0
    print('recorded:', c.get('oracle_msg') or '(correspondence disagreement)', '\nimpl :', c.get('impl'), '\nmodel:', c.get('model'))
    inp = c['input']
    rig = Rig3()
    if inp.get('l3'):
        lines = [bytes.fromhex(x) for x in inp['lines']]
        fault = tuple(inp['fault']) if inp.get('fault') else None
        obs, _ = run_l3(rig, rng.make('replay'), lines, fault, b'replay', bool(inp.get('eof')), bool(inp.get('tls')))
        for l in lines: print('   line', l[:120])
        print('fault:', fault, '\nimplementation now:', {k: v for k, v in obs.items() if k != 'pongs'})
        return 0 if (obs['registered'] and obs['answered']) else 1
    if inp.get('l2') == 'feed':
        print('implementation now:', L2(rig.b).feed(inp['script']))
    else:
        print(json.dumps(inp))
    return 0
