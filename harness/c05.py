"""C05 — IRC message parse/serialise round-trips and parsing is total.
Correspondence of lean/LimnoriaModel/C05/Model.lean with src/ircmsgs.py, plus the direct
property oracle on the implementation (used for the failing-input search)."""
import datetime, json, os, time
from vlib import wire, rng, leanbuild, verdict, bot
from vlib.verdict import Case

PROPERTY = 'C05'
MANIFEST = {
 'level_text': 'Lean 4 theorems about a model of IrcMsg parsing/serialisation (tag escape round trip for all strings; parsing is total: message or Malformed for every line; re-serialising a parsed line returns the line; parse∘format round trip under an explicit decidable well-formedness predicate; and, composed with the C11 driver model, end to end: the bytes one driver writes for well-formed messages are delivered by another driver as exactly those messages for every schedule of partial sends and every fragmentation of the stream), kernel-checked, with the escape table regenerated from /repo on every run; the model is tied to src/ircmsgs.py by a differential correspondence run (tens of thousands of generated messages/lines per run) that also evaluates the property statement directly on the implementation to produce replays.',
 'level_note': 'Trusted: Lean kernel; axioms propext/Classical.choice/Quot.sound only; harness/extract.py; the correspondence harness (generator quality bounds what it sees); datetime.strptime is a parameter of the model instantiated with the real function. Modelled: IrcMsg.__init__ string branch, __str__, tag parse/format/escape, split_args. Also modelled: nick/user/host splitting (hostFields), the msg= copy constructor, pickling, drivers.parseMsg; the end-to-end theorems (EndToEnd.delivered_as_sent, bot_to_bot) rest on C11\'s driver model and theorems and are exercised by a stream that sends generated messages through two real SocketDriver instances over a fake socket. Not modelled: hashing/equality, the ircmsgs helper constructors (C06).',
 'technique': 'Lean 4 proof (induction over strings) + table extraction + differential correspondence',
 'design_ref': 'DESIGN.md §6 C05',
}
THEOREMS = ['C05.driverParseMsg_total', 'C05.driverParseMsg_str', 'C05.unescape_escape', 'C05.parse_format', 'C05.parse_total', 'C05.format_cached', 'C05.tagEscape_table_sep',
            'C05.hostFields_total', 'C05.hostFields_join', 'C05.copy_identity', 'C05.copy_fields', 'C05.pickle_roundtrip', 'C05.parseFull_total', 'C05.wf_of_wfd', 'C05.wfd_of_wf',
            'C05.tagEscape_table_ok',
            'EndToEnd.parse_lineLF', 'EndToEnd.delivered_as_sent', 'EndToEnd.bot_to_bot', 'EndToEnd.trailing_blank_lost']
TRUSTED = ['Lean 4.33.0 kernel; axioms ⊆ {propext, Classical.choice, Quot.sound}',
           'harness/extract.py (SERVER_TAG_ESCAPE table → Gen/IrcMsgs.lean)',
           'harness/c05.py generators + canonicalisation; hex line protocol',
           'parameter: datetime.strptime(v, fmt) returns or raises ValueError on str input (instantiated with the real function at run time)']
RULE = ('three seeded streams: (wf) messages built from fields satisfying the WF predicate of theorem parse_format, '
        'serialised by the real IrcMsg and re-parsed; (near) the same with exactly one WF clause broken; (raw) arbitrary '
        'lines from a grammar-aware mutator over a hostile alphabet; (esc) tag values; (e2e) lists of 1-8 generated messages queued on a real SocketDriver '
        'with short writes/EAGAINs, the written bytes cut into recv() results (1-byte, random, large) and read by a second real SocketDriver, compared with the Lean reader model and with the messages sent. A case is non-trivial when the model '
        'took at least one non-default branch (tags, prefix, trailing, time, malformed-by-cause); distinct = distinct input.')

FMT = '%Y-%m-%dT%H:%M:%S.%fZ'

# ---------------- implementation side ----------------
def enc_tags(d):
    return '-' if not d else ','.join(wire.enc(k) + ':' + wire.enc_opt(v) for k, v in d.items())

def impl_parse(ircmsgs, line):
    try:
        m = ircmsgs.IrcMsg(line)
    except ircmsgs.MalformedIrcMsg:
        return 'malformed', None
    except Exception as e:
        return 'crash\t' + type(e).__name__, None
    return ('ok\t%s\t%s\t%s\t%s\t%s\t%s\t%s\t%s' % (wire.enc(m.prefix), wire.enc(m.command), wire.enc_list(m.args),
                                        enc_tags(m.server_tags), wire.enc(str(m)),
                                        wire.enc(m.nick), wire.enc(m.user), wire.enc(m.host))), m

def time_ok(v):
    try:
        datetime.datetime.strptime(v, FMT)
        return True
    except ValueError:
        return False

def resolve_model_parsemsg(out):
    f = out.split('\t')
    if f[0] != 'ok':
        return out
    need = wire.dec_opt(f[-1])
    if need is not None and not time_ok(need):
        return 'none'
    return '\t'.join(f[:-1])

def resolve_model_parse(out):
    """model output -> expected canonical output, instantiating the strptime parameter"""
    f = out.split('\t')
    if f[0] != 'ok':
        return out
    need = wire.dec_opt(f[-1])
    if need is not None and not time_ok(need):
        return 'malformed'
    return '\t'.join(f[:-1])

# ---------------- generators ----------------
MID = 'abcXYZ019_-#&+!.*'
def gen_middle(r):
    n = r.randint(1, 8)
    s = ''.join(r.choice(MID + 'é中😀:;=@\\') for _ in range(n))
    while s[:1] == ':' :
        s = s[1:] or 'x'
    return s

def gen_trailing(r):
    k = r.randint(0, 6)
    if k == 0: return ''
    if k == 1: return ':' + rng.text(r, 6, MID)
    if k == 2: return rng.text(r, 10, MID + ' ') + ' :x y'
    s = ''.join(r.choice(MID + ' :;=@\\\t\x01\x02\x03é中😀 ') for _ in range(r.randint(0, 20)))
    return s

def gen_tagval(r):
    k = r.randint(0, 5)
    if k == 0: return None
    if k == 1: return ''
    return ''.join(r.choice('ab; \\\r\n:=sn r\\é中') for _ in range(r.randint(1, 8)))

EDGE_TIMES = ['0001-01-01T00:00:00.000Z', '9999-12-31T23:59:59.999Z', '0001-01-01T00:00:00.000+23:59',
              '9999-12-31T23:59:59.999-23:59', '0000-01-01T00:00:00.000Z', '10000-01-01T00:00:00.000Z',
              '1970-01-01T00:00:00.000000Z', '1969-12-31T23:59:60.999Z', '2016-12-31T23:59:60.000Z',
              '2020-02-30T00:00:00.000Z', '2020-13-01T00:00:00.000Z', '2020-01-01T24:00:00.000Z',
              '2020-01-01T00:00:00.0000000Z', '2020-01-01T00:00:00.Z', '2020-01-01T00:00:00Z',
              '2020-01-01T00:00:00.000+00:00', '2020-01-01T00:00:00.000z', '2020-01-01t00:00:00.000Z',
              ' 2020-01-01T00:00:00.000Z', '2020-01-01T00:00:00.000Z ', '٢٠٢٠-01-01T00:00:00.000Z',
              '2020-01-01T00:00:00.000+2359', '2020-01-01T00:00:00.000-00:00:01', '%s', '%(x)s', '100%sure']
def gen_time(r):
    if r.random() < 0.35:
        return r.choice(EDGE_TIMES)
    k = r.randint(0, 3)
    if k == 0: return '2020-02-%02dT%02d:%02d:%02d.%03dZ' % (r.randint(1, 31), r.randint(0, 24), r.randint(0, 60), r.randint(0, 61), r.randint(0, 999))
    if k == 1: return '2011-10-19T16:40:51.620Z'
    if k == 2: return rng.text(r, 8, '0123456789-T:.Z')
    return '1-1-1T1:1:1.1Z'

def gen_wf(r):
    pfx = r.choice(['', '', 'nick!user@host', 'irc.example.org', gen_middle(r), 'n!u@' + gen_middle(r)])
    cmd = r.choice(['PRIVMSG', 'NOTICE', '001', 'CAP', 'x', gen_middle(r).lstrip('@') or 'Q'])
    if cmd[:1] in '@:':
        cmd = 'C' + cmd
    nargs = r.choice([0, 0, 1, 1, 2, 3, 5, 15, 16, 17, 18, 25, 40])
    args = [gen_middle(r) for _ in range(max(0, nargs - 1))]
    if nargs:
        t = gen_trailing(r)
        while t[-1:] in ('\r', '\n') or any(c in t for c in '\r\n\0'):
            t = t.replace('\r', '').replace('\n', '').replace('\0', '')
        args.append(t)
    tags = {}
    for _ in range(r.choice([0, 0, 1, 2, 4])):
        k = ''.join(r.choice('abc+/.-time') for _ in range(r.randint(1, 5)))
        if k == 'time':
            continue
        tags[k] = gen_tagval(r)
    if r.random() < 0.15:
        tags['time'] = gen_time(r)
    return pfx, cmd, args, tags

def break_one(r, pfx, cmd, args, tags):
    """violate exactly one WF clause"""
    k = r.randint(0, 7)
    args = list(args); tags = dict(tags)
    if k == 0: cmd = ''
    elif k == 1: cmd = cmd + ' x'
    elif k == 2: cmd = ':' + cmd
    elif k == 3: pfx = (pfx or 'p') + ' q'
    elif k == 4 and len(args) >= 2: args[0] = ''
    elif k == 5 and len(args) >= 2: args[0] = 'a b'
    elif k == 6 and len(args) >= 2: args[0] = ':' + args[0]
    elif k == 7: tags[r.choice(['a b', 'a;b', 'a=b', ''])] = gen_tagval(r)
    else: cmd = '@' + cmd
    return pfx, cmd, args, tags

RAW_ALPHA = ['@', ':', ' ', ' ', ' :', '%s', 'time=0001-01-01T00:00:00.000+23:59', 'time=9999-12-31T23:59:59.999-23:59', ';', '=', '\\', '\r', '\n', '\r\n', 'time', 'time=', 'a', 'B', '1', 'é', '中', '\\s', '\\:', '\0', '\t', 'PRIVMSG', '#c', 'n!u@h', '2011-10-19T16:40:51.620Z']
def gen_raw(r):
    k = r.randint(0, 9)
    if k < 6:
        return ''.join(r.choice(RAW_ALPHA) for _ in range(r.randint(0, 12)))
    if k < 8:
        # mutate a well-formed line
        pfx, cmd, args, tags = gen_wf(r)
        line = ''
        if tags:
            line += '@' + ';'.join(k2 if v is None else k2 + '=' + v for k2, v in tags.items()) + ' '
        if pfx: line += ':' + pfx + ' '
        line += cmd
        for a in args[:-1]: line += ' ' + a
        if args: line += ' :' + args[-1]
        line = list(line)
        for _ in range(r.randint(0, 3)):
            if line:
                i = r.randrange(len(line))
                op = r.randint(0, 2)
                if op == 0: del line[i]
                elif op == 1: line.insert(i, r.choice(RAW_ALPHA))
                else: line[i] = r.choice(RAW_ALPHA)
        return ''.join(line) + r.choice(['', '\r\n', '\n', '\r', '\r\n\r\n'])
    return rng.text(r, 30, nasty=0.5)

def gen_long(r):
    k = r.randint(0, 2)
    word = lambda n: ''.join(r.choice('abcdefghij é') for _ in range(n))
    if k == 0:
        return ':n!u@h PRIVMSG #c :' + word(r.randint(480, 1500))
    if k == 1:
        return '@' + ';'.join('k%d=%s' % (i, word(r.randint(20, 200)).replace(' ', '\\s')) for i in range(r.randint(3, 12))) + ' :n!u@h PRIVMSG #c :' + word(r.randint(1, 300))
    return '@a=' + 'x' * r.randint(400, 700) + ' TAGMSG #c'

def valid_unicode(s):
    try:
        s.encode('utf-8'); return True
    except UnicodeEncodeError:
        return False

# ---------------- one run ----------------
def explore(ctx, n_wf, n_near, n_raw, n_esc, corpus_lines=()):
    supybot = bot.light()
    from supybot import ircmsgs
    # drivers.parseMsg logs the lines it skips: let supybot's real Logger format them (into the scratch
    # logs/ directory, never to stdout) instead of short-circuiting logging altogether
    import logging
    from supybot import conf as _conf, log as _log
    try:
        _conf.supybot.log.stdout.setValue(False)
        _conf.supybot.log.level.setValue('DEBUG')
    except Exception:
        pass
    logging.disable(logging.NOTSET)
    r = rng.make('c05')
    cases = []
    lines = []      # driver input lines
    pend = []       # (case, how to fill model output)

    def add_parse(line, kind, tags_extra=()):
        if not line or not valid_unicode(line):
            return
        out, m = impl_parse(ircmsgs, line)
        ok = True; msg = ''
        if out.startswith('crash'):
            ok = False; msg = 'parsing %r raised %s (neither a message nor MalformedIrcMsg)' % (line, out.split('\t')[1])
        elif m is not None:
            want = line if line.endswith('\n') else line + '\n'
            if str(m) != want:
                ok = False; msg = 're-serialising parsed line %r gives %r' % (line, str(m))
        c = Case({'op': 'parse', 'line': line}, impl=out, oracle_ok=ok, oracle_msg=msg, kind=kind)
        t = list(tags_extra)
        if out == 'malformed': t.append('malformed')
        if m is not None:
            if m.server_tags: t.append('tags')
            if m.prefix: t.append('prefix')
            if 'time' in m.server_tags: t.append('time')
            if ' :' in line: t.append('trailing')
            if len(m.args) == 0: t.append('noargs')
        c.tags = tuple(t)
        cases.append(c)
        if len(seen) < 200:
            seen.append((line, out))
        lines.append('parse\t' + wire.enc(line))
        pend.append((c, resolve_model_parse))

    def add_parsemsg(line, kind):
        """drivers.parseMsg: strip, skip blank/malformed, never raise, never truncate"""
        if not valid_unicode(line):
            return
        from supybot import drivers
        try:
            m = drivers.parseMsg(line)
        except Exception as e:
            out = 'crash\t' + type(e).__name__; m = None
            ok = False; msg = 'drivers.parseMsg(%r) raised %s' % (line[:200], type(e).__name__)
        else:
            ok = True; msg = ''
            if m is None:
                out = 'none'
            else:
                out = ('ok\t%s\t%s\t%s\t%s\t%s\t%s\t%s\t%s' % (wire.enc(m.prefix), wire.enc(m.command), wire.enc_list(m.args),
                       enc_tags(m.server_tags), wire.enc(str(m)), wire.enc(m.nick), wire.enc(m.user), wire.enc(m.host)))
                st = line.strip()
                want = st if st.endswith('\n') else st + '\n'
                if str(m) != want:
                    ok = False; msg = 'parseMsg delivered a message whose text %r... is not the stripped line (len %d vs %d)' % (str(m)[:80], len(str(m)), len(want))
        c = Case({'op': 'parsemsg', 'line': line}, impl=out, oracle_ok=ok, oracle_msg=msg, kind=kind,
                 tags=('parsemsg-' + out.split('\t')[0],) + (('long',) if len(line) > 510 else ()))
        cases.append(c); lines.append('parsemsg\t' + wire.enc(line)); pend.append((c, resolve_model_parsemsg))

    def poke_tags():
        """what irclib.Irc.takeMsg (label) and callbacks._makeReply (+draft/reply) do: add a tag IN PLACE to
        a message built earlier.  Messages are values: this must not influence any other message."""
        if kept:
            m = r.choice(kept)
            try:
                m.server_tags[r.choice(['label', '+draft/reply', 'x'])] = r.choice(['v', 'abc-123'])
            except Exception:
                pass

    kept = []
    seen = []
    def add_fields(pfx, cmd, args, tags, kind):
        if not all(valid_unicode(x) for x in [pfx, cmd] + list(args) + list(tags) + [v for v in tags.values() if v]):
            return
        try:
            if not tags and r.random() < 0.5:
                # the server_tags keyword left at its default
                m = ircmsgs.IrcMsg(prefix=pfx, command=cmd, args=tuple(args))
            else:
                m = ircmsgs.IrcMsg(prefix=pfx, command=cmd, args=tuple(args), server_tags=dict(tags))
            s = str(m)
        except (AssertionError, ircmsgs.MalformedIrcMsg):
            return
        except Exception as e:
            cases.append(Case({'op': 'construct', 'prefix': pfx, 'command': cmd, 'args': list(args), 'tags': tags},
                              oracle_ok=False, kind=kind, tags=('construct-crash',),
                              oracle_msg='IrcMsg(prefix=%r, command=%r, ...) raised %s: %s' % (pfx, cmd, type(e).__name__, e)))
            return
        if len(kept) < 50:
            kept.append(m)
        else:
            kept[r.randrange(50)] = m
        c = Case({'op': 'format', 'prefix': pfx, 'command': cmd, 'args': list(args), 'tags': tags},
                 impl=wire.enc(s), kind=kind, tags=('format', 'nargs%d' % min(len(args), 3)) + (('ftags',) if tags else ()))
        # property oracle (theorem parse_format on the implementation): whenever the Lean predicate
        # WFD holds of these fields (asked from the driver below) and the real strptime accepts the
        # time tag, parse(str(m)) must have the same fields (empty tag value == no value)
        out, m2 = impl_parse(ircmsgs, s)
        canon = {k: (v if v else None) for k, v in tags.items()}
        good = (m2 is not None and m2.prefix == pfx and m2.command == cmd and list(m2.args) == list(args)
                and dict(m2.server_tags) == canon and list(m2.server_tags) == list(canon))
        rt_msg = '' if good else 'parse(str(m)) != m: serialised %r parsed back as %s' % (s, out)
        cases.append(c)
        lines.append('format\t%s\t%s\t%s\t%s' % (wire.enc(pfx), wire.enc(cmd), wire.enc_list(args), enc_tags(tags)))
        pend.append((c, lambda o: o))
        w = Case({'op': 'wf', 'prefix': pfx, 'command': cmd, 'args': list(args), 'tags': tags}, impl=None, kind=kind)
        def fill_wf(o, w=w, good=good, rt_msg=rt_msg, kind=kind):
            f = o.split('\t')
            need = wire.dec_opt(f[1]) if len(f) > 1 else None
            lean_wf = (f[0] == '1') and (need is None or time_ok(need))
            if lean_wf:
                w.oracle_ok = good; w.oracle_msg = rt_msg
                w.tags = ('WF',)
            else:
                w.tags = ('notWF',) + (('gen-says-wf',) if kind == 'wf' else ())
            return None
        cases.append(w)
        lines.append('wf\t%s\t%s\t%s\t%s' % (wire.enc(pfx), wire.enc(cmd), wire.enc_list(args), enc_tags(tags)))
        pend.append((w, fill_wf))
        add_parse(s, kind + '-reparse')
        # copy constructor and pickling of this message
        if r.random() < 0.3:
            p2 = r.choice(['', '', 'other!u@h']); c2 = r.choice(['', '', 'NOTICE']); a2 = r.choice([[], [], ['#x', 'new text']])
            extra_kw = {}
            if r.random() < 0.4:
                # the server_tags= keyword is documented as ignored when msg= is given
                extra_kw['server_tags'] = {r.choice(['x', 'label', 'time']): r.choice(['v', None, '2011-10-19T16:40:51.620Z'])}
            if r.random() < 0.5:
                str(m)      # a source whose serialisation is already cached
            try:
                mc = ircmsgs.IrcMsg(msg=m, prefix=p2, command=c2, args=tuple(a2), **extra_kw)
                outc = '%s\t%s\t%s\t%s\t%s' % (wire.enc(mc.prefix), wire.enc(mc.command), wire.enc_list(mc.args), enc_tags(mc.server_tags), wire.enc(str(mc)))
                okc = True; msgc = ''
                # a copy is a message like any other: what it serialises to parses back to ITS fields
                # (whenever the Lean predicate WFD holds of them; decided below from the driver's answer)
                outp, mp = impl_parse(ircmsgs, str(mc))
                canonc = {k: (v if v else None) for k, v in mc.server_tags.items()}
                selfok = (mp is not None and mp.prefix == mc.prefix and mp.command == mc.command and
                          tuple(mp.args) == tuple(mc.args) and dict(mp.server_tags) == canonc)
            except AssertionError:
                outc = None; okc = None; msgc = ''; selfok = None
            except Exception as e:
                outc = 'crash\t' + type(e).__name__; okc = False; msgc = 'IrcMsg(msg=...) raised %s' % type(e).__name__; selfok = None
            cc = Case({'op': 'copy', 'prefix': pfx, 'command': cmd, 'args': list(args), 'tags': tags, 'over': [p2, c2, a2]},
                      impl=outc, oracle_ok=okc, oracle_msg=msgc, kind=kind, tags=('copy',))
            if outc is not None and selfok is not None and okc:
                # hypothesis of the self-consistency oracle: WFD of the copy's own fields
                sc = Case({'op': 'copy-selfparse', 'prefix': mc.prefix, 'command': mc.command, 'args': list(mc.args), 'tags': dict(mc.server_tags), 'over_kw': sorted(extra_kw)}, kind=kind, tags=('copy-self',))
                def fill_self(o, sc=sc, selfok=selfok, line=str(mc)):
                    f = o.split('\t')
                    need = wire.dec_opt(f[1]) if len(f) > 1 else None
                    if f[0] == '1' and (need is None or time_ok(need)):
                        sc.oracle_ok = bool(selfok)
                        sc.oracle_msg = '' if selfok else 'a copy-constructed message serialises to %r, which does not parse back to the copy\'s own fields (stale cached string?)' % line
                    return None
                if all(valid_unicode(x) for x in [mc.prefix, mc.command] + list(mc.args)):
                    cases.append(sc)
                    lines.append('wf\t%s\t%s\t%s\t%s' % (wire.enc(mc.prefix), wire.enc(mc.command), wire.enc_list(mc.args), enc_tags(mc.server_tags)))
                    pend.append((sc, fill_self))
            if outc is None:
                continue_copy = False
            else:
                continue_copy = True
            if continue_copy:
              cases.append(cc)
              lines.append('copy\t%s\t%s\t%s\t%s\t%s\t%s\t%s' % (wire.enc(pfx), wire.enc(cmd), wire.enc_list(args), enc_tags(tags), wire.enc(p2), wire.enc(c2), wire.enc_list(a2)))
              pend.append((cc, lambda o: o))
        if r.random() < 0.1:
            import pickle, copy as _copy
            try:
                m3 = pickle.loads(pickle.dumps(m)); m4 = _copy.copy(m)
                canon2 = {k: (v if v else None) for k, v in tags.items()}
                same = all((x.prefix, x.command, tuple(x.args), dict(x.server_tags)) == (pfx, cmd, tuple(args), canon2) for x in (m3, m4))
            except ircmsgs.MalformedIrcMsg:
                same = None
            except Exception as e:
                same = False
            pc = Case({'op': 'pickle', 'prefix': pfx, 'command': cmd, 'args': list(args), 'tags': tags}, kind=kind, tags=('pickle',))
            def fill_pickle(o, pc=pc, same=same):
                f = o.split('\t')
                need = wire.dec_opt(f[1]) if len(f) > 1 else None
                if f[0] == '1' and (need is None or time_ok(need)):
                    pc.oracle_ok = bool(same)
                    pc.oracle_msg = '' if same else 'pickle/copy of a well-formed message does not give back its fields'
                return None
            cases.append(pc)
            lines.append('wf\t%s\t%s\t%s\t%s' % (wire.enc(pfx), wire.enc(cmd), wire.enc_list(args), enc_tags(tags)))
            pend.append((pc, fill_pickle))

    def add_esc(v):
        if not valid_unicode(v):
            return
        e = ircmsgs.escape_server_tag_value(v)
        u = ircmsgs.unescape_server_tag_value(e)
        c = Case({'op': 'esc', 'value': v}, impl=wire.enc(e), oracle_ok=(u == v), kind='esc', tags=('esc',),
                 oracle_msg='' if u == v else 'unescape(escape(%r)) = %r' % (v, u))
        cases.append(c); lines.append('esc\t' + wire.enc(v)); pend.append((c, lambda o: o))
        u2 = ircmsgs.unescape_server_tag_value(v)
        c = Case({'op': 'unesc', 'value': v}, impl=wire.enc(u2), kind='esc', tags=('unesc',))
        cases.append(c); lines.append('unesc\t' + wire.enc(v)); pend.append((c, lambda o: o))

    def add_hostmask(p):
        if not valid_unicode(p):
            return
        from supybot import ircutils
        try:
            isu = ircutils.isUserHostmask(p)
            if isu:
                n, u, h = ircutils.splitHostmask(p)
            else:
                n = u = h = p
            out = '%d\t%s\t%s\t%s' % (1 if isu else 0, wire.enc(n), wire.enc(u), wire.enc(h)); ok = True; msg = ''
            if isu and (n + '!' + u + '@' + h != p or '@' in h or '!' in u):
                ok = False; msg = 'splitHostmask(%r) = %r does not re-join to the hostmask' % (p, (n, u, h))
        except AssertionError:
            return
        except Exception as e:
            out = '%d\tcrash' % 1; ok = False; msg = 'splitHostmask(%r) raised %s although isUserHostmask accepts it' % (p, type(e).__name__)
        c = Case({'op': 'hostmask', 'prefix': p}, impl=out, oracle_ok=ok, oracle_msg=msg, kind='hostmask',
                 tags=('hostmask-user' if out.startswith('1') else 'hostmask-other',))
        cases.append(c); lines.append('hostmask\t' + wire.enc(p)); pend.append((c, lambda o: o))

    for l in corpus_lines:
        add_parse(l, 'corpus')
    for _ in range(n_esc):
        if r.random() < 0.5:
            hm = ''.join(r.choice(['a', 'b', '!', '!', '@', '@', '.', 'é', ' ', '\t', '\n', '\x1f', '\xa0', '中']) for _ in range(r.randint(0, 9)))
        else:
            part = lambda: ''.join(r.choice(['a', 'b', 'Z', '!', '@', '.', 'é', '中', '-']) for _ in range(r.randint(0, 4)))
            hm = part() + '!' + part() + '@' + part()
            if r.random() < 0.15:
                i = r.randrange(len(hm)); hm = hm[:i] + r.choice([' ', '\t', '\n', '\xa0', '\x1f']) + hm[i:]
        add_hostmask(hm + r.choice(['', '', '', '\n', '\n\n']))
    for i in range(n_wf):
        add_fields(*gen_wf(r), kind='wf')
        if i % 7 == 3:
            poke_tags()
    for _ in range(n_near):
        add_fields(*break_one(r, *gen_wf(r)), kind='near')
    for i in range(n_raw):
        l = gen_raw(r)
        add_parse(l, 'raw')
        if i % 3 == 0:
            pad = r.choice(['', ' ', '\r\n', ' \t', '\x1f', '\xa0 '])
            if i % 12 == 0:   # long lines: IRCv3 tags / text may exceed 512
                l = gen_long(r)
            add_parsemsg(pad + l + r.choice(['', '\r\n', ' ', '\n ']), 'parsemsg')
        if i % 11 == 5:
            try:
                pm = ircmsgs.IrcMsg(l)
                kept.append(pm); poke_tags()
            except Exception:
                pass
        if i % 4 == 1 and l.startswith('@'):
            # directed aliasing probe: parse a tagged line, change the message's tags in place (what
            # takeMsg's label / _makeReply's +draft/reply do to copies that share the dict), then parse
            # the same line and another line with the same tag string again
            try:
                out0, pm = impl_parse(ircmsgs, l)
                if pm is not None:
                    cp = ircmsgs.IrcMsg(msg=pm)
                    for mm in (pm, cp):
                        try:
                            mm.server_tags['label'] = 'poked'
                            mm.server_tags.pop(next(iter(mm.server_tags)), None)
                        except Exception:
                            pass
                    out1, _ = impl_parse(ircmsgs, l)
                    same = (out1 == out0)
                    cases.append(Case({'op': 'reparse-after-poke', 'line': l}, oracle_ok=same, kind='determinism', tags=('reparse-after-poke',),
                                      oracle_msg='' if same else 'line %r parsed to %s, then after the first message\'s tags were changed in place the same line parsed to %s (messages share state)' % (l, out0, out1)))
                    sp = l.find(' ')
                    if sp > 0:
                        l2 = l[:sp] + ' :n!u@h PING :x'
                        o2a, m2a = impl_parse(ircmsgs, l2)
                        if m2a is not None:
                            try:
                                m2a.server_tags['x-poked'] = '1'
                            except Exception:
                                pass
                            o2b, _ = impl_parse(ircmsgs, l2)
                            same = (o2a == o2b)
                            cases.append(Case({'op': 'reparse-after-poke', 'line': l2}, oracle_ok=same, kind='determinism', tags=('reparse-after-poke',),
                                              oracle_msg='' if same else 'line %r parsed to %s, then after an in-place tag change on that message to %s' % (l2, o2a, o2b)))
            except Exception:
                pass
        if i % 5 == 2 and seen:
            # a message is determined by its line: parsing an earlier line again, after other messages
            # were built / tagged in place, must give the same message
            l0, out0 = r.choice(seen)
            out1, _ = impl_parse(ircmsgs, l0)
            same = (out1 == out0)
            cases.append(Case({'op': 'reparse-later', 'line': l0}, oracle_ok=same, kind='determinism', tags=('reparse-later',),
                              oracle_msg='' if same else 'the same line %r parsed to two different messages at different times (state leaks between messages): first %s then %s' % (l0, out0, out1)))

    for _ in range(n_esc):
        add_esc(''.join(r.choice('ab; \\\r\n:=snr\\\\é中') for _ in range(r.randint(0, 10))))
    return cases, lines, pend

def fill_model(cases_lines_pend):
    cases, lines, pend = cases_lines_pend
    outs = wire.run_driver(PROPERTY, lines)
    for (c, f), o in zip(pend, outs):
        c.model = f(o)
        if o == 'bad-op':
            c.model = 'bad-op'
    return cases

# ---------------- end to end: real writer driver -> bytes -> real reader driver ----------------
def _e2e_fields(r):
    """message fields for the end-to-end stream: mostly the wf generator; sometimes exactly what the theorems'
    hypothesis `Tight` excludes (blank at an end of the line) or a broken WF clause"""
    pfx, cmd, args, tags = gen_wf(r)
    tags = {k: v for k, v in tags.items() if k != 'time'}
    k = r.random()
    if k < 0.12 and args:
        args[-1] = args[-1] + r.choice([' ', '\t', '\xa0', '\x1f', ' ', '  '])
    elif k < 0.18 and not tags and not pfx:
        cmd = r.choice(['\x1f', '\xa0', '\t', '　']) + cmd
    elif k < 0.24:
        pfx, cmd, args, tags = break_one(r, pfx, cmd, args, tags)
        tags = {k2: v for k2, v in tags.items() if k2 != 'time'}
    elif k < 0.28 and not args:
        cmd = cmd + r.choice(['\x1f', '\xa0', '\x1c'])
    elif k < 0.38:
        # lines longer than 512 bytes (IRCv3 tags and many servers make them legal; str(IrcMsg) never cuts)
        long = ''.join(r.choice('abcXYZ 09:é中😀') for _ in range(r.randint(300, 1500))).rstrip()
        if r.random() < 0.5 or not args:
            args = list(args) + [long + 'x']
        else:
            tags = dict(tags); tags['+long'] = long + 'x'
    return pfx, cmd, args, tags

def _enc_fields(pfx, cmd, args, tags):
    return wire.enc(pfx) + '+' + wire.enc(cmd) + '+' + wire.enc_list(list(args)) + '+' + enc_tags(tags)

def e2e_child(n_hist, wfd):
    """runs in a forked child (its own bootstrap: the full bot of harness/c11.py's rig); writes one JSON
    object per history to wfd"""
    import c11
    rig = c11.Rig()
    import logging
    logging.disable(logging.NOTSET)
    ircmsgs = rig.ircmsgs
    r = rng.make('e2e')
    out = os.fdopen(wfd, 'w')
    for h in range(n_hist):
        sent = []
        for _ in range(r.choice([1, 1, 2, 3, 5, 8])):
            pfx, cmd, args, tags = _e2e_fields(r)
            if cmd.upper() == 'ERROR' or not all(valid_unicode(x) for x in [pfx, cmd] + list(args) + list(tags) + [v for v in tags.values() if v]):
                continue
            try:
                m = ircmsgs.IrcMsg(prefix=pfx, command=cmd, args=tuple(args), server_tags=dict(tags))
                s = str(m)
            except (AssertionError, ircmsgs.MalformedIrcMsg):
                continue
            except Exception as e:
                continue            # judged by the construct stream
            sent.append((pfx, cmd, list(args), tags, s))
        rec = {'msgs': [[a, b, c, d] for a, b, c, d, _ in sent]}
        # writing side: queue the strings, a schedule of short writes / EAGAINs, loop until drained
        ops = [('q', s) for *_, s in sent]
        for _ in range(r.randint(0, 6)):
            ops.append(('ss', r.choice([('s', r.randint(0, 40)), ('s', r.randint(0, 5)), ('e', 11)])))
        ops += [('loop',)] * 12
        crash = None
        try:
            _, obs = c11.run_history(rig, ops)
            wire_b = obs['sent']
            if obs['left'] or obs['outbuffer']:
                crash = 'writer-not-drained'
            if obs['crash']:
                crash = 'writer:' + obs['crash']
        except BaseException as e:
            wire_b = b''; crash = 'writer:' + type(e).__name__
        rec['wire'] = wire_b.hex()
        # reading side: any fragmentation (1-byte runs, cuts inside characters and between CR and LF)
        cuts = []; tot = 0
        mode = r.choice(['rand', 'rand', 'one', 'big', 'whole'])
        while tot < len(wire_b):
            n = {'rand': r.randint(1, 30), 'one': 1, 'big': r.randint(200, 1000), 'whole': 1000}[mode]
            cuts.append(n - 1); tot += n
        rec['cuts'] = cuts
        fed = []; inbuf = b''
        if crash is None:
            try:
                d, stub, fs, st = rig.fresh()
                pos = 0
                for c in cuts:
                    chunk = wire_b[pos:pos + c + 1]; pos += c + 1
                    if not chunk:
                        break
                    rig.sock.recvs.append(('d', chunk))
                    rig.drivers.run()
                    if st.crash:
                        crash = 'reader:' + st.crash
                        break
                fed = [_enc_fields(m.prefix, m.command, m.args, m.server_tags) for m in stub.fed]
                inbuf = d.inbuffer if isinstance(d.inbuffer, bytes) else str(d.inbuffer).encode('utf-8', 'replace')
            except BaseException as e:
                crash = 'reader:' + type(e).__name__
        rec['fed'] = fed; rec['inbuf'] = inbuf.hex(); rec['crash'] = crash
        rec['tight'] = all('\n' not in s[:-2] and (s[:-2] + '\r').strip() == s[:-2] for *_, s in sent)
        out.write(json.dumps(rec) + '\n')
    out.close()

def e2e_run(n_hist):
    """fork the child, collect its histories"""
    rfd, wfd = os.pipe()
    pid = os.fork()
    if pid == 0:
        code = 0
        try:
            os.close(rfd)
            e2e_child(n_hist, wfd)
        except BaseException as e:
            import traceback; traceback.print_exc(); code = 3
        os._exit(code)
    os.close(wfd)
    data = os.fdopen(rfd).read()
    _, status = os.waitpid(pid, 0)
    recs = [json.loads(l) for l in data.split('\n') if l.strip()]
    return recs, status

def e2e_cases(recs, driver_ok):
    lines = []
    for rec in recs:
        msgs = '|'.join(_enc_fields(*m) for m in rec['msgs']) or '-'
        cuts = ','.join(str(c) for c in rec['cuts']) or '-'
        lines.append('e2e\t%s\t%s' % (msgs, cuts))
    outs = wire.run_driver(PROPERTY, lines) if (driver_ok and lines) else [None] * len(lines)
    cases = []
    for rec, o in zip(recs, outs):
        impl = '%s\t%s\t%s\t%s\t%s' % ('1' if rec['tight'] else '0', rec['wire'], '|'.join(rec['fed']) or '-', rec['inbuf'], rec['crash'] or '-')
        model = None; hyp = None
        if o is not None:
            f = o.split('\t')
            if len(f) == 6:
                hyp = (f[0] == '1' and f[1] == '1')
                model = '\t'.join(f[1:])
            else:
                model = o
        # the theorem's statement on the implementation: under WF (Lean predicate, asked from the driver) and
        # Tight (evaluated here on the real str(msg)) the reader has delivered exactly the fields that were sent
        # (empty tag value == no value), in order, nothing left in the buffer, no exception
        want = [_enc_fields(p, c, a, {k: (v if v else None) for k, v in t.items()}) for p, c, a, t in rec['msgs']]
        ok = True; msg = ''
        if rec['crash'] and rec['crash'] != 'writer-not-drained':
            ok = False; msg = 'an exception escaped the driver (%s) while %d well-formed messages went from one driver to another' % (rec['crash'], len(want))
        elif hyp and rec['tight'] and not rec['crash']:
            if rec['fed'] != want or rec['inbuf']:
                ok = False
                msg = ('messages written by one driver and read by another (cuts %s) were not delivered as sent: sent %r, delivered %d message(s) %r, in-buffer %s'
                       % (rec['cuts'][:12], rec['msgs'], len(rec['fed']), rec['fed'][:3], rec['inbuf'][:40]))
        tags = ['e2e', 'e2e-n%d' % min(len(rec['msgs']), 4)]
        if hyp: tags.append('e2e-hyp')
        if not rec['tight']: tags.append('e2e-not-tight')
        if any(t for *_, t in rec['msgs']): tags.append('e2e-tags')
        if rec['cuts'] and max(rec['cuts']) == 0: tags.append('e2e-bytewise')
        cases.append(Case({'op': 'e2e', 'msgs': rec['msgs'], 'cuts': rec['cuts']}, impl=impl, model=model if o is not None else None,
                          oracle_ok=ok, oracle_msg=msg, kind='e2e', tags=tuple(tags)))
    return cases

def load_corpus():
    p = os.path.join(os.path.dirname(os.path.dirname(os.path.abspath(__file__))), 'corpus', 'C05', 'lines.json')
    try:
        return json.load(open(p))
    except OSError:
        return []

def run(ctx):
    build = leanbuild.ensure(PROPERTY, THEOREMS, thorough=ctx.thorough, extractors=['IrcMsgs'],
                             extra_modules=['LimnoriaModel.C05.EndToEndProps'])
    scale = 40 if ctx.thorough else 1
    # the end-to-end stream runs in a forked child with its own bootstrap (before this process imports supybot)
    e2e_recs, e2e_status = e2e_run(4000 if ctx.thorough else 250)
    clp = explore(ctx, 6000 * scale, 3000 * scale, 12000 * scale, 3000 * scale, load_corpus())
    if build.driver_ok:
        cases = fill_model(clp)
    else:
        cases = clp[0]
    cases = cases + e2e_cases(e2e_recs, build.driver_ok)
    if e2e_status != 0 or not e2e_recs:
        cases.append(Case({'op': 'e2e-stream'}, oracle_ok=False, kind='e2e', tags=('e2e-crash',),
                          oracle_msg='the end-to-end stream (real writer driver -> bytes -> real reader driver) did not run to its end (child status %s, %d histories)' % (e2e_status, len(e2e_recs))))
    def search(disagreements, broken):
        # more raw + wf cases on the implementation only, property oracle decides
        import random
        os.environ['VERIF_SEED'] = str(ctx.seed + 7919)
        more, _, _ = explore(ctx, 20000, 5000, 40000, 10000, [d.input.get('line', '') for d in disagreements if d.input.get('op') == 'parse'])
        os.environ['VERIF_SEED'] = str(ctx.seed)
        return [c for c in more if c.oracle_ok is False]
    return verdict.conclude(PROPERTY, ctx.tier, ctx.seed, build, cases, search=search, rule=RULE,
                            trusted_base=TRUSTED,
                            assumptions=['Python asserts enabled', 'inputs are valid Unicode scalar sequences (no lone surrogates)'],
                            t0=ctx.t0)

def replay_e2e(c):
    import c11
    rig = c11.Rig()
    ircmsgs = rig.ircmsgs
    sent = [ircmsgs.IrcMsg(prefix=p, command=cm, args=tuple(a), server_tags=dict(t)) for p, cm, a, t in c['input']['msgs']]
    _, obs = c11.run_history(rig, [('q', str(m)) for m in sent] + [('loop',)] * 3)
    wire_b = obs['sent']
    print('written:', wire_b)
    d, stub, fs, st = rig.fresh()
    pos = 0
    for n in c['input']['cuts']:
        chunk = wire_b[pos:pos + n + 1]; pos += n + 1
        if chunk:
            rig.sock.recvs.append(('d', chunk)); rig.drivers.run()
    print('delivered now:')
    for m in stub.fed:
        print('  ', repr((m.prefix, m.command, m.args, m.server_tags)))
    print('sent:')
    for m in sent:
        print('  ', repr((m.prefix, m.command, m.args, m.server_tags)))
    print('in-buffer:', d.inbuffer, 'crash:', st.crash)
    return 0

def replay(ctx, path):
    d = json.load(open(path))
    c = d.get('case') or d.get('first_disagreement')
    print(json.dumps(c, indent=1))
    if c and c['input'].get('op') == 'e2e':
        return replay_e2e(c)
    bot.light()
    from supybot import ircmsgs
    if c and c['input'].get('op') == 'parse':
        print('implementation now:', impl_parse(ircmsgs, c['input']['line'])[0])
    return 0
