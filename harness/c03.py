"""C03 — capability decisions follow the documented precedence for every database state.
Correspondence of lean/LimnoriaModel/C03/Model.lean with src/ircdb.py (real UsersDictionary /
ChannelsDictionary / conf objects, world.testing == False) on seeded operation sequences, the
capability string algebra on hostile strings, and the property statement evaluated directly
on the implementation: an independent decision list written from the statement, opposite
answers for a capability and its anti-capability, case-insensitivity, cache independence."""
import contextlib, io, itertools, json, os, sys
from vlib import wire, rng, leanbuild, verdict, bot
from vlib.verdict import Case

PROPERTY = 'C03'
MANIFEST = {
 'level_text': 'Lean 4 theorems about a model of ircdb\'s capability layer, kernel-checked: for every database (users with capability sets, ignore/secure flags, hostmask patterns and logins; channels; global default sets and flag), hostmask, valid capability string and flag combination, checkCapability returns `holds(positive form) xor isAnti` where `holds` is the documented precedence list (refinement of the code model to a decision list); hence a capability and its anti-capability get opposite answers, an owner holds everything, unrecognised users depend on defaults only, answers are invariant under IRC case folding of capability and channel names; the string algebra laws (invert is an involution, flips isAnti, commutes with toLower; fromChannel∘makeChannel); set consistency is preserved by every edit; the --allow-default-owner guard always leaves -owner in the default set. The rfc1459 table, defaultOff and the shipped default capabilities are re-extracted from /repo on every run; the model is tied to src/ircdb.py by a differential run (tens of thousands of decisions per run on real objects) that also evaluates the property statement on the implementation.',
 'level_note': 'Trusted: Lean kernel; axioms propext/Classical.choice/Quot.sound only; harness/extractors/ircdb_caps.py; the correspondence harness (its generators bound what it sees). Modelled and proved: capability string algebra, CapabilitySet/UserCapabilitySet add/remove/contains/check, IrcUser._checkCapability, IrcChannel._checkCapability, _checkCapabilityForUnknownUser, checkCapability with the three ignore* flags and the secure re-check, checkCapabilities, DefaultCapabilities.setValue guard, a cache-free user lookup (glob matcher, logins with timeout). Not modelled here: the stateful lookup with caches and duplicate removal (C04 proves it answers what the cache-free lookup answers); world.testing short-cut; str.lower() outside ASCII in the differential run (channel and user names in generated scenarios are ASCII; the case-insensitivity of channel names is also proved with str.lower as a parameter under the contract LowerOK, which a side run tests against CPython on the BMP together with the clause itself on the implementation; hostmask matching is ASCII-only case-insensitive and modelled for all of Unicode); capability strings whose positive form starts with "-" or is itself a channel capability are outside the theorems\' domain (counter-examples proved) but inside the correspondence.',
 'technique': 'Lean 4 proof (refinement to a decision list, invariants under edits) + table extraction + differential correspondence',
 'design_ref': 'DESIGN.md §6 C03',
}
THEOREMS = ['C03.check_eq_spec', 'C03.anti_symm', 'C03.owner_all', 'C03.case_insens', 'C03.add_case_insens',
            'C03.unknown_only_defaults', 'C03.recognise_needs_hostmask', 'C03.invert_invert', 'C03.isAnti_invert', 'C03.invertCapability_toLower',
            'C03.fromChannel_makeChannel', 'C03.edits_preserve_wf', 'C03.initial_strong', 'C03.history_wf',
            'C03.setDefaults_keeps_antiowner', 'C03.unknown_never_owner', 'C03.touch_invisible',
            'C03.touch_invisible_check', 'C03.checkCapabilities_spec', 'C03.anti_symm_needs_valid',
            # "the answer never depends on lookup caches": proved on the stateful model of C04
            'C04.checkCapability_cache_free', 'C04.cache_transparent',
            # obligations on the extracted tables (decide against what /repo says now)
            'C03.rfc1459_table_ok', 'C03.chanTypes_no_dash', 'C03.chanTypes_no_o', 'C03.channel_default_ok',
            'C03.channel_default_strong', 'C03.default_caps_valid', 'C03.isCapability_eq_splitWs',
            'C03.chanKeyP_case_insens', 'C03.asciiLower_ok',
            # channels.conf written and read back
            'C03.add_keeps_decided', 'C03.reload_decides_defaultOff', 'C03.reload_default']
TRUSTED = ['Lean 4.33.0 kernel; axioms ⊆ {propext, Classical.choice, Quot.sound}',
           'harness/extractors/ircdb_caps.py (rfc1459 table, chantypes/channellen, defaultOff, shipped default capabilities → Gen/IrcDbCaps.lean)',
           'harness/c03.py generators, canonicalisation and the independent decision-list oracle; hex line protocol',
           'Python asserts enabled; world.testing == False',
           'str.lower() and re.I agree with the ASCII model on generated channel/user names']
RULE = ('scenario = `initial`, 0–6 users (capabilities from a vocabulary of plain/anti/channel/case variants/owner/op, ignore and secure '
        'flags, hostmask patterns, logins with times around the timeout), 0–3 channels, default/registered sets, default flag; then '
        'capability edits and write/read-back of the channel database (ChannelsDictionary.flush + reload, followed by queries for #chan,op/halfop/voice/protected) interleaved with queries; every query is asked for the capability, its inverse, a case variant and again '
        'with cold caches, under one of the 8 flag combinations. A scenario is non-trivial when at least one decision left the '
        'global-default branch; distinct = distinct operation list. Streams: wf (all strings inside the theorems\' domain, all '
        'oracles on), hostile (arbitrary strings, correspondence + totality only), algebra (string functions), lower-contract and '
        'channel-key (oracle only: channel names with cased letters outside ASCII, every spelling with the same str.lower() must reach '
        'the same record through getChannel, setChannel, checkCapability and flush + reload; whole BMP in thorough), exhaustive (small universe, thorough).')

# =====================================================================================
# independent oracle, written from the property statement (no ircdb code used)
# =====================================================================================
_UP = 'ABCDEFGHIJKLMNOPQRSTUVWXYZ[]\\~'
_LO = 'abcdefghijklmnopqrstuvwxyz{}|^'
_FOLD = str.maketrans(_UP, _LO)
def o_lower(s):
    return s.translate(_FOLD)

def o_blank(s):
    return any(c.isspace() for c in s)

def o_is_channel(s):
    return bool(s) and s[0] in '#&!' and len(s) <= 50 and ',' not in s and '\x07' not in s and not o_blank(s)

def o_split(cap):
    """(channel or None, rest)"""
    if ',' in cap:
        a, b = cap.split(',', 1)
        if o_is_channel(a) and b and not o_blank(b):
            return a, b
    return None, cap

def o_valid(cap):
    """the domain of the theorems: [#channel,][-]base, base a single word not starting with '-'
    and not itself of the form #channel,word"""
    ch, rest = o_split(cap)
    base = rest[1:] if rest.startswith('-') else rest
    if not base or o_blank(base) or base[0] == '-':
        return False
    return o_split(base)[0] is None

def o_parse(cap):
    ch, rest = o_split(cap)
    anti = rest.startswith('-')
    base = rest[1:] if anti else rest
    key = (o_lower(ch) + ',' if ch is not None else '') + o_lower(base)
    return anti, ch, o_lower(base), key

def o_invert(cap):
    ch, rest = o_split(cap)
    rest = rest[1:] if rest.startswith('-') else '-' + rest
    return rest if ch is None else ch + ',' + rest

def o_glob(p, h):
    def fold(c):
        return o_lower(c)
    if not p:
        return not h
    if p[0] == '*':
        return any(o_glob(p[1:], h[i:]) for i in range(len(h) + 1))
    if not h:
        return False
    if p[0] == '?' or fold(p[0]) == fold(h[0]):
        return o_glob(p[1:], h[1:])
    return False

class OSet(dict):
    """explicit settings: key -> True (capability) / False (anti-capability)"""
    def add(self, cap):
        anti, ch, base, key = o_parse(cap)
        self[key] = not anti
    def remove(self, cap):
        anti, ch, base, key = o_parse(cap)
        if self.get(key) == (not anti):
            del self[key]

class OUser(object):
    def __init__(self, uid, name, ignore, secure):
        self.id = uid; self.name = name; self.ignore = ignore; self.secure = secure
        self.caps = OSet(); self.masks = []; self.auth = []

class OChan(object):
    def __init__(self):
        self.allow = True
        self.caps = OSet({'op': False, 'halfop': False, 'voice': False, 'protected': False})

class OState(object):
    def __init__(self):
        self.users = {}; self.chans = {}; self.defaults = OSet(); self.registered = OSet()
        self.flag = True; self.timeout = 0; self.now = 0
    def chan(self, ch):
        return self.chans.get(o_lower(ch.lower())) or OChan()
    def chan_mut(self, ch):
        return self.chans.setdefault(o_lower(ch.lower()), OChan())
    def recognise(self, h):
        """(user or None, tag)"""
        if '!' in h and '@' in h:
            hits = []
            for u in self.users.values():
                live = any(m == h and not (self.timeout and t + self.timeout < self.now) for (t, m) in u.auth)
                if live or any(o_glob(p, h) for p in u.masks):
                    hits.append(u)
            if len(hits) != 1:
                return None, ('dup' if hits else 'unknown')
            u = hits[0]
        else:
            # a sender whose prefix is not nick!user@host (a server, a service, a bare nick) is nobody —
            # in particular not the account whose NAME equals the prefix
            return None, 'not-a-user-prefix'
        if u.secure and not any(o_glob(p, h) for p in u.masks):
            return None, 'secure-reject'
        return u, 'known'

def o_holds(st, u, cap, fl):
    """does the sender hold the POSITIVE form of `cap`?  The documented precedence list."""
    io, ic, ida = fl
    anti, ch, base, key = o_parse(cap)
    if u is not None:
        owner = u.caps.get('owner') is True
        asks_owner = (ch is None and base == 'owner')
        if asks_owner or owner or key in u.caps:
            if u.ignore:
                return False, 'ignored'
            if asks_owner:
                return owner, 'owner-query'
            if owner and not io:
                return True, 'owner'
            if key in u.caps:
                return u.caps[key], 'user-explicit'
        if ch is not None:
            if not ic and not u.ignore and (owner or u.caps.get(o_lower(ch) + ',op') is True):
                return True, 'chanop'
            c = st.chan(ch)
            if base in c.caps:
                return c.caps[base], 'chan-explicit'
            return (not ida) and c.allow, 'chan-default'
        if key in st.defaults:
            return st.defaults[key], 'global-explicit'
        if key in st.registered:
            return st.registered[key], 'registered'
        return (not ida) and st.flag, 'flag'
    if ch is not None:
        c = st.chan(ch)
        if base in c.caps:
            return c.caps[base], 'u-chan-explicit'
        return (not ida) and c.allow, 'u-chan-default'
    if key in st.defaults:
        return st.defaults[key], 'u-global-explicit'
    return (not ida) and st.flag, 'u-flag'

def o_decide(st, h, cap, fl):
    u, how = st.recognise(h)
    holds, tag = o_holds(st, u, cap, fl)
    anti = o_parse(cap)[0]
    return (holds != anti), (how, tag)

# =====================================================================================
# implementation side
# =====================================================================================
class Clock(object):
    def __init__(self):
        self.now = 0
    def time(self):
        return float(self.now)

class Impl(object):
    def __init__(self):
        self.b = bot.full(plugins=())
        self.ircdb = self.b.ircdb
        self.conf = self.b.conf
        self.clock = Clock()
        self.ircdb.time = self.clock          # ircdb calls time.time() only
        assert self.b.world.testing is False
        self.cap_default = list(self.conf.supybot.capabilities._default)
        self.reg_default = list(self.conf.supybot.capabilities.registeredUsers._default)
        self.flag_default = self.conf.supybot.capabilities.default._default
        self.U = None; self.C = None

    def _quiet(self, f, *a):
        with contextlib.redirect_stdout(io.StringIO()):
            return f(*a)

    def err(self, e):
        if isinstance(e, AssertionError): return 'err\tassertion'
        if isinstance(e, KeyError): return 'err\tkey'
        if isinstance(e, ValueError): return 'err\tvalue'
        return 'err\t' + type(e).__name__

    def hosts_snapshot(self):
        return {i: sorted(str(x) for x in u.hostmasks) for i, u in self.U.users.items()}

    def dump(self):
        def S(xs):
            xs = sorted(wire.enc(str(x)) for x in xs)
            return ','.join(xs) if xs else '-'
        us = sorted('%d:%s:%d:%d:%s:%s' % (i, wire.enc(u.name), u.ignore, u.secure, S(u.capabilities), S(u.hostmasks))
                    for i, u in self.U.users.items())
        default = self.ircdb.IrcChannel()
        cs = sorted('%s:%d:%s' % (wire.enc(k), c.defaultAllow, S(c.capabilities)) for (k, (_orig, c)) in self.C.channels.data.items()
                    if not (c.defaultAllow == default.defaultAllow and set(c.capabilities) == set(default.capabilities)))
        cf = self.conf.supybot.capabilities
        return 'U=%s|C=%s|D=%s|R=%s|F=%d' % (';'.join(us), ';'.join(cs), S(cf()), S(cf.registeredUsers()), cf.default())

    def run(self, op):
        """execute one op; returns (output line, [extra sync ops to send to the model after it])"""
        ircdb = self.ircdb; conf = self.conf
        k = op[0]
        try:
            if k == 'initial':
                self.U = ircdb.UsersDictionary(); self.C = ircdb.ChannelsDictionary()
                self._quiet(conf.supybot.capabilities.setValue, list(self.cap_default))
                conf.supybot.capabilities.registeredUsers.setValue(list(self.reg_default))
                conf.supybot.capabilities.default.setValue(self.flag_default)
                conf.supybot.databases.users.timeoutIdentification.setValue(0)
                self.clock.now = 0
                return 'ok', []
            if k == 'defaults':
                self._quiet(conf.supybot.capabilities.setValue, list(op[1])); return 'ok', []
            if k == 'registered':
                conf.supybot.capabilities.registeredUsers.setValue(list(op[1])); return 'ok', []
            if k == 'flag':
                conf.supybot.capabilities.default.setValue(bool(op[1])); return 'ok', []
            if k == 'timeout':
                conf.supybot.databases.users.timeoutIdentification.setValue(op[1]); return 'ok', []
            if k == 'now':
                self.clock.now = op[1]; return 'ok', []
            if k == 'newuser':
                u = ircdb.IrcUser(ignore=bool(op[3]), name=op[2], secure=bool(op[4])); u.id = op[1]
                self.U.users[op[1]] = u
                self.U._hostmaskCache.clear(); self.U._nameCache.clear()      # a database state is being built
                return 'ok', []
            if k == 'uflags':
                u = self.U.users[op[1]]; u.ignore = bool(op[2]); u.secure = bool(op[3]); return 'ok', []
            if k == 'ucap_add':
                self.U.users[op[1]].addCapability(op[2]); return 'ok', []
            if k == 'ucap_rm':
                self.U.users[op[1]].removeCapability(op[2]); return 'ok', []
            if k == 'uhost':
                self.U.users[op[1]].hostmasks.add(op[2]); self.U._hostmaskCache.clear(); return 'ok', []
            if k == 'uauth':
                self.U.users[op[1]].auth.append((float(op[2]), op[3])); self.U._hostmaskCache.clear(); return 'ok', []
            if k == 'creload':
                # channels.conf written and read back (ChannelsDictionary.flush, .reload)
                import tempfile
                fd, path = tempfile.mkstemp(prefix='c03channels', suffix='.conf'); os.close(fd)
                try:
                    self.C.filename = path; self.C.flush(); self.C.reload()
                finally:
                    self.C.filename = None
                    try: os.unlink(path)
                    except OSError: pass
                return 'ok', []
            if k == 'ccap_add':
                self.C.getChannel(op[1]).addCapability(op[2]); return 'ok', []
            if k == 'ccap_rm':
                self.C.getChannel(op[1]).removeCapability(op[2]); return 'ok', []
            if k == 'cdefault':
                self.C.getChannel(op[1]).setDefaultCapability(bool(op[2])); return 'ok', []
            if k in ('check', 'coldcheck'):
                if k == 'coldcheck':
                    self.U._hostmaskCache.clear(); self.U._nameCache.clear()
                before = self.hosts_snapshot()
                io_, ic, ida = op[3]
                try:
                    r = ircdb.checkCapability(op[1], op[2], users=self.U, channels=self.C,
                                              ignoreOwner=io_, ignoreChannelOp=ic, ignoreDefaultAllow=ida)
                    out = 'ok\t%d' % (1 if r else 0) if isinstance(r, bool) else 'notbool\t%r' % (r,)
                except Exception as e:
                    out = self.err(e)
                after = self.hosts_snapshot()
                sync = [('uhosts', i, after[i]) for i in after if after[i] != before.get(i)]
                return out, sync
            if k == 'checks':
                # checkCapabilities has no users=/channels= parameters: point the module globals at ours
                su, sc = ircdb.users, ircdb.channels
                d = ircdb.checkCapability.__defaults__
                ircdb.checkCapability.__defaults__ = (self.U, self.C) + d[2:]
                before = self.hosts_snapshot()
                # observe (not alter) the checkCapability calls it makes: a lookup that finds two accounts deletes
                # hostmasks, and the remaining capabilities are then checked against the changed records
                self.inner = []; self.inner_before = before
                orig_cc = ircdb.checkCapability
                def watched_cc(*a, **kw):
                    r_ = orig_cc(*a, **kw)
                    self.inner.append((r_, self.hosts_snapshot()))
                    return r_
                ircdb.checkCapability = watched_cc
                try:
                    try:
                        r = ircdb.checkCapabilities(op[1], list(op[2]), requireAll=bool(op[3]))
                        out = 'ok\t%d' % (1 if r else 0) if isinstance(r, bool) else 'notbool\t%r' % (r,)
                    except Exception as e:
                        out = self.err(e)
                finally:
                    ircdb.checkCapability = orig_cc
                    ircdb.checkCapability.__defaults__ = d
                after = self.hosts_snapshot()
                return out, [('uhosts', i, after[i]) for i in after if after[i] != before.get(i)]
            if k == 'dump':
                return self.dump(), []
        except Exception as e:
            return self.err(e), []
        raise ValueError('unknown op %r' % (op,))

def fl_str(fl):
    return ''.join('1' if x else '0' for x in fl)

def wire_line(op):
    k = op[0]
    E = wire.enc
    if k in ('initial', 'dump', 'creload'): return k
    if k in ('defaults', 'registered'): return '%s\t%s' % (k, wire.enc_list(op[1]))
    if k == 'flag': return 'flag\t%d' % op[1]
    if k in ('timeout', 'now'): return '%s\t%d' % (k, op[1])
    if k == 'newuser': return 'newuser\t%d\t%s\t%d\t%d' % (op[1], E(op[2]), op[3], op[4])
    if k == 'uflags': return 'uflags\t%d\t%d\t%d' % (op[1], op[2], op[3])
    if k in ('ucap_add', 'ucap_rm', 'uhost'): return '%s\t%d\t%s' % (k, op[1], E(op[2]))
    if k == 'uhosts': return 'uhosts\t%d\t%s' % (op[1], wire.enc_list(op[2]))
    if k == 'uauth': return 'uauth\t%d\t%d\t%s' % (op[1], op[2], E(op[3]))
    if k in ('ccap_add', 'ccap_rm'): return '%s\t%s\t%s' % (k, E(op[1]), E(op[2]))
    if k == 'cdefault': return 'cdefault\t%s\t%d' % (E(op[1]), op[2])
    if k in ('check', 'coldcheck'): return 'check\t%s\t%s\t%s' % (E(op[1]), E(op[2]), fl_str(op[3]))
    if k == 'checks': return 'checks\t%s\t%s\t%d' % (E(op[1]), wire.enc_list(op[2]), op[3])
    raise ValueError(op)

# =====================================================================================
# generators
# =====================================================================================
BASES = ['foo', 'bar', 'op', 'owner', 'admin', 'trusted', 'voice', 'halfop', 'protected', 'aka.add',
         'x[y]', 'a\\b', 'q~', 'é', 'a,b', 'z-z']
CHANS = ['#c', '#d', '&e', '#x[y]', '!k|']
NAMES = ['alice', 'bob', 'carol', 'dave', 'erin', 'frank']
PATS = {  # per user name: patterns that user may own
 'alice': ['alice!*@*', 'al*!*@*.example', 'a?ice!u@h'],
 'bob': ['bob!*@host', '*!*@bobs.host', 'b[o]b!*@*'],
 'carol': ['*!carol@*', 'carol!*@*'],
 'dave': ['*!*@trusted.host', 'dave!d@*'],
 'erin': ['erin!*@*', '*!*@*.example'],
 'frank': ['fr{nk!*@*', 'frank!*@h?st'],
}
HOSTS = ['alice!u@h', 'ALICE!U@H', 'alice!x@a.example', 'bob!x@host', 'bob!x@bobs.host', 'b{o}b!q@r', 'zed!carol@z',
         'carol!carol@x', 'dave!d@trusted.host', 'erin!e@e', 'x!y@z.example', 'fr[nk!a@b', 'frank!f@host', 'frank!f@hxst',
         'zed!z@z', 'nobody!n@n', 'alice!x@trusted.host', 'alice', 'BOB', 'carol', 'nobody',
         # separators inside the user / nick part: user hostmasks all the same (the host follows the last @)
         'dave!d@relay@trusted.host', 'erin!!e@e.example']

def swapcase_irc(r, s):
    """a random IRC-case variant (ASCII letters and the four rfc1459 pairs)"""
    up = dict(zip(_LO, _UP)); lo = dict(zip(_UP, _LO))
    out = []
    for c in s:
        if r.random() < 0.5:
            c = up.get(c, lo.get(c, c))
        out.append(c)
    return ''.join(out)

def gen_cap(r, wf=True):
    base = r.choice(BASES)
    if r.random() < 0.3:
        base = swapcase_irc(r, base)
    cap = ('-' if r.random() < 0.4 else '') + base
    if r.random() < 0.45:
        ch = r.choice(CHANS)
        if r.random() < 0.3:
            ch = swapcase_irc(r, ch)
        cap = ch + ',' + cap
    if not wf:
        k = r.randint(0, 9)
        if k == 0: cap = '-' + cap
        elif k == 1: cap = cap + r.choice([' ', ' x', '\t', ',', ',#d,foo'])
        elif k == 2: cap = r.choice(['', ' ', '-', ',', '#c,', '#c,-', '--', '-#c,foo', '#c,#d,foo', '#c,#d,-foo', ' owner', 'owner ', '-owner ', 'a b'])
        elif k == 3: cap = r.choice(CHANS) + ' ,' + base
        elif k == 4: cap = rng.text(r, 8, 'ab-,#& ')
        elif k == 5: cap = '#' + 'c' * r.choice([48, 49, 50, 51]) + ',foo'
        elif k == 6: cap = '#c\x07,foo'
    return cap

def gen_scenario(r, wf=True):
    ops = [('initial',)]
    if r.random() < 0.6:
        ops.append(('defaults', [gen_cap_plain(r, wf) for _ in range(r.randint(0, 5))]))
    if r.random() < 0.5:
        ops.append(('registered', [gen_cap_plain(r, wf) for _ in range(r.randint(0, 4))]))
    if r.random() < 0.4:
        ops.append(('flag', r.randint(0, 1)))
    timeout = r.choice([0, 0, 10, 100, -5])
    now = r.choice([0, 50, 105, 1000])
    if timeout: ops.append(('timeout', timeout))
    ops.append(('now', now))
    nusers = r.choice([0, 1, 2, 3, 3, 4, 6])
    has_auth = False
    names = r.sample(NAMES, nusers)
    for i, nm in enumerate(names, 1):
        ops.append(('newuser', i, nm if r.random() < 0.8 else nm.upper(), int(r.random() < 0.15), int(r.random() < 0.2)))
        for p in r.sample(PATS[nm], r.randint(0, len(PATS[nm]))):
            ops.append(('uhost', i, p if r.random() < 0.8 else swapcase_irc(r, p)))
        if r.random() < 0.3:
            has_auth = True
            ops.append(('uauth', i, r.choice([0, 40, 95, 100, 990, 1000]), r.choice(HOSTS[:17])))
        if r.random() < 0.25:
            ops.append(('ucap_add', i, 'owner'))
        for _ in range(r.randint(0, 5)):
            ops.append(('ucap_add', i, gen_cap(r, wf)))
    for ch in r.sample(CHANS, r.randint(0, 3)):
        if r.random() < 0.5:
            ops.append(('cdefault', ch, r.randint(0, 1)))
        for _ in range(r.randint(0, 4)):
            ops.append(('ccap_add', ch, gen_cap_plain(r, wf)))
    # queries interleaved with edits
    for _ in range(r.randint(6, 14)):
        x = r.random()
        if x < 0.12 and nusers:
            i = r.randint(1, nusers)
            ops.append((r.choice(['ucap_add', 'ucap_add', 'ucap_rm']), i, gen_cap(r, wf)))
        elif x < 0.18:
            ops.append((r.choice(['ccap_add', 'ccap_rm']), r.choice(CHANS), gen_cap_plain(r, wf) if r.random() < 0.8 else
                        r.choice(['op', '-op', 'halfop', '-voice', 'protected', '-protected'])))
        elif x < 0.22 and wf:
            # the channel database is written and read back; then somebody asks for what a fresh channel switches off
            ops.append(('creload',))
            for _ in range(2):
                base_idx = len(ops)
                cap = r.choice(CHANS) + ',' + r.choice(['op', 'halfop', 'voice', 'protected', '-op', '-voice'])
                fl = (False, False, r.random() < 0.3)
                h = r.choice(HOSTS)
                ops.append(('check', h, cap, fl))
                ops.append(('check', h, o_invert(cap), fl, ('inv', base_idx)))
        elif x < 0.25 and nusers:
            ops.append(('uflags', r.randint(1, nusers), r.randint(0, 1), r.randint(0, 1)))
        elif x < 0.28:
            ops.append(('checks', r.choice(HOSTS), [gen_cap(r, wf) for _ in range(r.randint(0, 3))], r.randint(0, 1)))
        else:
            h = r.choice(HOSTS)
            cap = gen_cap(r, wf)
            fl = tuple(r.random() < 0.3 for _ in range(3)) if r.random() < 0.6 else (False, False, False)
            base_idx = len(ops)
            ops.append(('check', h, cap, fl))
            if wf or o_valid(cap):
                ops.append(('check', h, o_invert(cap), fl, ('inv', base_idx)))
            # a login is tied to the exact hostmask string, so the sender's case is only varied
            # when the scenario has no logins
            hv = h if (has_auth or r.random() < 0.5) else (swapcase_irc(r, h) if '!' in h else h.swapcase())
            ops.append(('check', hv, swapcase_irc(r, cap), fl, ('case', base_idx)))
            ops.append(('coldcheck', h, cap, fl, ('again', base_idx)))
    ops.append(('dump',))
    return ops

def gen_cap_plain(r, wf=True):
    """capability for a channel set / the global sets (no channel prefix most of the time)"""
    cap = gen_cap(r, wf)
    if r.random() < 0.85:
        ch, rest = o_split(cap)
        cap = rest
    return cap

# =====================================================================================
# running scenarios
# =====================================================================================
def run_scenario(impl, ops, wf, kind):
    """returns (Case, wire lines, number of decisions)"""
    st = OState() if wf else None
    outs = []; lines = []; tags = set(); results = {}; trace = []
    ok = True; msg = ''
    def fail(m):
        nonlocal ok, msg
        if ok:
            ok = False; msg = m
    decisions = 0; epoch = 0
    for idx, op in enumerate(ops):
        out, sync = impl.run(op)
        k = op[0]
        trace.append('%3d %-90s -> %s%s' % (idx, repr(op)[:90], out.replace('\t', ' '), ''.join('   [effect: user %d hostmasks now %r]' % (s_[1], s_[2]) for s_ in sync)))
        if k == 'checks' and sync and len(op[2]) > 1 and out.startswith('ok') and all(isinstance(r_, bool) for (r_, _) in impl.inner):
            # hostmasks were deleted in the middle of checkCapabilities: the model (effect-free) is asked segment by
            # segment — the calls up to and including the one with the effect, the resynchronisation, the rest —
            # with the implementation's own inner answers combined per segment
            ra = bool(op[3]); comb = (all if ra else any)
            seen = impl.inner; prev = impl.inner_before; seg = []; segs = []
            for n_, (r_, snap) in enumerate(seen):
                seg.append(n_)
                if snap != prev:
                    segs.append((seg, {i_: snap[i_] for i_ in snap if snap[i_] != prev.get(i_)})); seg = []
                prev = snap
            if seg: segs.append((seg, None))
            whole = None
            for (ix, snap) in segs:
                r_seg = comb(seen[n_][0] for n_ in ix)
                lines.append(wire_line(('checks', op[1], [op[2][n_] for n_ in ix], op[3]))); outs.append('ok\t%d' % r_seg)
                whole = r_seg if whole is None else ((whole and r_seg) if ra else (whole or r_seg))
                if snap is not None:
                    for i_ in snap:
                        lines.append(wire_line(('uhosts', i_, snap[i_]))); outs.append('ok')
            if out != 'ok\t%d' % whole:
                fail('op %d: checkCapabilities answered %s, its own checkCapability calls combine to %s' % (idx, out, whole))
            tags.add('dup-removal'); tags.add('effect-inside-checkCapabilities')
            epoch += 1
            if st is not None:
                for s_ in sync: st.users[s_[1]].masks = list(s_[2])
            continue
        outs.append(out)
        lines.append(wire_line(op))
        if sync or k not in ('check', 'coldcheck', 'checks', 'dump'):
            epoch += 1                 # the database changed: answers before and after are not comparable
        if k in ('check', 'coldcheck'):
            decisions += 1
            results[idx] = (out, epoch - (1 if sync else 0))
            h, cap, fl = op[1], op[2], op[3]
            # totality: a capability string that is a single word never raises
            single = bool(cap) and not o_blank(cap)
            if single and not out.startswith('ok\t'):
                fail('checkCapability(%r, %r, flags=%s) raised (%s) for a single-word capability' % (h, cap, fl_str(fl), out))
            if out.startswith('err'): tags.add('raises')
            # the domain predicate of the theorems (Lean `validCap`) is the one the oracle uses
            lines.append('validCap\t' + wire.enc(cap)); outs.append('1' if o_valid(cap) else '0')
            if st is not None and o_valid(cap):
                want, how = o_decide(st, h, cap, fl)
                # ... and the decision list of the theorems (Lean `Spec.decide`) is the oracle's
                lines.append('spec\t%s\t%s\t%s' % (wire.enc(h), wire.enc(cap), fl_str(fl))); outs.append('ok\t%d' % want)
                tags.update(how)
                if any(fl): tags.add('flags')
                if out != 'ok\t%d' % want:
                    fail('op %d: checkCapability(%r, %r, ignoreOwner=%s, ignoreChannelOp=%s, ignoreDefaultAllow=%s) gave %s; '
                         'the documented precedence (%s/%s) requires %s' % (idx, h, cap, fl[0], fl[1], fl[2], out, how[0], how[1], want))
            if len(op) > 4:
                rel, j = op[4]
                a, ep = results.get(j, (None, -1)); b_ = out
                if ep != epoch or sync:
                    pass
                elif a is not None and a.startswith('ok') and b_.startswith('ok'):
                    if rel == 'inv' and a == b_:
                        fail('op %d/%d: %r and its inverse %r both answer %s for %r (flags %s)' % (j, idx, ops[j][2], cap, a, h, fl_str(fl)))
                    if rel == 'case' and a != b_:
                        fail('op %d/%d: case variant %r of %r (hostmask %r vs %r) answers %s instead of %s' % (j, idx, cap, ops[j][2], h, ops[j][1], b_, a))
                    if rel == 'again' and a != b_:
                        fail('op %d/%d: with cold caches checkCapability(%r, %r) answers %s, with warm caches %s' % (j, idx, h, cap, b_, a))
                elif a is not None and rel in ('case', 'again') and a != b_:
                    fail('op %d/%d: %s variant outcome %s differs from %s' % (j, idx, rel, b_, a))
        elif st is not None:
            o_apply(st, op, out)
        for s in sync:
            # effect of the stateful lookup (duplicate hostmasks are removed); C04 models it
            lines.append(wire_line(s)); outs.append('ok'); tags.add('dup-removal')
            if st is not None:
                st.users[s[1]].masks = list(s[2])
    if st is not None:
        lines.append('wf'); outs.append('1')       # the invariant of `history_wf` / hypothesis of `check_eq_spec`
    inp = {'ops': [list(o) for o in ops], 'wf': wf}
    if kind == 'replay':
        inp['trace'] = trace
    c = Case(inp, impl='\n'.join(outs), oracle_ok=ok, oracle_msg=msg,
             tags=sorted(tags - {'u-flag', 'flag', 'unknown', 'known'}), kind=kind)
    return c, lines, decisions

def o_apply(st, op, out):
    """the oracle's own bookkeeping of the database described by the edit history"""
    k = op[0]
    good = (out == 'ok')
    if k == 'initial':
        st.__init__()
        st.defaults = OSet()
        for c in ['-owner', '-admin', '-trusted', '-aka.add', '-aka.set', '-aka.remove', '-alias.add', '-alias.remove',
                  '-scheduler.add', '-scheduler.remove', '-scheduler.repeat']:
            st.defaults.add(c)
    elif k == 'defaults' and good:
        s = OSet()
        for c in op[1]: s.add(c)
        s['owner'] = False            # nobody is owner by default
        st.defaults = s
    elif k == 'registered' and good:
        s = OSet()
        for c in op[1]: s.add(c)
        st.registered = s
    elif k == 'flag': st.flag = bool(op[1])
    elif k == 'timeout': st.timeout = op[1]
    elif k == 'now': st.now = op[1]
    elif k == 'newuser': st.users[op[1]] = OUser(op[1], op[2], bool(op[3]), bool(op[4]))
    elif k == 'uflags': st.users[op[1]].ignore = bool(op[2]); st.users[op[1]].secure = bool(op[3])
    elif k == 'ucap_add' and good: st.users[op[1]].caps.add(op[2])
    elif k == 'ucap_rm' and good: st.users[op[1]].caps.remove(op[2])
    elif k == 'uhost':
        if not any(o_lower(m) == o_lower(op[2]) for m in st.users[op[1]].masks):
            st.users[op[1]].masks.append(op[2])
    elif k == 'uauth': st.users[op[1]].auth.append((op[2], op[3]))
    elif k == 'ccap_add':
        c = st.chan_mut(op[1])
        if good: c.caps.add(op[2])
    elif k == 'ccap_rm':
        c = st.chan_mut(op[1])
        if good: c.caps.remove(op[2])
    elif k == 'cdefault': st.chan_mut(op[1]).allow = bool(op[2])
    elif k == 'creload':
        # read back: a fresh channel (op, halfop, voice, protected off) overlaid with what the file says
        for c in st.chans.values():
            stored = dict(c.caps)
            c.caps = OSet({'op': False, 'halfop': False, 'voice': False, 'protected': False})
            c.caps.update(stored)

# ---- algebra stream -----------------------------------------------------------------
ALG_ALPHA = ['#', '&', '!', ',', '-', ' ', '\t', '\x07', 'a', 'B', 'op', 'owner', '[', ']', '\\', '~', '{', '}', '|', '^', 'é', 'c' * 24, '\n', '\xa0', '　']
def gen_alg_string(r):
    k = r.randint(0, 4)
    if k == 0: return gen_cap(r, wf=False)
    if k == 1: return gen_cap(r, wf=True)
    return ''.join(r.choice(ALG_ALPHA) for _ in range(r.randint(0, 6)))

def impl_alg(ircdb, ircutils, s):
    def R(f, *a):
        try:
            v = f(*a)
        except AssertionError: return 'err\tassertion'
        except KeyError: return 'err\tkey'
        except ValueError: return 'err\tvalue'
        except Exception as e: return 'err\t' + type(e).__name__
        if isinstance(v, (list, tuple)): return 'ok\t' + '\t'.join(wire.enc(x) for x in v)
        return 'ok\t' + wire.enc(v)
    B = lambda v: '1' if v else '0'
    return [B(ircdb.isCapability(s)), B(ircutils.isChannel(s)), B(ircdb.isChannelCapability(s)), B(ircdb.isAntiCapability(s)),
            R(ircdb.invertCapability, s), R(ircdb.makeAntiCapability, s), R(ircdb.unAntiCapability, s),
            R(ircdb.fromChannelCapability, s), wire.enc(ircutils.toLower(s))]
ALG_OPS = ['isCapability', 'isChannel', 'isChannelCapability', 'isAnti', 'invert', 'makeAnti', 'unAnti', 'fromChannel', 'toLower']

def alg_case(impl, s, kind='algebra'):
    ircdb = impl.ircdb; ircutils = impl.b.ircutils
    outs = impl_alg(ircdb, ircutils, s)
    ok = True; msg = ''
    # algebra laws of the statement, on the implementation, inside the domain
    if o_valid(s):
        try:
            inv = ircdb.invertCapability(s)
            if ircdb.invertCapability(inv) != s:
                ok = False; msg = 'invert(invert(%r)) = %r' % (s, ircdb.invertCapability(inv))
            elif ircdb.isAntiCapability(inv) == ircdb.isAntiCapability(s):
                ok = False; msg = 'isAnti(invert(%r)) == isAnti(%r)' % (s, s)
        except Exception as e:
            ok = False; msg = 'invertCapability(%r) raised %s' % (s, type(e).__name__)
    tags = []
    if outs[0] == '1': tags.append('alg-cap')
    if outs[2] == '1': tags.append('alg-chancap')
    if outs[3] == '1': tags.append('alg-anti')
    if outs[4].startswith('err'): tags.append('alg-invert-raises')
    c = Case({'op': 'algebra', 's': s}, impl='\n'.join(outs), oracle_ok=ok, oracle_msg=msg, tags=tags, kind=kind)
    c.impl += '\n' + ('1' if o_valid(s) else '0')
    return c, ['%s\t%s' % (o, wire.enc(s)) for o in ALG_OPS + ['validCap']]

# ---- str.lower() contract (oracle only) ------------------------------------------------
LOWER_SUSPECTS = [0x130, 0x131, 0x17f, 0x212a, 0x212b, 0xdf, 0x1e9e, 0x3a3, 0x3c2, 0x3c3, 0xb5, 0x1c5, 0xfb01]
def lower_contract_cases(impl, r, whole_bmp):
    """`C03.LowerOK` — the contract under which channel-name case-insensitivity is proved with str.lower as a
    parameter — tested against CPython's str.lower, and the clause itself on the implementation: a channel name and
    its IRC-lowered form get the same record.  Not compared with the model (which lowers ASCII only)."""
    iu = impl.b.ircutils; ircdb = impl.ircdb
    cps = range(0x20, 0x10000) if whole_bmp else LOWER_SUSPECTS + [r.randrange(0x80, 0x10000) for _ in range(1500)] + list(range(0x20, 0x100))
    C = ircdb.ChannelsDictionary()
    overfold = []
    for cp in cps:
        if 0xD800 <= cp < 0xE000 or cp in (0x2c, 0x07): continue
        c = chr(cp)
        if c.isspace(): continue
        ok = True; msg = ''
        for s_ in ('#' + c, '#X[' + c + 'y~', '#' + c + '\u03a3', '#A' + c + '\u03a3b'):
            a = iu.toLower(iu.toLower(s_).lower()); b_ = iu.toLower(s_.lower())
            if a != b_:
                ok = False; msg = 'contract LowerOK fails for %r: toLower(lower(toLower(s))) = %r, toLower(lower(s)) = %r' % (s_, a, b_)
            if len(s_) <= 50 and C.getChannel(s_) is not C.getChannel(iu.toLower(s_)):
                ok = False; msg = 'channel %r and its IRC-lowered form %r get different records' % (s_, iu.toLower(s_))
        if c.lower() != c and iu.toLower(c) == c and len(overfold) < 8:
            overfold.append('#%s / #%s' % (c, c.lower()))
        C.channels.clear()
        yield Case({'op': 'lower-contract', 'cp': cp}, oracle_ok=ok, oracle_msg=msg, tags=('lower-contract',) if cp >= 0x80 else (), kind='lower-contract')
    impl.overfold = overfold

# ---- one key function for the channel table (oracle only) -------------------------------
def channel_key_case(impl, cp, with_reload=True):
    """A channel stored under one spelling is found under every spelling with the same str.lower() — through getChannel,
    setChannel, checkCapability and a flush + reload of channels.conf.  (The model lowers ASCII only; here the
    implementation is held against the statement directly, for names with cased letters outside ASCII.)"""
    import tempfile
    ircdb = impl.ircdb
    c = chr(cp)
    v0 = '#' + c + 'cole'
    variants = [v for v in dict.fromkeys([v0, '#' + c.lower() + 'cole', '#' + c.upper() + 'cole', v0.upper(), v0.lower()])
                if v.lower() == v0.lower() and len(v) <= 50 and impl.b.ircutils.isChannel(v)]
    ok = True; msg = ''
    def fail(m):
        nonlocal ok, msg
        if ok: ok = False; msg = m
    C = ircdb.ChannelsDictionary()
    U = ircdb.UsersDictionary()
    ch = C.getChannel(v0); ch.addCapability('-topic'); ch.setDefaultCapability(False)
    C.setChannel(v0, ch)                                   # what `channel capability add` does
    def probe(D, where):
        for v in variants:
            got = D.getChannel(v)
            if '-topic' not in got.capabilities or got.defaultAllow:
                fail('%s: channel %r was given -topic and defaultAllow=False as %r, but getChannel(%r) answers a record without them'
                     % (where, v0.lower(), v0, v))
            r1 = ircdb.checkCapability('zed!x@y', v + ',topic', users=U, channels=D)
            r2 = ircdb.checkCapability('zed!x@y', v + ',anythingelse', users=U, channels=D)
            if r1 is not False or r2 is not False:
                fail('%s: %r carries -topic and defaultAllow=False (set as %r), but checkCapability(%r) = %r and (%r) = %r'
                     % (where, v0.lower(), v0, v + ',topic', r1, v + ',anythingelse', r2))
    probe(C, 'in memory')
    if with_reload:
        fd, path = tempfile.mkstemp(prefix='c03chan', suffix='.conf'); os.close(fd)
        try:
            C.filename = path; C.flush()
            D = ircdb.ChannelsDictionary(); D.open(path)
            probe(D, 'after flush + reload')
            # NB probing creates records for spellings that miss: count the distinct record objects
            if len(set(id(x) for x in D.channels.values())) != 1:
                fail('after flush + reload the spellings %r of one channel resolve to %d different records'
                     % (variants, len(set(id(x) for x in D.channels.values()))))
        finally:
            try: os.unlink(path)
            except OSError: pass
    return Case({'op': 'channel-key', 'cp': cp, 'reload': with_reload}, oracle_ok=ok, oracle_msg=msg,
                tags=('channel-key', 'channel-key-reload') if with_reload else ('channel-key',), kind='channel-key')

def channel_key_cases(impl, r, whole_bmp):
    fixed = [0xc9, 0xe9, 0xd6, 0x3a3, 0x416, 0x130, 0x1e9e, 0x212a, 0x10a0]
    cps = list(range(0x80, 0x10000)) if whole_bmp else fixed + list(range(0xc0, 0x180)) + [r.randrange(0x180, 0x10000) for _ in range(3000)]
    n = 0
    for cp in cps:
        if 0xD800 <= cp < 0xE000: continue
        c = chr(cp)
        if not c.isalpha() or (c.lower() == c and c.upper() == c): continue
        n += 1
        yield channel_key_case(impl, cp, with_reload=(whole_bmp or cp in fixed or n % 8 == 0))

# ---- exhaustive small universe ---------------------------------------------------------
def exhaustive_scenarios():
    """1 user (+ an unknown sender) × capability foo × every placement/polarity × all flags"""
    tri = [None, True, False]
    for ufoo, ucfoo, owner, chop, ign in itertools.product(tri, tri, [False, True], tri, [False, True]):
        ops0 = [('initial',), ('newuser', 1, 'alice', int(ign), 0), ('uhost', 1, 'alice!*@*')]
        if ufoo is not None: ops0.append(('ucap_add', 1, 'foo' if ufoo else '-foo'))
        if ucfoo is not None: ops0.append(('ucap_add', 1, '#c,foo' if ucfoo else '#c,-foo'))
        if owner: ops0.append(('ucap_add', 1, 'owner'))
        if chop is not None: ops0.append(('ucap_add', 1, '#c,op' if chop else '#c,-op'))
        for cfoo, callow, dfoo, rfoo, flag in itertools.product(tri, [True, False], tri, tri, [True, False]):
            ops = list(ops0)
            if cfoo is not None: ops.append(('ccap_add', '#c', 'foo' if cfoo else '-foo'))
            if not callow: ops.append(('cdefault', '#c', 0))
            if dfoo is not None: ops.append(('defaults', ['foo' if dfoo else '-foo']))
            if rfoo is not None: ops.append(('registered', ['foo' if rfoo else '-foo']))
            if not flag: ops.append(('flag', 0))
            for fl in itertools.product([False, True], repeat=3):
                for h in ('alice!x@y', 'zed!x@y'):
                    for cap in ('foo', '#c,foo', 'owner'):
                        i = len(ops)
                        ops.append(('check', h, cap, fl))
                        ops.append(('check', h, o_invert(cap), fl, ('inv', i)))
            yield ops

# =====================================================================================
def explore(ctx, n_wf, n_hostile, n_alg, exhaustive=False, corpus=(), stream='c03', want_lines=True):
    impl = Impl()
    r = rng.make(stream)
    cases = []; lines = []; spans = []; decisions = 0
    def add(c, ls):
        spans.append((c, len(lines), len(ls)))
        lines.extend(ls); cases.append(c)
    for ops in DIRECTED + list(corpus):
        c, ls, d = run_scenario(impl, [tuple(o) for o in ops], True, 'corpus'); decisions += d; add(c, ls)
    for _ in range(n_wf):
        c, ls, d = run_scenario(impl, gen_scenario(r, True), True, 'wf'); decisions += d; add(c, ls)
    for _ in range(n_hostile):
        c, ls, d = run_scenario(impl, gen_scenario(r, False), False, 'hostile'); decisions += d; add(c, ls)
    for _ in range(n_alg):
        c, ls = alg_case(impl, gen_alg_string(r)); add(c, ls)
    for c in lower_contract_cases(impl, r, whole_bmp=exhaustive):
        cases.append(c)
    for c in channel_key_cases(impl, r, whole_bmp=exhaustive):
        cases.append(c)
    if exhaustive:
        for ops in exhaustive_scenarios():
            c, ls, d = run_scenario(impl, ops, True, 'exhaustive'); decisions += d
            c.input = {'ops': [list(o) for o in ops[:12]] + ['… %d more query ops (generated by exhaustive_scenarios)' % max(0, len(ops) - 12)], 'wf': True} if c.oracle_ok else c.input
            add(c, ls)
    explore.overfold = getattr(impl, 'overfold', [])
    return cases, lines, spans, decisions

def fill_model(cases, lines, spans):
    outs = wire.run_driver(PROPERTY, lines, timeout=1500)
    for c, start, n in spans:
        c.model = '\n'.join(outs[start:start + n])
    return cases

# directed scenarios, run first on every run
DIRECTED = [
 # a sender matching two accounts is nobody — and is answered from the channel table the CALLER passed (seeded C03-r4m2):
 # '#c' carries -topic and defaultAllow False there, the module-global table knows nothing about '#c'
 [('initial',), ('newuser', 1, 'alice', 0, 0), ('uhost', 1, 'al*!*@*.example'), ('newuser', 2, 'erin', 0, 0), ('uhost', 2, '*!*@*.example'),
  ('ucap_add', 1, '#c,topic'), ('ccap_add', '#c', '-topic'), ('cdefault', '#c', 0),
  ('check', 'alice!x@a.example', '#c,topic', (False, False, False)), ('check', 'alice!x@a.example', '#c,-topic', (False, False, False), ('inv', 8)),
  ('newuser', 3, 'dave', 0, 0), ('uhost', 3, 'zed!*@*'), ('newuser', 4, 'carol', 0, 0), ('uhost', 4, '*!z@z'),
  ('check', 'zed!z@z', '#c,anything', (False, False, False)), ('check', 'zed!z@z', '#c,op', (False, False, False)),
  ('checks', 'nobody!n@n', ['#c,topic', '#c,anything'], 0), ('dump',)],
]

def load_corpus():
    p = os.path.join(os.path.dirname(os.path.dirname(os.path.abspath(__file__))), 'corpus', 'C03', 'scenarios.json')
    try:
        return json.load(open(p))
    except OSError:
        return []

def run(ctx):
    build = leanbuild.ensure(PROPERTY, THEOREMS, thorough=ctx.thorough, extractors=['IrcDbCaps', 'IrcDbUsers'],
                             extra_modules=['LimnoriaModel.C04.Props'])
    if ctx.thorough:
        cases, lines, spans, decisions = explore(ctx, 6000, 3000, 60000, exhaustive=True, corpus=load_corpus())
    else:
        cases, lines, spans, decisions = explore(ctx, 1800, 700, 12000, corpus=load_corpus())
    if build.driver_ok:
        fill_model(cases, lines, spans)
    def search(disagreements, broken):
        os.environ['VERIF_SEED'] = str(ctx.seed + 7919)
        try:
            more, _, _, _ = explore(ctx, 1500, 300, 8000, exhaustive=True, stream='c03-search')
        finally:
            os.environ['VERIF_SEED'] = str(ctx.seed)
        return [c for c in more if c.oracle_ok is False]
    return verdict.conclude(PROPERTY, ctx.tier, ctx.seed, build, cases, search=search, rule=RULE,
                            trusted_base=TRUSTED,
                            assumptions=['Python asserts enabled', 'world.testing is False',
                                         'channel and user names in the model-compared cases are ASCII (str.lower outside ASCII is a parameter of the theorems; the channel-key stream holds the implementation against the statement for cased letters outside ASCII, through getChannel / setChannel / checkCapability / flush + reload)',
                                         'the clock does not run backwards within a scenario'],
                            extra={'decisions': decisions, 'exhaustive_small_universe': bool(ctx.thorough),
                                   'observation_channel_names_folded_beyond_rfc1459 (str.lower in getChannel; same record for)': getattr(explore, 'overfold', [])},
                            t0=ctx.t0)

def replay(ctx, path):
    d = json.load(open(path))
    c = d.get('case') or d.get('first_disagreement')
    if not c:
        print(json.dumps(d, indent=1)[:3000]); return 0
    inp = c['input']
    impl = Impl()
    if inp.get('op') == 'channel-key':
        c2 = channel_key_case(impl, inp['cp'], inp.get('reload', True))
        print('channel names built on U+%04X %r' % (inp['cp'], chr(inp['cp']))); print('oracle:', c2.oracle_ok, c2.oracle_msg)
        return 0 if c2.oracle_ok else 1
    if inp.get('op') == 'algebra':
        c2, _ = alg_case(impl, inp['s'])
        print('string %r' % inp['s']); print(c2.impl); print('oracle:', c2.oracle_ok, c2.oracle_msg)
        return 0 if c2.oracle_ok else 1
    ops = [tuple(o) for o in inp['ops'] if isinstance(o, list)]
    c2, _, _ = run_scenario(impl, ops, inp.get('wf', True), 'replay')
    for l in c2.input.get('trace', []):
        print(l)
    print('property oracle on the implementation:', 'holds' if c2.oracle_ok else 'FAILS: ' + c2.oracle_msg)
    return 0 if c2.oracle_ok else 1
