"""C12 — long replies are split without loss, invention or overflow.
Correspondence of lean/LimnoriaModel/C12/Model.lean with utils.str.byteTextWrap/splitBytes,
ircutils.FormatParser/FormatContext/wrap (pure level) and with the reply chunking of
callbacks.NestedCommandsIrcProxy.reply + Misc.more on a live bot (synthetic plugin VtLong), plus the
property statement evaluated directly on the implementation (used for the failing-input search)."""
import json, os, re, sys, textwrap
from vlib import wire, rng, leanbuild, verdict, bot, VERIF
from vlib.verdict import Case

PROPERTY = 'C12'
MANIFEST = {
 'level_text': 'Lean 4 theorems, kernel-checked, about an executable model of the whole splitting pipeline. (1) byteTextWrap/splitBytes: for every chunk list and every size >= 4 the loop terminates normally, the lines concatenate to the munged text, none exceeds the size, none is empty. (2) FormatContext/FormatParser/ircutils.wrap: re-opening a context costs at most size() bytes; by a simulation proof, for EVERY text (colours, bold/underline/reverse, over-long words, multi-byte characters) whose wrapped lines do not begin with a digit or comma the contexts recomputed from the produced lines are those of the text, hence every line fits the requested length and the client-visible text (stripFormatting modelled as a state machine) of the lines concatenates to the visible text of the input; unconditionally for text without colour codes. (3) reply arithmetic: every message of a chunked (or single) reply, prefixed with the bot hostmask as the server relays it, is at most 512 bytes, for every target / nick-prefix / notice / private / to= combination, hostmask, nick, reply.mores.{maximum,instant} setting, per-channel configuration value and shipped locale (the suffix reserve is proved sufficient for every row of the table extracted from locales/*.po); with an explicit reply.mores.length every line is at most frame + length bytes, and a counter-example shows 512 is then up to the operator; replies that bypass the check (irc.error, action, reply.mores off) are proved to be one message cut at 512 outgoing bytes (a recorded finding). (4) more protocol: first answer plus successive more commands deliver the chunks in order, each exactly once, each followed by the exact count of messages remaining, for every instant and sequence of batch sizes, and — non-interference theorem over arbitrary traces — whatever other requesters do meanwhile (their own replies, more, more <nick> on this very reply). The places where the full statements are false on the pinned tree are kept visible with proved counter-examples and are listed known findings. Constants (512, suffix texts, FormatContext sizes, control characters, getInt base/limit, splitBytes tries, the stripColor regex) are re-extracted from /repo on every run; the model is tied to the code by a differential run (pure functions on tens of thousands of generated strings; real replies + more on a live bot through the synthetic plugin VtLong) that also evaluates the property statement on the implementation.',
 'level_note': 'Trusted: Lean kernel (axioms propext/Classical.choice/Quot.sound only); harness/extractors/reply.py (constants and the locales/*.po table); the correspondence harness (generators bound what it sees); parameters of the model: textwrap.TextWrapper()._split_chunks (contract: chunks concatenate to the munged text, checked by the model driver on every case), repr() in safeArgument (the model takes the text after safeArgument), irc.isChannel / ircutils.isChannel / isNick / state.nickToHostmask (booleans and one optional hostmask per call), \\d of the stripColor regex restricted to ASCII digits. Modelled: splitBytes, byteTextWrap, textwrap whitespace munging, FormatContext.start/end/size, FormatParser.parse/getInt/getColor (two-digit limit), ircutils.wrap, stripFormatting, _makeReply (command, target, nick prefix, error=True, action=True, strip of \\x01, empty-message text), one call of irc.reply / irc.error with its configuration lookups (global values and the values of one channel for reply.mores.*, withNotice, inPrivate, withNickPrefix, error.*), the length-checked branch of reply (allowedLength explicit or computed, truncation, suffix reserve in every shipped locale, suffixes, instant), the shapes that bypass it (action, error, reply.mores off) followed by Irc._truncateMsg, nested replies (cut to reply.maximumLength), the shared _mores dictionary (heap of list objects keyed by rfc1459-lowered user@host and nick; the key is the hostmask of to= when it is a known nick), Misc.more and more <nick>. Also modelled: the reply attributes of a proxy and how the keywords of a nested command leak into the enclosing reply (Attrs.apply / forward), STATUSMSG-prefixed targets, the values a network (and a channel of a network) sets, as registry.getSpecific resolves them. C12/LinkC06.lean proves that the byte measure of all C12 theorems is the utf8Len of C06 = the bytes the socket driver writes (C11) and that sentLine is C06.truncate. Not modelled: locales other than the five shipped; irc.error texts are not chunked by the code (finding). Eight defects were repaired in /repo (fixes/C12-*.patch); three are recorded findings: cut of an over-long word inside a \\x03NN sequence, re-opened foreground colour followed by \",<digit>\", error/action replies not length-checked.',
 'technique': 'Lean 4 proof (induction over fuel/strings, loop invariants, simulation between two parser runs, finite tables by decide) + constant extraction + differential correspondence (pure + live bot)',
 'design_ref': 'DESIGN.md §6 C12',
}
THEOREMS = [
    'C12.consts_ok', 'C12.splitBytes_spec', 'C12.wrap_concat', 'C12.byteTextWrap_lines_nonempty', 'C12.munge_blen_le',
    'C12.parse_colours_small', 'C12.start_end_size', 'C12.ircWrap_fits_partial', 'C12.ircWrap_fits_counterexample',
    'C12.ircWrap_plain', 'C12.coherent_plain', 'C12.makeReply_wire', 'C12.fits_512_partial', 'C12.fits_512_plain',
    'C12.single_fits_512', 'C12.more_counts', 'C12.more_counts_delivery', 'C12.reply_first_batch', 'C12.more_protocol',
    'C12.visible_text_plain', 'C12.flags_ok', 'C12.coherent_nocolour', 'C12.ircWrap_nocolour', 'C12.fits_512_nocolour',
    'C12.visible_text_counterexample', 'C12.chunk_count',
    'C12.colour_ok', 'C12.coherent_clean', 'C12.ircWrap_fits_clean', 'C12.fits_512_clean',
    'C12.visible_text_clean', 'C12.reply_text_clean',
    'C12.two_requesters', 'C12.more_protocol_interleaved', 'C12.adopt_copy',
    'C12.fits_length_partial', 'C12.fits_length_nocolour', 'C12.fits_length_clean', 'C12.length_overflow_counterexample',
    'C12.locale_texts_ok', 'C12.sentLine_le', 'C12.action_reply_single', 'C12.replyCall_normal', 'C12.unchecked_counterexample',
    'C12.mores_off_single', 'C12.nested_arg', 'C12.fits_512_call', 'C12.storeMask_cases', 'C12.nested_keywords_leak',
    'C12.relayed_len', 'C12.fits_512_relayed', 'C12.stale_belief_overflows',
    'C12.byteTextWrap_total', 'C12.ircWrap_total', 'C12.reply_total', 'C12.attrs_reset_between_replies', 'C12.same_queue_order', 'C12.mores_key_stable',
    # lean/LimnoriaModel/C12/LinkC06.lean: blen = C06.utf8Len = driver bytes (C11), sentLine = C06.truncate
    'C12.blen_eq_driver_bytes', 'C12.takeBytes_eq_cutToBytes', 'C12.limits_agree', 'C12.sentLine_eq_truncate',
    'C12.sentLine_driver_bytes', 'C12.relayed_driver_bytes', 'C12.makeReply_command',
]
TRUSTED = ['Lean 4.33.0 kernel; axioms ⊆ {propext, Classical.choice, Quot.sound}',
           'harness/extractors/reply.py (constants of splitBytes, FormatContext, FormatParser, reply, _makeReply → Gen/Reply.lean)',
           'harness/c12.py generators, canonicalisation, spy on ircutils.wrap; hex line protocol; vlib.bot live bootstrap',
           'parameter: textwrap.TextWrapper()._split_chunks(t) — chunks concatenate to the whitespace-munged t (checked by the driver on every case)',
           'parameter: repr() inside ircutils.safeArgument (the model receives the text after safeArgument)',
           'parameter: irc.isChannel / stripChannelPrefix (passed as booleans pubTo/pubNick/pubMsgTarget)',
           'the oracle measures relayed lines with the hostmask the simulated server holds for the bot (changed only through NICK / CHGHOST messages fed to the bot), never with irc.prefix; the theorems carry the hypothesis belief = truth, proved for conformant servers by C10.view_refines_partial']
RULE = ('pure level: seeded strings over an alphabet of ASCII words, digits, commas, hyphens, multi-byte characters (2/3/4 bytes), '
        'mIRC codes (bold/underline/reverse/reset, colour with 0-3 digits and optional ,bg incl. colour 0 and lone backgrounds), '
        'tabs and other blanks, unbreakable words; ops munge/split/btw/parse/ctx/wrap with sizes 4..120. live level: a real '
        'irclib.Irc + Misc + synthetic VtLong replies with the stored text (1..60 chunks) to channel/private requesters, with '
        'withNickPrefix on/off, private=/notice=/to= keywords, bot hostmasks of 20..90 bytes, reply.mores.length 0 or 45..200, '
        'maximum 1..60, instant 1..4, Misc.mores 1..3, explicit lengths 1..200 (the small ones leave no room after the suffix reserve: byteTextWrap then works with its minimum of 4 bytes), followed by more until exhausted; in 45 % of the cases a second caller (other user@host) issues more <A> / more at random points and a third caller shares A\'s user@host; a targeted stream of single unbreakable multi-byte words long enough to be truncated, with the bot hostmask length swept over every residue of the character size. Non-trivial: the case took at least one '
        'non-default branch (split word, re-opened context, colour parse, truncation, >1 chunk, …); distinct = distinct input.')

F_CUT = 'C12-cut-inside-colour-code'
F_COMMA = 'C12-reopened-colour-runs-into-text'
F_MAX = 'C12-maximum-counts-characters'
MAX_MORES = 400

# ---------------------------------------------------------------------------------------------
# implementation side helpers
# ---------------------------------------------------------------------------------------------
class Impl(object):
    def __init__(self):
        bot.light()
        from supybot import ircutils, utils
        self.ircutils = ircutils
        self.utils = utils
        self.tw = textwrap.TextWrapper()

    def chunks(self, t):
        return self.tw._split_chunks(t)

    def munge(self, t):
        return self.tw._munge_whitespace(t)

    def visible(self, x):
        return self.ircutils.stripFormatting(x).replace('\x01', '')


def blen(s):
    return len(s.encode('utf-8'))


def enc_ctx(c):
    def on(v):
        return '~' if v is None else str(v)
    return '%s %s %d %d %d' % (on(c.fg), on(c.bg), bool(c.bold), bool(c.reverse), bool(c.underline))


HANGS = [0]


def _alarm_handler(signum, frame):
    raise TimeoutError('did not return within 5 s')


def safe_call(f, *a):
    """call the implementation; an assertion, a crash or a loop that never ends become error codes"""
    import signal
    old = signal.signal(signal.SIGALRM, _alarm_handler)
    signal.alarm(5)
    try:
        return f(*a), None
    except TimeoutError:
        HANGS[0] += 1
        return None, 'hang'
    except AssertionError:
        return None, 'assert'
    except Exception as e:
        return None, 'crash ' + type(e).__name__
    finally:
        signal.alarm(0)
        signal.signal(signal.SIGALRM, old)


_colour_re = re.compile(r'\x03(?:\d{1,2},\d{1,2}|\d{1,2}|,\d{1,2}|)')
_colour_span_re = re.compile(r'\x03\d{0,2}(?:,\d{0,2})?')


def classify_wrap(I, s, length):
    """which known-finding classes the input (s, length) of ircutils.wrap falls in — computed with the real code only"""
    res, err = safe_call(_classify_wrap, I, s, length)
    return set() if err else res     # the code under test crashes / hangs on this input: no class explains that


def _classify_wrap(I, s, length):
    out = set()
    p = I.ircutils.FormatParser(s)
    p.parse()
    size = max(length - p.max_context_size, 4)     # byteTextWrap's own minimum
    lines = I.utils.str.byteTextWrap(s, size)
    # theorems visible_text_clean / fits_512_clean: when no line after the first begins with a digit or a
    # comma the property is PROVED for the model — no finding class may excuse a failure there
    if all(l and l[0] not in '0123456789,' for l in lines[1:]):
        return out
    text = ''.join(lines)
    spans = [(m.start(), m.end()) for m in _colour_span_re.finditer(text)]
    pos = 0
    for l in lines[:-1]:
        pos += len(l)
        if any(a < pos < b for a, b in spans):
            out.add(F_CUT)
    ctx = None
    for l in lines:
        if ctx is not None:
            if ctx.fg is not None and ctx.bg is None and not (ctx.bold or ctx.reverse or ctx.underline) \
                    and re.match(r',\d', l):
                out.add(F_COMMA)
            l = ctx.start(l)
        ctx = I.ircutils.FormatParser(l).parse()
    return out


# ---------------------------------------------------------------------------------------------
# generators
# ---------------------------------------------------------------------------------------------
WORDS = ['a', 'be', 'cat', 'word', 'hello', 'x1', '42', '7', '10', ',5', ',', '1,2', 'semi-colon', 'e--f', 'foo-bar-baz',
         'é', 'été', 'ß', '中', '中文字', '😀', '😀😀', 'naïve', 'λx', '.', 'a,b', '0', '00', '15', '16', '99']
BLANKS = [' ', ' ', ' ', ' ', '  ', '\t', ' \t', '\x0b', '\x0c', '   ']


def gen_colour(r):
    k = r.randint(0, 9)
    if k == 0: return '\x03'
    if k == 1: return '\x030'
    if k == 2: return '\x03,%d' % r.randint(0, 15)
    if k == 3: return '\x03%d,%d' % (r.randint(0, 15), r.randint(0, 15))
    if k == 4: return '\x03%02d,%02d' % (r.randint(0, 15), r.randint(0, 15))
    if k == 5: return '\x03%d,' % r.randint(0, 15)
    if k == 6: return '\x03%02d' % r.randint(0, 20)
    if k == 7: return '\x030%d' % r.randint(0, 9)
    return '\x03%d' % r.randint(0, 15)


def gen_code(r):
    k = r.randint(0, 9)
    if k < 4: return gen_colour(r)
    return r.choice(['\x02', '\x02', '\x1f', '\x16', '\x0f', '\x0f', '\x1d'])


def gen_word(r, fmt, longp):
    k = r.random()
    if k < longp:
        n = r.randint(8, 200)
        base = r.choice(['x', 'ab', 'é', '中', '😀', '9', 'x1'])
        w = (base * n)[:n]
        if fmt and r.random() < 0.6:
            i = r.randrange(len(w) + 1)
            w = w[:i] + gen_code(r) + w[i:]
        return w
    w = r.choice(WORDS)
    if r.random() < 0.3:
        w += r.choice(WORDS)
    if fmt and r.random() < fmt:
        w = gen_code(r) + w if r.random() < 0.7 else w + gen_code(r)
    return w


def gen_text(r, nwords, fmt=0.25, longp=0.04, blanks=BLANKS, ctcp=0.0):
    out = []
    for _ in range(nwords):
        out.append(gen_word(r, fmt, longp))
        out.append(r.choice(blanks))
    s = ''.join(out)
    if r.random() < 0.5:
        s = s.rstrip()
    if ctcp and r.random() < ctcp:
        s = '\x01' + s + ('\x01' if r.random() < 0.5 else '')
    return s


# ---------------------------------------------------------------------------------------------
# pure level
# ---------------------------------------------------------------------------------------------
class Batch(object):
    """cases + the driver lines that produce their model outputs"""
    def __init__(self):
        self.cases = []
        self.lines = []
        self.pend = []     # (case, number of driver lines, combine)

    def add(self, case, lines, combine=None):
        self.cases.append(case)
        self.lines += lines
        self.pend.append((case, len(lines), combine or (lambda outs: '\n'.join(outs))))

    def fill(self):
        outs = wire.run_driver(PROPERTY, self.lines, timeout=900)
        i = 0
        for c, n, comb in self.pend:
            c.model = comb(outs[i:i + n])
            i += n


def pure_cases(I, r, n, B, kinds=('munge', 'split', 'btw', 'parse', 'ctx', 'wrap', 'strip')):
    iu, us = I.ircutils, I.utils.str
    for _ in range(n):
        if HANGS[0] >= 6:
            break           # the code under test loops for ever again and again: enough failing inputs
        kind = r.choice(kinds)
        if kind == 'munge':
            s = gen_text(r, r.randint(0, 12), fmt=0.1, blanks=BLANKS + ['\n', '\r', '\r\n', '\t\t'])
            m = I.munge(s)
            ch = I.chunks(s)
            ok = (''.join(ch) == m) and all(ch)
            B.add(Case({'op': 'munge', 's': s}, impl=wire.enc(m), oracle_ok=ok, kind='pure-munge',
                       oracle_msg='' if ok else 'contract of the word splitter broken: chunks %r do not concatenate to %r' % (ch, m),
                       tags=('munge',) + (('munge:tab',) if '\t' in s else ())),
                  ['munge\t' + wire.enc(s)])
        elif kind == 'split':
            w = gen_word(r, 0.3, 0.7)
            size = r.randint(0, max(1, blen(w) - 1)) if r.random() < 0.8 else r.randint(0, 6)
            if blen(w) <= size:
                continue
            res, err = safe_call(us.splitBytes, w.encode(), size)
            if err:
                impl = err
            else:
                impl = wire.enc(res[0]) + '\t' + wire.enc(res[1])
            ok = None
            msg = ''
            if size >= 4:
                ok = (err is None and res[0] + res[1] == w.encode() and 0 < len(res[0]) <= size)
                msg = '' if ok else 'splitBytes(%r, %d) = %r %s' % (w, size, res, err)
            B.add(Case({'op': 'split', 'word': w, 'size': size}, impl=impl, oracle_ok=ok, oracle_msg=msg, kind='pure-split',
                       tags=('split', 'split:i%d' % (size - len(res[0])) if not err and size >= 4 else 'split:small')),
                  ['split\t%d\t%s' % (size, wire.enc(w))])
        elif kind == 'btw':
            s = gen_text(r, r.randint(0, 25), fmt=0.0)
            size = r.randint(4, 60) if r.random() < 0.8 else r.randint(0, 3)
            ch = I.chunks(s)
            res, err = safe_call(us.byteTextWrap, s, size)
            impl = err or ('ok\t' + wire.enc_list(res))
            ok = err is None and ''.join(res) == I.munge(s) and all(blen(l) <= max(size, 4) for l in res) and \
                (all(res) or not s)
            tags = ['btw']
            if any(blen(c) > size for c in ch): tags.append('btw:split-word')
            if res and len(res) > 1: tags.append('btw:multi-line')
            if size < 4: tags.append('btw:size-below-4')
            if any(ord(c) > 127 for c in s): tags.append('btw:multibyte')
            B.add(Case({'op': 'btw', 's': s, 'size': size}, impl=impl, oracle_ok=ok, kind='pure-btw', tags=tags,
                       oracle_msg='' if ok else 'byteTextWrap(%r, %d) = %r %s: lines must concatenate to the munged text and hold at most %d bytes' % (s, size, res, err, size)),
                  ['btw\t%d\t%s' % (size, wire.enc_list(ch))])
        elif kind == 'parse':
            s = gen_text(r, r.randint(0, 8), fmt=0.8, longp=0.0)
            if r.random() < 0.3:
                s = ''.join(r.choice(['\x03', '\x03', '0', '1', '5', '9', ',', 'a', '\x02', '\x0f', ' ']) for _ in range(r.randint(0, 12)))
            try:
                p = iu.FormatParser(s)
                c = p.parse()
                impl = enc_ctx(c) + '\t' + str(p.max_context_size)
                ok = True
                tags = ['parse'] + ['parse:' + k for k in ('fg', 'bg', 'bold', 'reverse', 'underline') if getattr(c, k) not in (None, False)]
                if c.fg == 0 or c.bg == 0: tags.append('parse:colour0')
                if c.fg is None and c.bg is not None: tags.append('parse:lone-bg')
            except Exception as e:
                impl = 'crash ' + type(e).__name__
                ok = False
                tags = ['parse']
            B.add(Case({'op': 'parse', 's': s}, impl=impl, oracle_ok=ok, kind='pure-parse', tags=tags,
                       oracle_msg='' if ok else 'FormatParser(%r).parse() raised %s' % (s, impl)),
                  ['parse\t' + wire.enc(s)])
        elif kind == 'ctx':
            c = iu.FormatContext()
            c.fg = r.choice([None, None, 0, 1, 9, 10, 15, r.randint(0, 15)])
            c.bg = r.choice([None, None, None, 0, 3, 12, r.randint(0, 15)])
            c.bold = r.random() < 0.3; c.reverse = r.random() < 0.2; c.underline = r.random() < 0.2
            s = gen_text(r, r.randint(0, 3), fmt=0.3, longp=0.0)
            st = c.start(s); en = c.end(s); sz = c.size()
            cost = blen(c.end(c.start(s))) - blen(s)
            ok = cost <= sz
            B.add(Case({'op': 'ctx', 'ctx': enc_ctx(c), 's': s}, impl='%s\t%s\t%d' % (wire.enc(st), wire.enc(en), sz),
                       oracle_ok=ok, kind='pure-ctx', tags=('ctx', 'ctx:size%d' % sz),
                       oracle_msg='' if ok else 'FormatContext %s: start()+end() add %d bytes but size() is %d' % (enc_ctx(c), cost, sz)),
                  ['ctx\t' + enc_ctx(c).replace(' ', '\t') + '\t' + wire.enc(s)])
        elif kind == 'strip':
            if r.random() < 0.5:
                s = gen_text(r, r.randint(0, 8), fmt=0.8, longp=0.0)
            else:
                s = ''.join(r.choice(['\x03', '\x03', '0', '1', '5', '9', ',', ',', 'a', '\x02', '\x0f', '\x1d', ' ']) for _ in range(r.randint(0, 14)))
            v = iu.stripFormatting(s)
            tags = ['strip']
            if re.search(r'\x03\d{1,2},\d', s): tags.append('strip:fg,bg')
            if re.search(r'\x03\d{0,2},(?!\d)', s): tags.append('strip:comma-kept')
            if re.search(r'\x03\d{3}', s): tags.append('strip:third-digit')
            B.add(Case({'op': 'strip', 's': s}, impl=wire.enc(v), kind='pure-strip', tags=tags), ['strip\t' + wire.enc(s)])
        elif kind == 'wrap':
            s = gen_text(r, r.randint(1, 30), fmt=r.choice([0.0, 0.1, 0.3, 0.6]))
            p = iu.FormatParser(s); p.parse()
            length = p.max_context_size + r.randint(4, 70)
            B.add(*wrap_case(I, s, length, 'pure-wrap'))


def wrap_case(I, s, length, kind):
    iu = I.ircutils
    res, err = safe_call(iu.wrap, s, length)
    impl = err or ('ok\t' + wire.enc_list(res))
    classes = classify_wrap(I, s, length)
    fails = []
    if err:
        fails.append((None, 'ircutils.wrap(%r, %d) raised: %s' % (s, length, err)))
    else:
        over = [l for l in res if blen(l) > length]
        if over:
            fails.append((F_COMMA if F_COMMA in classes else None,
                          'ircutils.wrap(%r, %d): line %r has %d bytes' % (s, length, over[0], blen(over[0]))))
        vis = ''.join(I.visible(l) for l in res)
        want = I.visible(I.munge(s))
        if vis != want:
            cl = F_CUT if F_CUT in classes else (F_COMMA if F_COMMA in classes else None)
            fails.append((cl, 'ircutils.wrap(%r, %d): visible text of the lines is %r, of the input %r' % (s, length, vis, want)))
    ok, msg, finding = settle(fails)
    tags = ['wrap']
    if res:
        if len(res) > 1: tags.append('wrap:multi-line')
        if any(l[:1] in '\x03\x02\x1f\x16' and i > 0 for i, l in enumerate(res)): tags.append('wrap:reopen')
        if any(l.endswith('\x0f') for l in res): tags.append('wrap:end')
    if '\x03' in s: tags.append('wrap:colour')
    for c in classes: tags.append('class:' + c)
    c = Case({'op': 'wrap', 's': s, 'length': length}, impl=impl, oracle_ok=ok, oracle_msg=msg, finding=finding, kind=kind, tags=tags)
    return c, ['wrap\t%d\t%s\t%s' % (length, wire.enc(s), wire.enc_list(I.chunks(s)))]


def settle(fails):
    """fails: list of (finding class or None, message) → (oracle_ok, message, finding id)"""
    if not fails:
        return True, '', None
    unexplained = [m for c, m in fails if c is None]
    if unexplained:
        return False, unexplained[0], None
    return False, fails[0][1], fails[0][0]


# ---------------------------------------------------------------------------------------------
# live level
# ---------------------------------------------------------------------------------------------
_live = None
F_UNCHECKED = 'C12-unchecked-replies-truncated'
CONF_KEYS = ['withnotice', 'inprivate', 'nickprefix', 'errnotice', 'errprivate', 'mores', 'length', 'maximum', 'instant']
CONF_DEFAULTS = {'withnotice': False, 'inprivate': False, 'nickprefix': True, 'errnotice': False, 'errprivate': False,
                 'mores': True, 'length': 0, 'maximum': 50, 'instant': 1}


class Live(object):
    def __init__(self):
        self.b = bot.full(plugins=('Owner', 'Misc', 'Config'), plugin_dirs=[os.path.join(VERIF, 'harness', 'plugins')])
        bot.load_plugin(self.b, 'VtLong')
        bot.register_welcome(self.b)
        import VtLong.plugin as vp
        self.vp = vp
        # translations: what scripts/supybot does at start-up, and the installed layout of the core locales
        # (setup.py maps the package supybot.locales to /repo/locales)
        import supybot.i18n as i18n
        from vlib import REPO
        self.i18n = i18n
        if getattr(i18n, 'conf', None) is None:
            i18n.import_conf()
        real_path = i18n.getLocalePath

        def locale_path(name, localeName, extension):
            if name == 'supybot':
                return '%s/%s.%s' % (os.path.join(REPO, 'locales'), localeName, extension)
            return real_path(name, localeName, extension)
        i18n.getLocalePath = locale_path
        self.lang = 'en'
        self.overridden = []
        self.b.irc.state.supported['statusmsg'] = '@+'     # as a 005 STATUSMSG=@+ would
        # the bot's nick!user@host as the (simulated) SERVER knows it: the reference with which relayed lines are
        # measured.  It is only ever changed by feeding the bot the server's NICK / CHGHOST messages.
        self.true_prefix = self.b.irc.prefix
        self.spy = []
        iu = self.b.ircutils
        real = iu.wrap
        self.real_wrap = real
        spy = self.spy

        def wrap(s, length, *a, **k):
            res = real(s, length, *a, **k)
            spy.append((s, length, list(res)))
            return res
        self.spy_wrap = wrap
        self.texts = {}

    def groups(self):
        c = self.b.conf.supybot
        return {'withnotice': c.reply.withNotice, 'inprivate': c.reply.inPrivate, 'nickprefix': c.reply.withNickPrefix,
                'errnotice': c.reply.error.withNotice, 'errprivate': c.reply.error.inPrivate, 'mores': c.reply.mores,
                'length': c.reply.mores.length, 'maximum': c.reply.mores.maximum, 'instant': c.reply.mores.instant}

    def set_lang(self, lang):
        if lang != self.lang:
            self.b.conf.supybot.language.setValue(lang)
            self.i18n.reloadLocalesIfRequired()
            self.lang = lang
        if lang not in self.texts:
            import Misc.plugin as mp
            cb = self.b.callbacks
            self.texts[lang] = {
                'sing': str(cb._('more message')), 'plur': str(cb._('more messages')),
                'empty': str(cb._('Error: I tried to send you an empty message.')), 'errp': str(cb._('Error: ')),
                'nomore': re.escape(str(mp._("That's all, there is no more."))),
                'notasked': re.escape(str(mp._('You haven\'t asked me a command; perhaps you want '
                                               'to see someone else\'s more.  To do so, call this '
                                               'command with that person\'s nick.'))),
                'nopublic': re.escape(str(mp._('%s has no public mores.'))).replace('%s', '.*'),
                'cantfind': re.escape(str(mp._('Sorry, I can\'t find any mores for %s'))).replace('%s', '.*'),
            }
        return self.texts[lang]

    def configure(self, cfg):
        g = self.groups()
        # forget the channel values of the previous case: the children inherit from the global value again
        for (grp, child) in self.overridden:
            child._setValue(grp.value, inherited=True)
        del self.overridden[:]
        for k in CONF_KEYS:
            g[k].setValue(cfg.get(k, CONF_DEFAULTS[k]))
        c = self.b.conf.supybot
        c.reply.withNoticeWhenPrivate.setValue(cfg.get('noticewhenprivate', True))
        c.reply.maximumLength.setValue(cfg.get('nestedmax', 512 * 256))
        c.plugins.Misc.mores.setValue(cfg['batch'])
        ch = cfg.get('chan')
        if ch:
            for k in CONF_KEYS:
                child = g[k].get(ch['name'])
                child.setValue(ch['vals'].get(k, CONF_DEFAULTS[k]))
                self.overridden.append((g[k], child))
        # values set for the network, and for one channel of the network (registry: <group>.:test[.#chan])
        net = cfg.get('net')
        nch = cfg.get('netchan')
        if net or nch:
            for k in CONF_KEYS:
                node = g[k].get(':' + self.b.irc.network)
                if nch:
                    child = node.get(nch['name'])
                    child.setValue(nch['vals'].get(k, CONF_DEFAULTS[k]))
                    self.overridden.insert(0, (node, child))
                if net:
                    node.setValue(net.get(k, CONF_DEFAULTS[k]))
                    self.overridden.append((g[k], node))
        self.become(cfg.get('from_botprefix'))
        if cfg.get('keep_userhost'):
            # only the nick changes (the server sends a NICK message, no CHGHOST)
            cfg['botprefix'] = '%s!%s' % (cfg['botprefix'].split('!', 1)[0], self.true_prefix.split('!', 1)[1])
            del cfg['keep_userhost']
        self.become(cfg['botprefix'])
        return self.set_lang(cfg.get('lang', 'en'))

    @property
    def true_nick(self):
        return self.true_prefix.split('!', 1)[0]

    def become(self, want):
        """the server changes the bot's nick and/or user@host: ':old!u@h NICK :new', ':nick!u@h CHGHOST u2 h2'"""
        if not want or want == self.true_prefix:
            return
        b = self.b
        (nick, rest) = self.true_prefix.split('!', 1)
        (wnick, wrest) = want.split('!', 1)
        if wnick != nick:
            b.irc.feedMsg(b.ircmsgs.IrcMsg(':%s NICK :%s' % (self.true_prefix, wnick)))
            self.true_prefix = '%s!%s' % (wnick, rest)
        if wrest != rest:
            (u, h) = wrest.split('@', 1)
            b.irc.feedMsg(b.ircmsgs.IrcMsg(':%s CHGHOST %s %s' % (self.true_prefix, u, h)))
            self.true_prefix = want
        bot.drain(b)

    def isupport(self, casemapping):
        """the server's 005 line announcing its CASEMAPPING"""
        b = self.b
        b.irc.feedMsg(b.ircmsgs.IrcMsg(':irc.example.org 005 %s CASEMAPPING=%s :are supported by this server'
                                       % (self.true_nick, casemapping)))
        bot.drain(b)

    def target(self, inp):
        """a private message is addressed to the bot's current nick"""
        return self.true_nick if inp['target'] == 'test' else inp['target']

    def run(self, inp, T):
        b = self.b
        self.isupport('rfc1459')
        b.callbacks.IrcObjectProxy._mores.clear()
        self.vp.VtLong.TEXT = inp['text']
        kw = dict(inp['kw'])
        shape = inp.get('shape', 'reply')
        if shape == 'action':
            kw['action'] = True
        if shape == 'nested':
            self.vp.VtLong.KW = dict(inp.get('kwinner', {}))
            self.vp.VtLong.KW2 = kw
        else:
            self.vp.VtLong.KW = kw
            self.vp.VtLong.KW2 = {}
        del self.spy[:]
        chan = inp['target'] != 'test'
        cmd = {'reply': 'vtlong', 'action': 'vtlong', 'error': 'vterr', 'nested': 'vtarg [vtlong]'}[shape]
        pre = inp.get('pre')
        if pre and shape in ('reply', 'action'):
            # two replies in ONE command invocation (same proxy object): the first one unchecked
            cmd = 'vttwo'
            self.vp.VtLong.TEXT0 = pre['text']
            self.vp.VtLong.KW0 = dict(pre['kw'])
        b.ircutils.wrap = self.spy_wrap
        import signal

        def _alarm(signum, frame):
            HANGS[0] += 1
            raise RuntimeError('the reply did not return within 10 s (a loop that never ends, e.g. byteTextWrap with a size below 4)')
        old_handler = signal.signal(signal.SIGALRM, _alarm)
        signal.alarm(10)
        try:
            first = bot.feed(b, inp['prefix'], self.target(inp), ('@' if chan else '') + cmd)
        finally:
            signal.alarm(0)
            signal.signal(signal.SIGALRM, old_handler)
            b.ircutils.wrap = self.real_wrap
        who = {'A': inp['prefix'], 'B': inp.get('prefixB'), 'C': inp.get('prefixC')}
        owner = inp.get('owner', 'A')
        stored = b.callbacks.IrcObjectProxy._mores.get(who[owner].split('!', 1)[1])
        stored = None if stored is None else list(stored)
        if inp.get('isupport_between'):
            self.isupport(inp['isupport_between'])
        anick = inp['prefix'].split('!', 1)[0]
        steps = []        # (who, nick argument or None, code, messages)

        def do(w, nickarg):
            txt = ('@more' if chan else 'more') + ((' "%s"' % nickarg) if nickarg else '')
            bt = bot.feed(b, who[w], self.target(inp), txt)
            code, real = more_code(bt, T)
            steps.append((w, nickarg, code, real))
            return code
        for w, kind in inp.get('actions', []):
            do(w, inp.get('nickref', anick) if kind == 'moreA' else None)
        for _ in range(MAX_MORES):      # the owner of the stack pages through the rest
            if do(owner, None) != 'sent':
                break
        return first, stored, steps, list(self.spy), T


def more_code(bt, T):
    """what a `more` call answered: ('sent', messages) or an error code"""
    real = [m for m in bt if m.command in ('PRIVMSG', 'NOTICE')]
    texts = [m.args[-1] for m in real]
    for code in ('nomore', 'notasked', 'nopublic', 'cantfind'):
        if any(re.search(T[code], t) for t in texts):
            return code, []
    if not real: return 'nothing', []
    if any(T['errp'] in t for t in texts): return 'error', []
    return 'sent', real


def live():
    global _live
    if _live is None:
        _live = Live()
    return _live


def enc_msg(m):
    plain = '%s %s :%s\r\n' % (m.command, m.args[0], m.args[1])
    sent = str(m)
    return '%s:%s:%s:%s' % (wire.enc(m.command), wire.enc(m.args[0]), wire.enc(m.args[1]),
                            '' if sent == plain else wire.enc(sent))


def enc_msgs(ms):
    ms = list(ms)
    return '-' if not ms else ','.join(enc_msg(m) for m in ms)


def optb(v):
    return '~' if v is None else ('1' if v else '0')


def eff_to(inp):
    """self.to when the final reply is built: the nested command's `to`, else this call's"""
    if inp.get('shape') == 'nested' and inp.get('kwinner', {}).get('to'):
        return inp['kwinner']['to']
    return inp['kw'].get('to')


def eff_flag(inp, k):
    return bool(inp['kw'].get(k) or (inp.get('shape') == 'nested' and inp.get('kwinner', {}).get(k)))


def call_fields(L, inp, kw_override=None):
    """the raw call (keywords, message, configuration tables) for the model; everything that depends on the
    bot's state (is it a channel, is the nick known) is asked to the real code BEFORE the command runs"""
    b = L.b
    irc = b.irc
    iu = b.ircutils
    cfg = inp['cfg']
    kw = dict(inp['kw'])
    if inp.get('shape') == 'action':
        kw['action'] = True
    if kw_override is not None:
        kw = dict(kw_override)
    nick = inp['prefix'].split('!', 1)[0]
    target = L.target(inp)

    def pub(x):
        return bool(irc.isChannel(irc.stripChannelPrefix(x)))
    to = eff_to(inp) if kw_override is None else kw.get('to')
    tohm = None
    if to:
        try:
            tohm = irc.state.nickToHostmask(to)
        except KeyError:
            tohm = None

    def vals(d):
        return [optb(d.get(k, CONF_DEFAULTS[k])) if isinstance(CONF_DEFAULTS[k], bool) else str(d.get(k, CONF_DEFAULTS[k]))
                for k in CONF_KEYS]

    def kwf(d):
        return [wire.enc_opt(d.get('to')), optb(d.get('notice')), optb(d.get('private')), optb(d.get('prefixNick')),
                optb(d.get('action')), optb(d.get('noLengthCheck'))]
    ch = cfg.get('chan'); net = cfg.get('net'); nch = cfg.get('netchan')
    nested = inp.get('shape') == 'nested'
    stripped = irc.stripChannelPrefix(target)
    # the prefix the MODEL sizes with is the bot's BELIEF (irc.prefix); the oracle measures with the truth
    return [wire.enc(irc.prefix), wire.enc(inp['prefix']), wire.enc(nick), wire.enc(target),
            wire.enc_opt(stripped if pub(target) else None)] + kwf(kw) + [optb(nested)] + \
           kwf(inp.get('kwinner', {}) if nested else {}) + \
           [wire.enc_opt(irc.stripChannelPrefix(to) if to is not None else None),
            optb(pub(to) if to is not None else False), optb(pub(nick)), optb(pub(target)),
            optb(bool(iu.isChannel(to)) if to else False), optb(bool(iu.isChannel(target))),
            optb(bool(iu.isNick(to)) if to else False), wire.enc_opt(tohm), '1', wire.enc(cfg.get('lang', 'en')),
            optb(cfg.get('noticewhenprivate', True))] + vals(cfg) + \
           [wire.enc_opt(ch['name'] if ch else None)] + vals(ch['vals'] if ch else {}) + \
           [wire.enc_opt('net' if net else None)] + vals(net or {}) + \
           [wire.enc_opt(nch['name'] if nch else None)] + vals(nch['vals'] if nch else {})


MAX_WIRE = 512


def live_case(I, L, inp, kind='live'):
    """run one reply (+ mores) on the live bot; return (Case, phase-1 driver line, phase-2 builder, combiner)"""
    b = L.b
    inp['cfg'].setdefault('from_botprefix', L.true_prefix)     # for replays: where the bot came from
    T = L.configure(inp['cfg'])
    call = call_fields(L, inp)
    kwto = eff_to(inp)
    if kwto and b.ircutils.isNick(kwto):
        try:
            # the stack is stored under the hostmask the bot knows for `to`: that user pages through it
            inp['prefixB'] = b.irc.state.nickToHostmask(kwto)
            inp['owner'] = 'B'
            inp.pop('actions', None)
        except KeyError:
            inp.pop('owner', None)
    has_pre = bool(inp.get('pre')) and inp.get('shape', 'reply') in ('reply', 'action')
    pre_call = call_fields(L, inp, kw_override=inp['pre']['kw']) if has_pre else None
    hangs_before = HANGS[0]
    try:
        first, stored, steps, spy, T = L.run(inp, T)
        if HANGS[0] > hangs_before:
            raise RuntimeError('the reply did not return within 10 s (a loop that never ends, e.g. byteTextWrap with a size below 4)')
    except RuntimeError as e:
        # the command never came back (alarm): reported as a failing input, nothing to compare
        case = Case(inp, impl=None, oracle_ok=False, oracle_msg=str(e), kind=kind, tags=('live', 'live:hang'))
        return case, 'clear', (lambda p: ['clear']), (lambda p, o: None)
    pre_msgs = []
    if has_pre:
        # the first reply of the invocation: one unchecked message, then the reply under test
        pre_msgs, first = first[:1], first[1:]
    cfg = inp['cfg']
    shape = inp.get('shape', 'reply')
    owner = inp.get('owner', 'A')
    text = inp['text'][:cfg['nestedmax']] if shape == 'nested' else inp['text']
    safe = b.ircutils.safeArgument(text)
    safe_full = b.ircutils.safeArgument(inp['text'])
    is_msg = lambda m: m.command in ('PRIVMSG', 'NOTICE')
    fails = []
    tags = ['live', 'live:chan' if inp['target'] != 'test' else 'live:private', 'live:shape-' + shape]
    if cfg.get('lang', 'en') != 'en': tags.append('live:lang-' + cfg['lang'])
    if cfg.get('chan'): tags.append('live:channel-values')
    # effective values, for the oracle only (the model does its own lookups)
    lookup_target = eff_to(inp) if (eff_flag(inp, 'private') and eff_to(inp)) else L.target(inp)
    grp = L.groups()
    eff = dict((k, b.conf.get(grp[k], channel=lookup_target, network=b.irc.network)) for k in CONF_KEYS)
    if cfg.get('net') or cfg.get('netchan'): tags.append('live:network-values')
    if L.target(inp)[:1] in '@+' and L.target(inp)[1:2] == '#': tags.append('live:statusmsg-target')
    if shape == 'nested' and inp.get('kwinner'): tags.append('live:nested-keywords')
    unchecked = shape == 'action' or eff_flag(inp, 'action')
    suffix_re = re.compile(r' \x02\((\d+) (%s|%s)\)\x02$' % (re.escape(T['sing']), re.escape(T['plur'])))
    # ---- canonical implementation output
    parts = []
    if has_pre:
        tags.append('live:two-replies-one-invocation')
        parts.append('pre\t' + enc_msgs(pre_msgs))
        pk = inp['pre']['kw']
        want_pre = ('\x01ACTION %s\x01' % inp['pre']['text']) if pk.get('action') else inp['pre']['text']
        if len(pre_msgs) != 1 or not pre_msgs[0].args[1].endswith(want_pre):
            fails.append((None, 'the first reply of the invocation came out as %r' % [str(m) for m in pre_msgs]))
    if inp['kw'].get('sendImmediately'): tags.append('live:sendImmediately')
    if inp.get('isupport_between'): tags.append('live:005-casemapping-between')
    if any(ch in inp['prefix'] for ch in '~[]\\'): tags.append('live:rfc1459-special-requester')
    if unchecked:
        parts.append('unchecked')
    elif shape == 'error':
        parts.append(shape)
    elif spy:
        s1, wl, _ = spy[0]
        parts.append('chunked\t%s\t%d' % (wire.enc(s1), max(wl, 0)))     # a negative length is clamped like 0
    else:
        s1 = None
        parts.append('single')
    if shape == 'error':
        parts.append(enc_msgs(first) if first else 'nothing')
    else:
        parts.append('sent\t%s\t%s' % (enc_msgs(first), '~' if stored is None else enc_msgs(stored)))
    delivered = list(first)        # the stream of the owner of the stack (and of whoever shares his user@host)
    mates = ('A', 'C') if owner == 'A' else ('B',)
    for (w, nickarg, code, real) in steps:
        parts.append('sent\t' + enc_msgs(real) if code == 'sent' else code)
        if w in mates and code == 'sent':
            delivered += real
    impl = '\n'.join(parts)
    # ---- the other caller: `more <A>` must give him, in order, what A had not been given yet, and
    #      must not take anything away from A (checked below on A's own stream)
    bsegs = []
    if inp.get('actions') and owner == 'A':
        tags.append('live:two-callers')
        pos = None
        got_a = len(first)
        a_private = not b.irc.isChannel(b.irc.stripChannelPrefix(L.target(inp))) or eff_flag(inp, 'private')
        for (w, nickarg, code, real) in steps:
            if w in ('A', 'C'):
                got_a += len(real)
                if w == 'C': tags.append('live:same-hostmask')
                continue
            if nickarg:
                tags.append('live:more-nick')
                if stored is None:
                    if code not in ('cantfind', 'nopublic'):
                        fails.append((None, 'B: more %s although nothing was stored answered %s' % (nickarg, code)))
                    continue
                if a_private:
                    if code != 'nopublic':
                        fails.append((None, 'B: more %s on a private reply answered %s' % (nickarg, code)))
                    tags.append('live:no-public-mores')
                    continue
                pos = got_a
            if pos is None:
                if code != 'notasked':
                    fails.append((None, 'B: more without a reply of his own answered %s' % code))
                continue
            bsegs.append((pos, [enc_msg(m) for m in real], code))
            pos += len(real)
    if owner == 'B':
        tags.append('live:stored-under-to')
    # ---- property oracle on the implementation
    n = len(delivered)
    true_prefix = L.true_prefix
    if b.irc.prefix != true_prefix: tags.append('live:belief-differs')
    wirelens = [blen(':%s %s' % (true_prefix, str(m))) for m in delivered]
    evaluated = True
    if not first or not all(is_msg(m) for m in delivered):
        fails.append((None, 'the command produced %r' % [str(m) for m in first]))
    elif unchecked or shape == 'error':
        shape_eff = 'error' if shape == 'error' else 'action'
        # not length-checked by the code: one message, cut by Irc._truncateMsg when too long
        m = first[0]
        cut = str(m) != '%s %s :%s\r\n' % (m.command, m.args[0], m.args[1])
        if len(first) != 1:
            fails.append((None, '%s reply produced %d messages' % (shape, len(first))))
        if cut or wirelens[0] > MAX_WIRE:
            fails.append((F_UNCHECKED, '%s reply of %d bytes is one message: relayed line %d bytes, cut by the bot: %s'
                          % (shape_eff, blen(safe), wirelens[0], cut)))
            tags.append('class:' + F_UNCHECKED)
        want = (T['errp'] + safe) if shape_eff == 'error' else ('\x01ACTION %s\x01' % safe.strip('\x01'))
        body = m.args[1]
        if not body.endswith(want):
            fails.append((None, '%s reply carries %r, expected …%r' % (shape, body[-80:], want[-80:])))
    elif not eff['mores'] and blen(safe) > 0:
        tags.append('live:mores-off')
        evaluated = (len(first) == 1 and wirelens[0] <= MAX_WIRE)   # reply.mores off: the operator's choice
        if len(first) != 1:
            fails.append((None, 'reply.mores off: %d messages' % len(first)))
    else:
        tgt = delivered[0].args[0]
        np = ''
        to = eff_to(inp) or inp['prefix'].split('!', 1)[0]
        if delivered[0].args[1].startswith(to + ': ') and b.irc.isChannel(b.irc.stripChannelPrefix(tgt)):
            np = to + ': '
            tags.append('live:nickprefix')
        if delivered[0].command == 'NOTICE': tags.append('live:notice')
        frame = wirelens[0] - blen(delivered[0].args[1]) + blen(np)
        if eff['length'] == 0:
            allowed = MAX_WIRE - frame
            limit = MAX_WIRE
        else:
            allowed = eff['length']
            limit = max(MAX_WIRE, frame + allowed) if frame + allowed > MAX_WIRE else MAX_WIRE
            if spy and spy[0][1] < 4 + 12:
                # the length leaves (almost) nothing after the suffix reserve: lines have byteTextWrap's minimum
                # of 4 bytes plus reserve and formatting, which may exceed the configured length (never 512 here)
                tags.append('live:length-leaves-no-room')
                limit = MAX_WIRE
            tags.append('live:explicit-length')
            if frame + allowed > MAX_WIRE: tags.append('live:length-makes-512-impossible')
        over = [(w, m) for w, m in zip(wirelens, delivered) if w > limit]
        if over:
            cl = None
            if s1 is not None and F_COMMA in classify_wrap(I, s1, spy[0][1]): cl = F_COMMA
            fails.append((cl, 'relayed line has %d bytes (limit %d): %r' % (over[0][0], limit, ':%s %s' % (true_prefix, str(over[0][1])))))
        # counts and text
        texts = []
        for k, m in enumerate(delivered):
            p = m.args[1]
            if m.args[0] != tgt or m.command != delivered[0].command:
                fails.append((None, 'message %d goes to %s %s, the first one to %s %s' % (k, m.command, m.args[0], delivered[0].command, tgt)))
            if not p.startswith(np):
                fails.append((None, 'message %d lacks the nick prefix %r: %r' % (k, np, p)))
            p = p[len(np):]
            mm = suffix_re.search(p)
            remaining = n - 1 - k
            if remaining == 0:
                if mm and n > 1:
                    fails.append((None, 'last message still announces %s more: %r' % (mm.group(1), p)))
            else:
                if not mm or int(mm.group(1)) != remaining or ((mm.group(2) == T['plur']) != (remaining > 1) and T['plur'] != T['sing']):
                    fails.append((None, 'message %d of %d announces %r, %d remain' % (k + 1, n, mm.group(0) if mm else None, remaining)))
                if mm:
                    p = p[:mm.start()]
            texts.append(p)
        want_src = safe[:allowed * eff['maximum']] if len(safe) > allowed * eff['maximum'] else safe
        if len(safe) > allowed * eff['maximum']: tags.append('live:truncated')
        if shape == 'nested' and len(inp['text']) > cfg['nestedmax']: tags.append('live:nested-truncated')
        want = I.visible(I.munge(want_src)) if (n > 1 or spy) else I.visible(want_src)
        if not want_src.strip('\x01') and n == 1:
            want = T['empty']
        got = ''.join(I.visible(t) for t in texts)
        if n >= 1 and n == eff['maximum'] and got != want and want.startswith(got) and spy:
            tags.append('live:cut-to-maximum-chunks')      # chunks[:maximumMores]: the rest of the text is dropped
            got = want
        if got != want:
            cl = None
            if s1 is not None:
                cls = classify_wrap(I, s1, spy[0][1])
                cl = F_CUT if F_CUT in cls else (F_COMMA if F_COMMA in cls else None)
            fails.append((cl, 'visible text delivered %r differs from the reply %r' % (got[:300], want[:300])))
        # batch sizes
        exp_first = min(max(eff['instant'], 1), n)
        if len(first) != exp_first and n > 0 and spy:
            fails.append((None, 'first answer has %d messages, instant=%d, %d chunks' % (len(first), eff['instant'], n)))
        if n > eff['maximum']:
            fails.append((None, '%d messages for reply.mores.maximum=%d' % (n, eff['maximum'])))
        # after the last chunk, more says there is no more
        ocodes = [code for (w, nickarg, code, real) in steps if w == owner]
        if spy and len(ocodes) < MAX_MORES and (not ocodes or ocodes[-1] not in ('nomore', 'notasked')):
            fails.append((None, 'more after the last chunk answered %r' % (ocodes[-1:],)))
    full = [enc_msg(m) for m in delivered]
    for (pos, got, code) in bsegs:
        want = full[pos:pos + len(got)] if got else []
        if got != want or (code == 'nomore' and pos < len(full)) or (code == 'sent' and not got):
            fails.append((None, 'the other caller, after more <nick> at position %d of %d, was given %s instead of the '
                          'requester\'s messages %d.. (the requester\'s own stream has %d messages)'
                          % (pos, len(full), code if not got else '%d messages not matching' % len(got), pos, len(full))))
            break
    if spy:
        tags.append('live:chunked')
        tags.append('live:chunks%s' % ('1' if n == 1 else '2-5' if n <= 5 else '6-20' if n <= 20 else '21+'))
        for c in classify_wrap(I, spy[0][0], spy[0][1]): tags.append('class:' + c)
        if eff['instant'] > 1: tags.append('live:instant')
        if cfg['batch'] > 1: tags.append('live:batch')
        if any(ord(c) > 127 for c in inp['text']): tags.append('live:multibyte')
        if '\x03' in inp['text']: tags.append('live:colour')
    elif shape in ('reply', 'nested'):
        tags.append('live:single')
    for k in ('private', 'notice', 'to'):
        if inp['kw'].get(k): tags.append('live:kw-' + k)
    ok, msg, finding = settle(fails)
    if not evaluated and ok:
        ok = None
    case = Case(inp, impl=impl, oracle_ok=ok, oracle_msg=msg, finding=finding, kind=kind, tags=tags)
    nested = str(cfg['nestedmax']) if shape == 'nested' else '~'
    if shape == 'error':
        prep_line = 'error\t%s\t%s' % (wire.enc(safe_full), '\t'.join(call))
    else:
        prep_line = 'prep\t%s\t%s\t%s' % (wire.enc(safe_full), nested, '\t'.join(call))
    prefixes = {'A': inp['prefix'], 'B': inp.get('prefixB'), 'C': inp.get('prefixC')}

    def phase2(prep_out):
        if shape == 'error':
            lines = ['clear']
        else:
            f = prep_out.split('\t')
            if len(f) == 3 and f[2] == '0':
                ch = I.chunks(wire.dec(f[1]))
            else:
                ch = []
            lines = ['clear']
            if has_pre:
                lines.append('reply\t%s\t-\t~\t%s' % (wire.enc(inp['pre']['text']), '\t'.join(pre_call)))
            lines.append('reply\t%s\t%s\t%s\t%s' % (wire.enc(safe_full), wire.enc_list(ch), nested, '\t'.join(call)))
        for (w, nickarg, code, real) in steps:
            lines.append('more\t%d\t%s\t%s' % (cfg['batch'], wire.enc(prefixes[w].split('!', 1)[1]), wire.enc_opt(nickarg)))
        return lines

    def combine(prep_out, outs):
        if shape == 'error':
            return '\n'.join(['error', prep_out] + outs[1:])
        pre_part = []
        if has_pre:
            fp = outs[1].split('\t')     # outs: clear, pre reply, reply, more*
            pre_part = ['pre\t' + (fp[1] if len(fp) > 1 else outs[1])]
            outs = [outs[0]] + outs[2:]
        f = outs[1].split('\t')     # outs: clear, reply, more*
        if f[0] == 'sent' and len(f) == 5:
            if unchecked:
                head = 'unchecked'
            else:
                head = 'single' if f[3] == '~' else 'chunked\t%s\t%s' % (prep_out.split('\t')[1], f[3])
            # what is stored is looked up by the harness under the owner's hostmask
            own = prefixes[owner].split('!', 1)[1]
            stored_m = f[2] if (f[2] == '~' or wire.dec(f[4]).lower() == own.lower()) else '~'
            return '\n'.join(pre_part + [head, 'sent\t%s\t%s' % (f[1], stored_m)] + outs[2:])
        return '\n'.join(pre_part + [prep_out] + outs)
    return case, prep_line, phase2, combine


def gen_live_input(r, thorough=False):
    cfg = {}
    cfg['length'] = 0 if r.random() < 0.55 else r.choice([r.randint(64, 200), r.randint(64, 200), r.randint(1, 63)])
    cfg['maximum'] = r.choice([1, 2, 3, 5, 10, 50, 50, 50, 60])
    cfg['instant'] = r.choice([1, 1, 1, 2, 3, 4])
    cfg['batch'] = r.choice([1, 1, 1, 2, 3])
    cfg['nickprefix'] = r.random() < 0.6
    cfg['withnotice'] = r.random() < 0.15
    cfg['inprivate'] = r.random() < 0.1
    cfg['noticewhenprivate'] = r.random() < 0.8
    cfg['errnotice'] = r.random() < 0.2
    cfg['errprivate'] = r.random() < 0.15
    cfg['mores'] = r.random() >= 0.05
    cfg['lang'] = 'en' if r.random() < 0.8 else r.choice(['fr', 'de', 'fi', 'it'])
    hl = r.randint(20, 90)
    user = 'u' * r.randint(1, 10)
    host = ('h' * 70)[:max(1, hl - len('test!') - len(user) - 1)]
    botnick = r.choice(['test'] * 5 + ['Test', 'TEST', 'tst', 'test_with_a_longer_nick', 'limnoria[bot]'])
    cfg['botprefix'] = '%s!%s@%s' % (botnick, user, host)
    if r.random() < 0.35:
        cfg['keep_userhost'] = True
    nick = r.choice(['al', 'alice', 'Bob_', 'n' * 16, 'x' * 30, 'zoé' if r.random() < 0.3 else 'carol', 'Al[i]ce'])
    ident = r.choice(['id' * r.randint(1, 4)] * 3 + ['~al', '~Bob', 'a[b]c', 'x\\y~'])
    prefix = '%s!%s@%s' % (nick, ident, r.choice(['host', 'a.b.c.example.org', 'h' * 40, 'Host[1].example']))
    target = r.choice(['#c', '#chan', '#' + 'c' * 30, '#ünï', 'test', 'test', '@#chan', '+#c'])
    prefixB = '%s!%s@%s' % (r.choice(['bob', 'B[o]b', 'robert_']), r.choice(['bo', 'rob']), r.choice(['host.b', 'b.example.org']))
    kw = {}
    k = r.random()
    if k < 0.1: kw['private'] = True
    elif k < 0.2: kw['notice'] = True
    elif k < 0.3: kw['to'] = r.choice(['dave', 'e' * 25, '#other', prefixB.split('!')[0], prefixB.split('!')[0]])
    elif k < 0.35: kw['prefixNick'] = not cfg['nickprefix']
    elif k < 0.38: kw.update(private=True, to=r.choice(['#other', 'dave']))
    shape = r.choice(['reply'] * 14 + ['error', 'error', 'action', 'action', 'nested', 'nested', 'nested'])
    kwinner = {}
    if shape == 'error':
        kw = {}
    if shape == 'nested':
        # keywords of the nested command's reply leak into the outer reply
        k2 = r.random()
        if k2 < 0.12: kwinner['private'] = True
        elif k2 < 0.24: kwinner['notice'] = True
        elif k2 < 0.34: kwinner['to'] = r.choice(['dave', '#other', prefixB.split('!')[0]])
        elif k2 < 0.42: kwinner['prefixNick'] = r.random() < 0.5
        elif k2 < 0.48: kwinner['action'] = True
        if r.random() < 0.5:
            kw = {}
    if shape == 'nested':
        cfg['nestedmax'] = r.choice([50, 300, 2000, 512 * 256])
    if r.random() < 0.25:
        # values set for one channel: the channel of the message, the channel given with to=, or another one
        vals = {'length': r.choice([0, 0, r.randint(64, 200), r.randint(1, 63)]), 'maximum': r.choice([1, 3, 50]), 'instant': r.choice([1, 2]),
                'nickprefix': r.random() < 0.5, 'withnotice': r.random() < 0.5, 'inprivate': r.random() < 0.2,
                'mores': r.random() >= 0.1, 'errnotice': r.random() < 0.5, 'errprivate': r.random() < 0.3}
        cfg['chan'] = {'name': r.choice([target if target.startswith('#') else '#chan', '#other', '#elsewhere']), 'vals': vals}
    if r.random() < 0.12:
        def some_vals():
            return {'length': r.choice([0, 0, r.randint(64, 200), r.randint(20, 63)]), 'maximum': r.choice([2, 7, 50]), 'instant': r.choice([1, 3]),
                    'nickprefix': r.random() < 0.5, 'withnotice': r.random() < 0.5, 'inprivate': r.random() < 0.2,
                    'mores': True, 'errnotice': r.random() < 0.5, 'errprivate': r.random() < 0.3}
        k3 = r.random()
        if k3 < 0.6: cfg['net'] = some_vals()
        if k3 > 0.4: cfg['netchan'] = {'name': r.choice([target if target.startswith('#') else '#chan', '#other']), 'vals': some_vals()}
    width = (cfg['length'] or 400)
    if cfg.get('chan') and cfg['chan']['name'] == target and cfg['chan']['vals']['length']:
        width = cfg['chan']['vals']['length']
    want_chunks = r.choice([1, 1, 2, 3, 4, 6, 10, 20, 40, 60])
    if cfg['length'] == 0:
        want_chunks = min(want_chunks, 14 if not thorough else 60)
    fmt = r.choice([0.0, 0.0, 0.05, 0.2, 0.5])
    target_bytes = max(1, int(width * want_chunks * r.uniform(0.5, 1.1)))
    words = []
    size = 0
    style = r.choice(['mixed', 'mixed', 'ascii', 'multibyte', 'unbreakable'])
    while size < target_bytes:
        if style == 'unbreakable':
            w = gen_word(r, fmt, 0.5)
        elif style == 'ascii':
            w = r.choice(['word', 'a', 'hello', 'the', 'x1', '42', 'semi-colon'])
            if fmt and r.random() < fmt: w = gen_code(r) + w
        elif style == 'multibyte':
            w = r.choice(['中文字', 'été', '😀', 'ß', 'λx', '中'])
            if fmt and r.random() < fmt: w = gen_code(r) + w
        else:
            w = gen_word(r, fmt, 0.02)
        bl = r.choice(BLANKS[:6])
        words.append(w + bl)
        size += blen(w + bl)
    text = ''.join(words)
    if r.random() < 0.5: text = text.rstrip()
    if r.random() < 0.03: text = '\x01' + text
    if r.random() < 0.02: text = text[:len(text) // 2] + '\n' + text[len(text) // 2:]
    if shape != 'reply':
        # safeArgument (repr) is a parameter of the model, applied by the harness to the text alone
        text = text.replace('\n', ' ')
    inp = {'cfg': cfg, 'prefix': prefix, 'target': target, 'kw': kw, 'text': text or 'x', 'prefixB': prefixB}
    if kwinner:
        inp['kwinner'] = kwinner
    if shape != 'reply':
        inp['shape'] = shape
    if r.random() < 0.3:
        # a 005 (this network reconnecting, or another network) announcing a CASEMAPPING arrives between the first
        # message of the reply and the `more` commands
        inp['isupport_between'] = r.choice(['ascii', 'ascii', 'strict-rfc1459', 'rfc1459'])
    if shape in ('reply', 'action') and r.random() < 0.15:
        kw['sendImmediately'] = True       # irc.sendMsg: the fast queue of Irc.takeMsg
    if shape == 'reply' and r.random() < 0.15:
        # an earlier reply in the same command invocation, not length-checked (action / noLengthCheck)
        pk = r.choice([{'action': True}, {'noLengthCheck': True}, {'action': True, 'prefixNick': False}])
        if kw.get('sendImmediately'):
            pk = dict(pk, sendImmediately=True)
        inp['pre'] = {'text': r.choice(['waves', 'one moment', 'is thinking']), 'kw': pk}
    if r.random() < 0.45 and 'to' not in kw and 'to' not in kwinner and shape in ('reply', 'nested'):
        # a second caller (other user@host) using `more <A>`, sometimes a third one sharing A's user@host
        inp['prefixC'] = '%s!%s' % (r.choice(['carl', 'al_away']), prefix.split('!', 1)[1])
        if r.random() < 0.3:
            inp['nickref'] = ''.join(c.upper() if c.isascii() else c for c in nick).replace('[', '{') if r.random() < 0.7 else nick
        acts = []
        for _ in range(r.randint(1, 7)):
            k = r.random()
            if k < 0.35: acts.append(['A', 'more'])
            elif k < 0.65: acts.append(['B', 'moreA'])
            elif k < 0.9: acts.append(['B', 'more'])
            else: acts.append(['C', 'more'])
        inp['actions'] = acts
    return inp


def targeted_live_inputs(r, n_sweeps):
    """replies made of ONE unbreakable multi-byte word, long enough to be truncated, so that (a) every chunk but
    the last is as full as the character size allows and (b) the number of chunks has more digits than
    reply.mores.maximum; the bot hostmask length is swept so that the chunk size hits every residue modulo the
    character size (a chunk is exactly full for one of them)."""
    out = []
    for _ in range(n_sweeps):
        ch, maximum = r.choice([('😀', 3), ('😀', 5), ('中', 50), ('😀', 50), ('中', 60), ('é', 60)])
        base = r.randint(20, 80)
        nick = r.choice(['al', 'alice', 'n' * 16])
        size = len(ch.encode('utf-8'))
        for d in range(size + 1):
            cfg = {'length': 0, 'maximum': maximum, 'instant': 1, 'batch': r.choice([1, 3]), 'nickprefix': r.random() < 0.5,
                   'withnotice': False, 'inprivate': False, 'noticewhenprivate': True}
            if d == 0:
                cfg['botprefix'] = 'tst!u@' + 'h' * base
            else:
                # the server changes the bot's nick only: each nick is one byte longer than the previous one
                cfg['botprefix'] = 'test_longer_' + 'x' * d + '!u@h'
                cfg['keep_userhost'] = True
            out.append({'cfg': cfg, 'prefix': '%s!id@host' % nick, 'target': '#chan', 'kw': {},
                        'text': ch * (512 * maximum)})
    return out


class LiveBatch(object):
    def __init__(self):
        self.items = []

    def add(self, item):
        self.items.append(item)

    def cases(self):
        return [it[0] for it in self.items]

    def fill(self):
        preps = wire.run_driver(PROPERTY, [it[1] for it in self.items], timeout=900)
        lines = []
        spans = []
        for it, p in zip(self.items, preps):
            l = it[2](p)
            spans.append(len(l))
            lines += l
        outs = wire.run_driver(PROPERTY, lines, timeout=900)
        i = 0
        for it, p, n in zip(self.items, preps, spans):
            it[0].model = it[3](p, outs[i:i + n])
            i += n


# ---------------------------------------------------------------------------------------------
# corpus / findings
# ---------------------------------------------------------------------------------------------
def corpus_dir():
    return os.path.join(VERIF, 'corpus', PROPERTY)


def load_corpus():
    out = []
    d = corpus_dir()
    if os.path.isdir(d):
        for f in sorted(os.listdir(d)):
            if f.endswith('.json'):
                try:
                    out.append((f, json.load(open(os.path.join(d, f)))))
                except (OSError, ValueError):
                    pass
    return out


def run_input(I, inp, kind, B, LB):
    if inp.get('op') == 'wrap':
        B.add(*wrap_case(I, inp['s'], inp['length'], kind))
    elif 'cfg' in inp:
        LB.add(live_case(I, live(), inp, kind))


def finding_status(I):
    """replay the witness of every listed finding on the real code"""
    st = {}
    for f in verdict.load_findings(PROPERTY):
        w = f.get('witness') or {}
        try:
            if w.get('op') == 'wrap':
                c, _ = wrap_case(I, w['s'], w['length'], 'witness')
            else:
                c = live_case(I, live(), w, 'witness')[0]
            st[f['id']] = (c.oracle_ok is False and c.finding == f['id'], f.get('what_fails', '') + ' — now: ' + (c.oracle_msg or 'no failure')[:200])
        except Exception as e:
            st[f['id']] = (False, 'witness could not be replayed: %r' % (e,))
    return st


# ---------------------------------------------------------------------------------------------
def explore(ctx, n_pure, n_wrap, n_live, stream='c12', with_corpus=True):
    I = Impl()
    r = rng.make(stream)
    B = Batch()
    LB = LiveBatch()
    if with_corpus:
        for name, inp in load_corpus():
            run_input(I, inp, 'corpus', B, LB)
        for f in verdict.load_findings(PROPERTY):
            if f.get('witness'):
                run_input(I, f['witness'], 'witness', B, LB)
    pure_cases(I, r, n_pure, B)
    pure_cases(I, rng.make(stream + '/wrap'), n_wrap, B, kinds=('wrap',))
    if with_corpus and n_live:
        # the table of translations extracted from locales/*.po against what `_()` really returns
        L = live()
        for lang in ['en', 'de', 'fi', 'fr', 'it']:
            T = L.set_lang(lang)
            B.add(Case({'op': 'texts', 'lang': lang}, impl='\t'.join(wire.enc(T[k]) for k in ('sing', 'plur', 'empty', 'errp')),
                       oracle_ok=True, kind='pure-locale', tags=('locale', 'locale:' + lang)), ['texts\t' + wire.enc(lang)])
        L.set_lang('en')
    rl = rng.make(stream + '/live')
    import copy
    for _ in range(n_live):
        if HANGS[0] >= 3:
            break       # the bot hangs again and again (the alarm fired): enough failing inputs
        inp = gen_live_input(rl, ctx.thorough)
        LB.add(live_case(I, live(), inp, 'live'))
        if rl.random() < 0.12:
            # the SAME long reply asked again (and a third time): every delivery must be the same
            for _k in range(rl.choice([1, 2])):
                again = copy.deepcopy(LB.items[-1][0].input)
                again['cfg'].pop('from_botprefix', None)
                LB.add(live_case(I, live(), again, 'live-repeat'))
    for inp in targeted_live_inputs(rng.make(stream + '/targeted'), min(8, max(1, n_live // 350))):
        LB.add(live_case(I, live(), inp, 'live-targeted'))
    return I, B, LB


def run(ctx):
    build = leanbuild.ensure(PROPERTY, THEOREMS, thorough=ctx.thorough, extractors=['Reply'],
                             extra_modules=['LimnoriaModel.C12.LinkC06'])
    if ctx.thorough:
        n_pure, n_wrap, n_live = 300000, 150000, 9000
    else:
        n_pure, n_wrap, n_live = 20000, 10000, 700
    I, B, LB = explore(ctx, n_pure, n_wrap, n_live)
    if build.driver_ok:
        B.fill()
        LB.fill()
    cases = B.cases + LB.cases()

    def search(disagreements, broken):
        os.environ['VERIF_SEED'] = str(ctx.seed + 7919)
        try:
            I2, B2, LB2 = explore(ctx, 20000, 20000, 1500, with_corpus=False)
        finally:
            os.environ['VERIF_SEED'] = str(ctx.seed)
        more = B2.cases + LB2.cases()
        # the disagreeing inputs themselves, evaluated by the oracle alone
        again = [d for d in disagreements if d.oracle_ok is False]
        return again + [c for c in more if c.oracle_ok is False]
    return verdict.conclude(PROPERTY, ctx.tier, ctx.seed, build, cases, search=search, rule=RULE,
                            finding_status=finding_status(I), trusted_base=TRUSTED,
                            assumptions=['Python asserts enabled', 'reply text is a valid Unicode scalar sequence',
                                         'supybot.reply.mores is on; English locale (no translation of the suffix)',
                                         'sizes handed to byteTextWrap are >= 4 (reply.mores.length, when set, leaves at least 4 bytes after the suffix reserve and the formatting overhead)',
                                         'the 512-byte claim is for reply.mores.length = 0 (an explicit length is the operator\'s choice)'],
                            t0=ctx.t0)


def replay(ctx, path):
    d = json.load(open(path))
    c = d.get('case') or d.get('first_disagreement')
    print(json.dumps(c, indent=1, ensure_ascii=True)[:6000])
    if not c:
        return 0
    I = Impl()
    inp = c['input']
    if inp.get('op') == 'wrap':
        case, _ = wrap_case(I, inp['s'], inp['length'], 'replay')
    elif 'cfg' in inp:
        case = live_case(I, live(), inp, 'replay')[0]
    else:
        # pure ops: re-run the real function and show what it returns now
        iu, us = I.ircutils, I.utils.str
        op = inp.get('op')
        try:
            if op == 'munge':
                print('implementation now: munge ->', repr(I.munge(inp['s'])), 'chunks ->', I.chunks(inp['s']))
            elif op == 'split':
                print('implementation now:', safe_call(us.splitBytes, inp['word'].encode(), inp['size']))
            elif op == 'btw':
                print('implementation now:', safe_call(us.byteTextWrap, inp['s'], inp['size']))
            elif op == 'parse':
                p = iu.FormatParser(inp['s']); c = p.parse()
                print('implementation now:', enc_ctx(c), p.max_context_size)
            elif op == 'strip':
                print('implementation now:', repr(iu.stripFormatting(inp['s'])))
            elif op == 'ctx':
                f = inp['ctx'].split(' ')
                c = iu.FormatContext()
                c.fg = None if f[0] == '~' else int(f[0]); c.bg = None if f[1] == '~' else int(f[1])
                c.bold, c.reverse, c.underline = [x == '1' for x in f[2:5]]
                print('implementation now:', repr(c.start(inp['s'])), repr(c.end(inp['s'])), c.size())
        except Exception as e:
            print('implementation now raises %r' % (e,))
        return 0
    print('implementation now: oracle_ok=%s finding=%s %s' % (case.oracle_ok, case.finding, case.oracle_msg))
    print('implementation output:', case.impl[:2000])
    return 0
