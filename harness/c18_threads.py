"""C18, threads — `run()` racing with addEvent/removeEvent/reset from another thread.
The other thread is injected deterministically at the moment the first thread asks for the lock
(the only points where CPython can interleave the critical sections in a way that matters: before
the repair `removeEvent`/`addEvent` touched the dict *before* taking the lock).  The effective order
of the critical sections is replayed on the core model (lean/LimnoriaModel/C18/Threads.lean proves
the invariants for every such order); the oracle checks, at every lock release, that heap names and
dict keys agree and are unique, and that run() never raises."""
import time
from vlib import wire, rng
from vlib.verdict import Case

def enc_name(n):
    if n is None: return '~'
    if isinstance(n, int): return 'N%d' % n
    return 'S' + wire.enc(n)

class HookLock(object):
    """stands in for Schedule.lock: runs the pending hook (the other thread) when asked for"""
    def __init__(self):
        self.hook = None
        self.held = False
    def acquire(self, blocking=True, timeout=-1):
        h, self.hook = self.hook, None
        if h is not None:
            h()
        if self.held:
            # a real threading.Lock would block for ever here (it is not re-entrant and nobody releases it)
            raise LockHeld('the lock is asked for while it is still held: this call would never return')
        self.held = True
        return True
    def release(self):
        self.held = False
    def locked(self):
        return self.held
    def __enter__(self):
        self.acquire()
        return self
    def __exit__(self, *a):
        self.release()
        return False

class LockHeld(Exception):
    pass

class RaceImpl(object):
    def __init__(self, mod, clk, heap_install):
        self.mod = mod; self.clk = clk
        self.fails = []; self.tags = set(); self.opi = -1
        self.log = []; self.picks = []
        self.heap_install = heap_install
        self.F = [self.make_fn(i) for i in range(3)]
        self.idx = dict((id(f), i) for i, f in enumerate(self.F))
        time.time = clk.virtual
        time.sleep = lambda s: None

    def close(self):
        time.time = self.clk.real
        time.sleep = self.clk.real_sleep

    def make_fn(self, i):
        def f(*a, **k):
            self.log.append((self.clk.t, i, [str(x) for x in a]))
        return f

    def fail(self, msg):
        self.fails.append((self.opi, msg))

    def on_pop(self, item, heap):
        self.picks.append(item[1])
        if not (item[0] < self.clk.t):
            self.fail('run() fired %r (due %d) at %d: not due' % (item[1], item[0], self.clk.t))
        if heap and min(x[0] for x in heap) < item[0]:
            self.fail('run() fired %r (due %d) while an event due %d is scheduled' % (item[1], item[0], min(x[0] for x in heap)))

    def state(self):
        S = self.S
        ents = sorted('%d/%s/%s' % (x[0], enc_name(x[1]), wire.enc_list([str(a) for a in x[2]])) for x in S.schedule)
        evs = sorted('%s=P%d' % (enc_name(n), self.idx.get(id(f), 9)) for n, f in S.events.items())
        return '%d|%d\t%s\t%s' % (self.clk.t, S.counter, ';'.join(ents) or '-', ';'.join(evs) or '-')

    def check(self, where):
        """the invariant that must hold whenever the lock is free"""
        S = self.S
        names = [x[1] for x in S.schedule]
        if len(set(names)) != len(names):
            self.fail('%s: a name is scheduled twice: %r' % (where, sorted(map(repr, names))))
        if set(names) != set(S.events.keys()):
            self.fail('%s: heap names %r and dict keys %r differ' % (where, sorted(map(repr, names)), sorted(map(repr, S.events))))

    def one(self, op):
        """run one plain op; -> (observation, model line)"""
        S = self.S
        k = op[0]
        del self.log[:]
        ret = 'ok'
        line = k
        try:
            if k == 'add':
                t = op[2][1] if op[2][0] == 'A' else self.clk.t + op[2][1]
                line = 'add\t%d\t%s%d\t%s\t%s' % (op[1], op[2][0], op[2][1], enc_name(op[3]), wire.enc_list(op[4]))
                r = S.addEvent(self.F[op[1]], t, op[3], args=list(op[4]))
                ret = 'ok:' + enc_name(r)
            elif k == 'remove':
                line = 'remove\t%s' % enc_name(op[1])
                S.removeEvent(op[1])
            elif k == 'reset':
                S.reset()
            elif k == 'run':
                del self.picks[:]
                self.heap_install(self)
                try:
                    S.run()
                except Exception as e:
                    self.fail('run() raised %s: %s (drivers.run would remove the Schedule driver)' % (type(e).__name__, e))
                    raise
                finally:
                    line = 'run\t%s' % (','.join(enc_name(p) for p in self.picks) or '-')
            elif k == 'tick':
                self.clk.t += op[1]
                line = 'tick\t%d' % op[1]
        except AssertionError:
            ret = 'E:assertion'
        except KeyError:
            ret = 'E:keyError'
        logs = ';'.join('%d/%d/%s' % (t, i, wire.enc_list(a)) for t, i, a in self.log) or '-'
        return '%s\t%s\t%s' % (ret, logs, self.state()), line

    def do(self, op):
        """-> list of (observation, model line) in the order the critical sections ran"""
        self.opi += 1
        if op[0] == 'new':
            self.clk.t = op[1]
            self.S = self.mod.Schedule()
            self.S.lock = HookLock()
            return [('ok\t-\t' + self.state(), 'new\t%d' % op[1])]
        if op[0] != 'race':
            r = self.one(op)
            self.check('after %s' % op[0])
            return [r]
        a, b = op[1], op[2]
        out = []
        def other():
            # the other thread gets the lock first: its whole critical section runs now
            self.tags.add('t-injected-%s-into-%s' % (b[0], a[0]))
            saved = list(self.log)
            out.append(self.one(b))
            self.check('at the lock release of the other thread (%s) while %s was about to take the lock' % (b[0], a[0]))
            self.log[:] = saved
            del self.picks[:]
        self.S.lock.hook = other
        ra = self.one(a)
        if self.S.lock.hook is not None:        # `a` never asked for the lock: the other thread runs after it
            self.S.lock.hook = None
            out.append(ra)
            out.append(self.one(b))
            self.tags.add('t-no-lock-taken')
        else:
            # the log of `a` was taken after `b` ran inside it: recompute a's observation state is current
            out.append(ra)
        self.check('after the race %s / %s' % (a[0], b[0]))
        return out


NAMES = ['x', 'y', 'z', None]

def gen_plain(r):
    x = r.random()
    if x < 0.45:
        return ['add', r.randrange(3), r.choice([('R', 0), ('R', 1), ('R', 5), ('A', 990), ('A', 1005)]), r.choice(NAMES), r.choice([[], ['a']])]
    if x < 0.70:
        return ['remove', r.choice(['x', 'y', 'z', 0, 1])]
    if x < 0.95:
        return ['run']
    return ['reset']

def gen_ops(r, maxlen=25):
    ops = [['new', 1000]]
    for _ in range(r.randint(3, maxlen)):
        x = r.random()
        if x < 0.35:
            ops.append(gen_plain(r))
        elif x < 0.55:
            ops.append(['tick', r.choice([1, 3, 6, 20])])
        else:
            ops.append(['race', gen_plain(r), gen_plain(r)])
    ops += [['tick', 30], ['run']]
    return ops

def run_case(ops, kind, mod, clk, heap_install):
    im = RaceImpl(mod, clk, heap_install)
    obs = []; lines = ['prog\t-;-;-']
    try:
        for op in ops:
            try:
                for o, l in im.do(op):
                    obs.append(o); lines.append(l)
            except Exception as e:
                im.fail('%s: %s' % (type(e).__name__, e))
                break
    finally:
        im.close()
    ok = not im.fails
    msg = ''
    if not ok:
        i = im.fails[0][0]
        msg = 'op #%d %r: %s' % (i, ops[i] if i < len(ops) else None, im.fails[0][1])
    c = Case({'thread_ops': ops}, impl='\n'.join(obs), oracle_ok=ok, oracle_msg=msg, tags=tuple(sorted(im.tags)), kind=kind)
    return c, lines
