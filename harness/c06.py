"""C06 — every message handed to the network is exactly one well-formed line.
Correspondence of lean/LimnoriaModel/C06/Model.lean with the real funnels:
 (A) callbacks._makeReply on generated texts/flags/configurations (exact: command, target, payload or AssertionError);
 (B) IrcMsg keyword / msg= constructors + label tag + Irc._truncateMsg + str() (exact serialised line);
 (C) the live bot: every command of the loaded plugins (+ the synthetic VtOut funnels) invoked by a non-owner with
     hostile arguments under several reply configurations; every message returned by Irc.takeMsg() is serialised,
     checked by the property oracle and compared with the model's line for its fields;
 (D) the byte-boundary cut against bytes[:n].decode('utf-8','ignore')."""
import json, os, signal, sys, time
from vlib import wire, rng, leanbuild, verdict, bot, VERIF
from vlib.verdict import Case
import c11

PROPERTY = 'C06'
MANIFEST = {
 'level_text': 'Lean 4 theorems, kernel-checked, about a model of the funnels every outgoing message passes: the IrcMsg keyword constructor with its isValidArgument assertion, IrcMsg.__str__, safeArgument, callbacks._makeReply (all flag/configuration combinations), ircmsgs.privmsg/notice/action, the label tag and Irc._truncateMsg: a message built by the keyword constructor whose prefix, command and tag keys are clean serialises to exactly one line (one CR LF, at the end, no NUL); _makeReply yields such a message or the constructor asserts, for every reply text (any Unicode, any control characters), every flag combination and every configuration; after _truncateMsg the non-tag part has at most 512 UTF-8 bytes (the cut never splits a character) and the line is still well formed. MAX_LINE_SIZE, the characters isValidArgument rejects, how _truncateMsg measures/cuts and the inventory of IrcMsg constructions that bypass the assertion (string branch, msg=) are re-extracted from /repo on every run and enter through table lemmas; model and code are tied by differential runs on _makeReply, on the constructors/truncation and by a sweep of every command of the loaded plugins on a live bot.',
 'level_note': 'Trusted: Lean kernel; harness/extractors/out.py; the correspondence harness; Python repr() is a parameter with the contract "its output contains no CR, LF, NUL" (checked on every use). Modelled and proved: the two funnels every message passes (constructor assertion, takeMsg truncation) and the reply payload construction. Observation point of the live levels: the bytes the real SocketDriver writes to a fake socket after the real Irc.takeMsg (capability sets none / labeled-response / echo-message / message-tags). Exercised, not proved: the bodies of the ~60 plugins (sweep C), the Filter/BadWords outFilter rewriters (level E, each installed through the real command); the msg= form asserts like the plain form since fix 060efef (theorem copy_line), so the only unchecked constructions are from raw strings: an extracted inventory with an allow-list obligation (owner-only Debug.sendquote/Owner.ircquote, the incoming path). Tags are outside the 512-byte bound (as in the property).',
 'technique': 'Lean 4 proof (list induction, case analysis over the reply flags) + table extraction + differential correspondence + live command sweep',
 'design_ref': 'DESIGN.md §6 C06',
}
THEOREMS = ['C06.out_tables_ok', 'C06.ctor_line', 'C06.reply_line', 'C06.reply_never_asserts', 'C06.truncate_bound_bytes', 'C06.truncate_keeps_line',
            'C06.take_line', 'C06.wire_line', 'C06.cut_is_prefix', 'C06.utf8Len_eq', 'C06.copy_without_overrides', 'C06.copy_line', 'C06.copy_refuses_smuggling']
TRUSTED = ['Lean 4.33.0 kernel; axioms ⊆ {propext, Classical.choice, Quot.sound}',
           'harness/extractors/out.py (MAX_LINE_SIZE, isValidArgument characters, _truncateMsg shape, raw-construction inventory → Gen/Out.lean)',
           'harness/c06.py generators + canonicalisation; harness/plugins/VtOut',
           'parameter: repr(s) contains no CR/LF/NUL (instantiated with the real repr, contract checked on every use)',
           'LimnoriaModel.C05.Model (IrcMsg.__str__, tag escaping) as tied to src/ircmsgs.py by check C05']
RULE = ('observation point of (B)(C)(E): the bytes the real SocketDriver writes to a fake socket after the real Irc.takeMsg. (A) 6 configuration bits x optional notice/private/prefixNick/to/action/error/stripCtcp x texts over a hostile alphabet (CR LF NUL \\x01 mIRC codes, '
        '2/3/4-byte characters, empty, long) x channel/private origin; (B) prefix/command/args/tags/label over the same alphabet, lengths up to 900 bytes, '
        'cuts falling inside multi-byte characters; (C) every command of every loaded plugin x hostile argument patterns x reply configurations x '
        'channel/private; (D) random (n, text). Non-trivial = an assertion, a repr, a truncation, a tag, a multi-byte cut or a non-default flag; distinct = distinct input.')

BAD = '\r\n\0'
def py_wf(s):
    return s.endswith('\r\n') and not any(c in BAD for c in s[:-2])
def py_nontag(s):
    if s[:1] == '@' and ' ' in s:
        return s.split(' ', 1)[1]
    return s
def py_bytes(s):
    return len(py_nontag(s).encode('utf-8', 'replace'))
def encodable(s):
    try: s.encode('utf-8'); return True
    except UnicodeEncodeError: return False

def wire_check(data):
    """the property on the bytes the driver wrote: every line ends with CR LF, holds no other CR / LF / NUL, and its
    non-tag part is at most 512 bytes"""
    if not data: return True, ''
    if not data.endswith(b'\r\n'):
        return False, 'the bytes written do not end with CR LF: %r' % data[-40:]
    for seg in data[:-2].split(b'\r\n'):
        if b'\r' in seg or b'\n' in seg or b'\0' in seg:
            return False, 'a line on the wire holds CR/LF/NUL inside: %r' % seg[:200]
        nt = seg.split(b' ', 1)[1] if seg[:1] == b'@' and b' ' in seg else seg
        if len(nt) + 2 > 512:
            return False, 'a line on the wire has a non-tag part of %d bytes: %r…' % (len(nt) + 2, seg[:80])
    return True, ''

class Rig6(c11.Rig):
    """the live bot's Irc behind the real SocketDriver over a fake socket: what is observed is what the driver writes"""
    def __init__(self, b):
        c11.Rig.__init__(self)
        import logging
        self.irc = b.irc
        self.d, _, _, self.st = self.fresh(b.irc)
        b.irc.driver = self.d
        self.taken = []
        orig = b.irc.takeMsg
        def take():
            m = orig()
            # (Irc.takeMsg recurses through this wrapper after an outFilter dropped a message: count once)
            if m is not None and not (self.taken and self.taken[-1] is m): self.taken.append(m)
            return m
        b.irc.takeMsg = take
        for _ in range(3): self.drivers.run()
    def flush(self):
        """run the driver loop until the Irc has nothing more to send; returns (bytes written, messages taken)"""
        n0 = len(self.sock.sent); self.taken = []
        for _ in range(4):
            k = len(self.sock.sent)
            self.drivers.run()
            if len(self.sock.sent) == k and not self.irc.fastqueue and not self.irc.queue: break
        return self.sock.sent[n0:], list(self.taken)
    def set_caps(self, caps):
        ack = self.irc.state.capabilities_ack
        for c in ('labeled-response', 'echo-message', 'message-tags'):
            ack.discard(c)
        for c in caps: ack.add(c)

CAPSETS = [(), (), ('labeled-response',), ('labeled-response', 'echo-message', 'message-tags'), ('message-tags',)]

ALPHA = ['a', 'b', 'Z', '0', ' ', ' ', ':', '#', '\r', '\n', '\0', '\x01', '\x02', '\x03', '04', ',', 'é', 'ß', '中', '€', '😀', '𝔘', '\t', '\\', '"', "'", '\x7f', '\x85', ' ', '﻿']
def gen_text(r, maxlen=14, hostile=0.5):
    k = r.randint(0, 9)
    if k == 0: return ''
    if k == 1: return r.choice(['é', '中', '😀', 'a']) * r.choice([100, 170, 171, 255, 256, 300, 511, 600])
    alpha = ALPHA if r.random() < hostile else ['a', 'b', 'c', ' ', 'é', '中', '😀', ':', '#']
    return ''.join(r.choice(alpha) for _ in range(r.randint(1, maxlen)))

def enc_tags(t):
    return '-' if not t else ','.join(wire.enc(k) + ':' + wire.enc_opt(v) for k, v in t.items())

# ---------------------------------------------------------------- (A) _makeReply
def ob(x): return '~' if x is None else ('1' if x else '0')

def a_cases(b, r, n):
    callbacks = b.callbacks; conf = b.conf; irc = b.irc; im = b.ircmsgs
    cases = []; lines = []
    cfgvars = [conf.supybot.reply.withNotice, conf.supybot.reply.inPrivate, conf.supybot.reply.withNickPrefix,
               conf.supybot.reply.error.withNotice, conf.supybot.reply.error.inPrivate, conf.supybot.reply.withNoticeWhenPrivate]
    saved = [v() for v in cfgvars]
    try:
        for _ in range(n):
            cfg = [r.random() < 0.35 for _ in cfgvars]
            for v, x in zip(cfgvars, cfg): v.setValue(x)
            nick = r.choice(['foo', 'foo', 'Ni^ck', '#weird', 'é'])
            origin = r.choice(['#chan', '#chan', 'test', '+#chan', '&local'])
            m = im.privmsg(origin, 'x', prefix='%s!u@h' % nick)
            irc._tagMsg(m)
            s = gen_text(r)
            kw = {}
            for name in ('prefixNick', 'private', 'notice'):
                if r.random() < 0.4: kw[name] = r.random() < 0.5
            to = None
            if r.random() < 0.35:
                to = r.choice(['bar', '#other', '#chan', 'a b', 'x\ny', 'foo', '', 'é', '\0'])
                kw['to'] = to
            if r.random() < 0.2: kw['action'] = True
            if r.random() < 0.3: kw['error'] = True
            if r.random() < 0.15: kw['stripCtcp'] = False
            def is_public(x):
                try:
                    return bool(irc.isChannel(irc.stripChannelPrefix(x)))
                except Exception:
                    return False
            from supybot import ircutils
            reply_to = ircutils.replyTo(m)
            try:
                ret = callbacks._makeReply(irc, m, s, **kw)
                out = 'ok\t%s\t%s' % (wire.enc(ret.command), wire.enc_list(ret.args))
                line = str(ret)
                ok = py_wf(line)
                msg = '' if ok else '_makeReply(%r, %r) serialises to %r' % (s, kw, line)
            except AssertionError:
                out = 'assert'; ok = True; msg = ''
            raw = ('Error: ' + s) if kw.get('error') else s
            if kw.get('stripCtcp', True): raw = raw.strip('\x01')
            rp = repr(raw)
            if any(c in BAD for c in rp):
                ok = False; msg = 'repr(%r) contains CR/LF/NUL' % raw
            t = []
            if out == 'assert': t.append('assert')
            if any(c in BAD for c in raw): t.append('repr-used')
            for k_ in kw: t.append('kw-' + k_)
            if not raw: t.append('empty-text')
            if not m.channel: t.append('private-origin')
            cases.append(Case({'A': True, 'cfg': cfg, 's': s, 'kw': kw, 'origin': origin, 'nick': nick}, impl=out, oracle_ok=ok,
                              oracle_msg=msg, kind='A-makeReply', tags=tuple(sorted(set(t)))))
            lines.append('\t'.join(['reply', ''.join('1' if x else '0' for x in cfg), wire.enc(s), wire.enc(rp),
                                    ob(kw.get('prefixNick')), ob(kw.get('private')), ob(kw.get('notice')), wire.enc_opt(to),
                                    ob(kw.get('action', False)), ob(kw.get('error', False)), ob(kw.get('stripCtcp', True)),
                                    wire.enc(reply_to), wire.enc(m.nick),
                                    ''.join('1' if is_public(x) else '0' for x in (reply_to, to if to is not None else '', m.nick))]))
    finally:
        for v, x in zip(cfgvars, saved): v.setValue(x)
    return cases, lines

# ---------------------------------------------------------------- (B) constructors + takeMsg + driver
def clean(x): return not any(c in BAD for c in x)

def through_driver(rig, m, caps):
    """sendMsg(m) on the live Irc, let the real driver take and write it; returns (canonical output, bytes, label added)"""
    rig.set_caps(caps)
    rig.irc.sendMsg(m)
    data, taken = rig.flush()
    rig.set_caps(())
    if not taken:
        return 'valueerror', data, None
    s = str(taken[0])
    lab = None
    if 'labeled-response' in caps:
        lab = taken[0].server_tags.get('label')
    return None, data, lab

def b_cases(b, rig, r, n):
    im = b.ircmsgs
    cases = []; lines = []
    for i in range(n):
        pfx = r.choice(['', '', '', 'n!u@h', 'srv', gen_text(r, 5)])
        cmd = r.choice(['PRIVMSG', 'NOTICE', 'JOIN', 'MODE', 'x', gen_text(r, 4) or 'Q'])
        nargs = r.choice([0, 1, 2, 2, 3, 5])
        args = [gen_text(r, 10, hostile=0.25) for _ in range(nargs)]
        if r.random() < 0.3 and args:
            # aim at the 512-byte boundary with multi-byte text
            ch = r.choice(['é', '中', '😀', 'a', '€'])
            args[-1] = r.choice(['', 'x', 'xy', 'xyz']) + ch * r.randint(480 // len(ch.encode()) - 3, 530 // len(ch.encode()) + 3)
        if r.random() < 0.08 and args:
            # lone surrogates (no UTF-8 encoding): what the driver writes for them must fit the size _truncateMsg computed
            args[-1] = r.choice(['x', 'é', '']) * r.randint(380, 470) + r.choice(['\ud800', '\udfff ', ' \udc00']) * r.randint(5, 40) + r.choice(['', ' tail'])
        tags = {}
        for _ in range(r.choice([0, 0, 0, 1, 2])):
            tags[r.choice(['a', '+b', 'msgid', 'k y', 'k\n', 'label'])] = r.choice([None, '', 'v', 'a b;c\\', 'x\r\ny', '\0', 'é'])
        caps = r.choice(CAPSETS)
        try:
            m = im.IrcMsg(prefix=pfx, command=cmd, args=tuple(args), server_tags=dict(tags))
        except AssertionError:
            m = None
        label = None; data = b''
        if m is None:
            out = 'assert'
        else:
            out, data, label = through_driver(rig, m, caps)
            if out is None:
                out = 'line\t%s' % data.hex()
        ok = True; msg = ''
        header_clean = clean(pfx) and clean(cmd) and all(clean(k) for k in tags) and all('\0' not in (v or '') for v in tags.values())
        if m is not None and header_clean:
            ok, msg = wire_check(data)
            if not ok:
                msg = 'IrcMsg(prefix=%r, command=%r, args=%r…, tags=%r) with capabilities %r: %s' % (pfx, cmd, [a[:30] for a in args], tags, caps, msg)
        t = []
        if out == 'assert': t.append('assert')
        if tags or label: t.append('tags')
        if label: t.append('label-added')
        if caps: t.append('caps-' + '+'.join(caps))
        if len(data) >= 500: t.append('near-limit')
        if any(ord(c) > 127 for a in args for c in a): t.append('multibyte')
        transportable = all(encodable(x) for x in [pfx, cmd] + args)
        if not transportable: t.append('lone-surrogate')
        cases.append(Case({'B': True, 'prefix': pfx, 'command': cmd, 'args': [a.encode('utf-8', 'backslashreplace').decode() for a in args] if not transportable else args,
                           'tags': tags, 'caps': list(caps), 'label': label}, impl=out if transportable else None,
                          oracle_ok=ok, oracle_msg=msg, kind='B-ctor', tags=tuple(t)))
        lines.append('\t'.join(['ctor', wire.enc(pfx), wire.enc(cmd), wire.enc_list(args), enc_tags(tags), wire.enc_opt(label)]) if transportable else 'cut\t0\t')
        if i % 6 == 0:
            # the msg= branch: no assertion
            base = im.IrcMsg(prefix='', command='PRIVMSG', args=('#c', 'ok'))
            a2 = [r.choice(['#c', 'n']), gen_text(r, 8)]
            try:
                m2 = im.IrcMsg(msg=base, args=tuple(a2))
                out2, data2, _ = through_driver(rig, m2, ())
                if out2 is None: out2 = 'line\t%s' % data2.hex()
            except AssertionError:
                out2, data2 = 'assert', b''
            ok2, msg2 = wire_check(data2)
            if ok2 and data2.count(b'\r\n') > 1:
                ok2 = False; msg2 = 'one message rebuilt through msg= went out as %d lines: %r' % (data2.count(b'\r\n'), data2[:120])
            cases.append(Case({'B': 'copy', 'args': a2}, impl=out2, oracle_ok=ok2, oracle_msg=msg2, kind='B-copy',
                              tags=('msg=-branch',) + (('assert',) if out2 == 'assert' else ())))
            lines.append('\t'.join(['copy', wire.enc(''), wire.enc('PRIVMSG'), wire.enc_list(['#c', 'ok']), '-', wire.enc(''), wire.enc(''), wire.enc_list(a2)]))
    return cases, lines

def canon_line(o):
    """model answer `line <hex> <wf> <bytes>` -> `line <hex>` (the wire carries exactly the UTF-8 of the line)"""
    f = o.split('\t')
    return 'line\t' + f[1] if f[0] == 'line' else o

# ---------------------------------------------------------------- (D) the cut
def d_cases(r, n):
    cases = []; lines = []
    for _ in range(n):
        s = ''.join(r.choice(['a', 'é', '中', '😀', '€', ' ']) for _ in range(r.randint(0, 12)))
        k = r.randint(0, 30)
        cases.append(Case({'D': True, 'n': k, 's': s}, impl=wire.enc(s.encode()[:k].decode('utf-8', 'ignore')), kind='D-cut',
                          tags=('cut-inside-char',) if s.encode()[:k].decode('utf-8', 'ignore').encode() != s.encode()[:k] else ('cut',)))
        lines.append('cut\t%d\t%s' % (k, wire.enc(s)))
    return cases, lines

# ---------------------------------------------------------------- (C) live sweep
SKIP_PLUGINS = {'Web', 'Internet', 'RSS', 'Google', 'ShrinkUrl', 'Unix', 'Fediverse', 'GPG', 'Geography', 'DDG', 'Dict', 'Debug', 'NickAuth',
                'Aka', 'MessageParser', 'PluginDownloader', 'Poll', 'SedRegex', 'LogToIrc', 'Scheduler', 'Network', 'Protector', 'AutoMode',
                'ChannelLogger', 'Relay', 'Services', 'Nickometer', 'Status', 'Time', 'Limiter', 'Autocomplete', 'Owner'}
ARG_PATTERNS = ['x' * 430 + ' [chr 55296]' * 22, '[chr 56320] ' * 18 + 'y' * 440 + ' tail', 'é' * 180 + ' [chr 55296]' * 30, '"' + '\\ud800' * 120 + '"', '"' + 'a' * 470 + '"', 'é' * 250, '"a\\r\\nQUIT :x"', '"\\n"', '"\\x00"', '"\\x01ACTION x\\x01"', '\x0304red\x03 \x02b\x02', 'é' * 300, '😀' * 140 + ' tail',
                '#c "x\\ny"', 'foo "\\r"', '"\\ud800"', 'a ' * 120, '"\\x0d\\x0a" b', '']
CONFIGS = [{}, {'withNotice': True}, {'inPrivate': True}, {'withNickPrefix': False}, {'error.withNotice': True, 'error.inPrivate': True},
           {'withNoticeWhenPrivate': False}]

class Alarm(Exception): pass
def _alarm(sig, frm): raise Alarm()

def set_cfg(conf, cfg):
    base = {'withNotice': False, 'inPrivate': False, 'withNickPrefix': True, 'error.withNotice': False, 'error.inPrivate': False, 'withNoticeWhenPrivate': True}
    base.update(cfg)
    for k, v in base.items():
        g = conf.supybot.reply
        for part in k.split('.'): g = getattr(g, part)
        g.setValue(v)

def msg_fields_line(m):
    return '\t'.join(['ctor', wire.enc(m.prefix), wire.enc(m.command), wire.enc_list(m.args), enc_tags(m.server_tags), '~'])

def enc_replace(x): return x.encode('utf-8', 'replace')

def invoke(b, rig, text, private, prefix='foo!bar@baz'):
    """say `text` to the bot, let the real driver write the answers; returns (bytes, messages taken) or None on a hang"""
    try:
        signal.alarm(3)
        try:
            im = b.ircmsgs.privmsg('test' if private else '#chan', ('' if private else '@') + text, prefix=prefix)
            rig.irc.feedMsg(im)
            return rig.flush()
        finally:
            signal.alarm(0)
    except Alarm:
        return None
    except UnicodeEncodeError:
        return None

def message_cases(text, cfg, private, caps, data, taken, cases, lines, kind='C-sweep'):
    # per invocation: the property on the bytes of the wire, and "the wire is the encoding of what takeMsg returned"
    ok, msg = wire_check(data)
    if ok:
        want = b''.join(enc_replace(str(m)) for m in taken)
        if data != want:
            ok = False; msg = 'the driver wrote %r… for messages whose encoding is %r…' % (data[:80], want[:80])
    if ok:
        for m in taken:
            if not py_wf(str(m)):
                ok = False; msg = 'one message went out as %d lines (or with CR/LF/NUL inside): %r' % (str(m).count('\n'), str(m)[:200])
                break
    if not ok:
        msg = '%r (capabilities %r, configuration %r) — %s' % (text[:160], caps, cfg, msg)
    cases.append(Case({'C': True, 'text': text, 'cfg': cfg, 'private': private, 'caps': list(caps)}, impl=None, oracle_ok=ok, oracle_msg=msg,
                      kind=kind, tags=('wire',) + (('caps-' + '+'.join(caps),) if caps else ())))
    lines.append('cut\t0\t')
    # per message: the model's line for its fields = what was written for it
    for m in taken:
        s = str(m)
        comparable = encodable(s) and all(encodable(x) for x in m.args) and encodable(m.prefix)
        t = ['cmd-' + m.command]
        if cfg: t.append('cfg-' + '+'.join(sorted(cfg)))
        if private: t.append('private')
        if len(enc_replace(s)) >= 500: t.append('near-limit')
        if 'label' in m.server_tags: t.append('label-added')
        cases.append(Case({'C': 'msg', 'text': text, 'fields': [m.prefix, m.command, list(m.args), dict(m.server_tags)] if comparable else None},
                          impl=('line\t' + enc_replace(s).hex()) if comparable else None, kind=kind, tags=tuple(t)))
        lines.append(msg_fields_line(m) if comparable else 'cut\t0\t')

def c_cases(b, rig, r, budget_s, max_inv):
    irc = b.irc
    cmds = []
    for cb in irc.callbacks:
        if not hasattr(cb, 'listCommands') or cb.name() in SKIP_PLUGINS: continue
        for c in cb.listCommands():
            cmds.append((cb.name(), c))
    cmds.sort()
    r.shuffle(cmds)
    cases = []; lines = []
    t0 = time.time(); inv = 0
    signal.signal(signal.SIGALRM, _alarm)
    seen_cmd = set()
    while inv < max_inv and time.time() - t0 < budget_s and cmds:
        plugin, c = cmds[inv % len(cmds)]
        arg = r.choice(ARG_PATTERNS)
        cfg = r.choice(CONFIGS)
        caps = r.choice(CAPSETS)
        private = r.random() < 0.3
        if plugin == 'VtOut':
            fl = ''.join(r.sample('nNpPaxX', r.randint(0, 3)))
            arg = {'vtreply': (fl or 'z') + ' ', 'vtreplyto': (fl or 'z') + ' ' + r.choice(['bar', '#other', '"a\\nb"']) + ' ',
                   'vtqueue': r.choice(['#c', 'nick', '"a\\nb"']) + ' ', 'vttopic': '#c '}.get(c, '') + arg
        text = '%s %s %s' % (plugin, c, arg)
        inv += 1
        set_cfg(b.conf, cfg)
        rig.set_caps(caps)
        res = invoke(b, rig, text, private)
        rig.set_caps(())
        if res is None:
            continue
        seen_cmd.add((plugin, c))
        message_cases(text, cfg, private, caps, res[0], res[1], cases, lines)
    set_cfg(b.conf, {})
    return cases, lines, {'commands_seen': len(seen_cmd), 'commands_total': len(cmds), 'invocations': inv}

# ---------------------------------------------------------------- (E) the outFilter rewriters (msg= sites)
SMUGGLE = 'x\nQUIT :smuggled'
def e_cases(b, rig, r, per_filter):
    """every filter command a channel op may install as outFilter x hostile texts, installed through the real command"""
    cases = []; lines = []
    filt = b.irc.getCallback('Filter')
    if filt is None:
        return cases, lines, {'outfilters': 0}
    ircdb = b.ircdb
    try:
        ircdb.users.getUserId('op!u@h')
    except KeyError:
        u = ircdb.users.newUser(); u.name = 'vtop'; u.addHostmask('op!u@h'); u.addCapability('#chan,op'); ircdb.users.setUser(u)
    texts = [SMUGGLE.encode().hex(), ''.join('{:08b}'.format(x) for x in b'a\nb'), '-..- .-.-.. --.- ..- .. -', 'plain text', 'é' * 200 + ' x', '\x0304c\x03',
             '"' + SMUGGLE.replace('\n', '\\n') + '"', 'a' * 400, '0a0d00', '00001010']
    signal.signal(signal.SIGALRM, _alarm)
    n = 0
    for cmd in list(filt._filterCommands):
        res = invoke(b, rig, 'filter outfilter #chan %s' % cmd, False, prefix='op!u@h')
        installed = bool(filt.outFilters.get('#chan'))
        for _ in range(per_filter):
            text = 'echo ' + r.choice(texts)
            res = invoke(b, rig, text, False)
            if res is None: continue
            n += 1
            message_cases('[outfilter %s] %s' % (cmd, text), {}, False, (), res[0], res[1], cases, lines, kind='E-outfilter')
        invoke(b, rig, 'filter outfilter #chan', False, prefix='op!u@h')
        filt.outFilters.pop('#chan', None)
    # BadWords: the other rewriter that needs no network
    bw = b.irc.getCallback('BadWords')
    if bw is not None:
        try:
            b.conf.supybot.plugins.BadWords.words.setValue({'darn', 'é'})
            for _ in range(per_filter * 3):
                text = 'echo ' + r.choice(['darn it', 'DARN\x02 x', 'é' * 150, 'a darn ' * 60])
                res = invoke(b, rig, text, False)
                if res is None: continue
                n += 1
                message_cases('[badwords] ' + text, {}, False, (), res[0], res[1], cases, lines, kind='E-outfilter')
        finally:
            b.conf.supybot.plugins.BadWords.words.setValue(set())
    # ShrinkUrl / Google: outFilters fed by what a web service answers (the network is replaced by a hostile answer)
    su = b.irc.getCallback('ShrinkUrl')
    if su is None:
        try:
            su = bot.load_plugin(b, 'ShrinkUrl')
        except Exception:
            su = None
    if su is not None:
        utils = rig.utils
        saved = utils.web.getUrl
        conf = b.conf
        try:
            conf.supybot.plugins.ShrinkUrl.outFilter.setValue(True)
            conf.supybot.plugins.ShrinkUrl.minimumLength.setValue(10)
            for answer in [b'http://tinyurl.com/abc', b'http://tinyurl.com/abc\r\nQUIT :smuggled', b'http://t/\n', b'http://t/\x00x', 'http://t/é'.encode() * 200]:
                utils.web.getUrl = lambda url, *a, **k: answer
                try:
                    su.db.db.clear() if hasattr(su.db, 'db') and hasattr(su.db.db, 'clear') else None
                except Exception:
                    pass
                text = 'echo see http://example.org/a/very/long/url/%d/that/needs/shrinking' % r.randrange(10 ** 9)
                res = invoke(b, rig, text, False)
                if res is None: continue
                time.sleep(0.05)
                d2, t2 = rig.flush()
                n += 1
                message_cases('[shrinkurl answers %r] %s' % (answer[:40], text), {}, False, (), res[0] + d2, res[1] + t2, cases, lines, kind='E-outfilter')
        finally:
            utils.web.getUrl = saved
            conf.supybot.plugins.ShrinkUrl.outFilter.setValue(False)
    # a user-controlled reply cut by a partial send(), then ECONNRESET, then the scheduled reconnect:
    # nothing of the old connection may be the first thing written on the new one
    for _ in range(max(2, per_filter // 2)):
        text = 'echo ' + r.choice(['\x02x\x02 ', 'é', 'QUIT :x ', 'NICK evil ']) * r.randint(5, 60)
        old = rig.sock
        old.script += [('s', r.randint(1, 30)), ('e', 104)]
        try:
            signal.alarm(5)
            try:
                rig.irc.feedMsg(b.ircmsgs.privmsg('#chan', '@' + text, prefix='foo!bar@baz'))
                for _ in range(3): rig.drivers.run()
                rig.offset += 100000
                for _ in range(4): rig.drivers.run()
            finally:
                signal.alarm(0)
        except Alarm:
            continue
        n += 1
        new = rig.sock
        ok = True; msg = ''
        if new is old or not rig.d.connected:
            ok = False; msg = 'after ECONNRESET and the reconnect delay the driver did not reconnect'
        else:
            ok, msg = wire_check(new.sent)
            first = new.sent.split(b'\r\n', 1)[0]
            if ok and not (first.startswith(b'CAP LS') or first.startswith(b'PASS ') or first.startswith(b'NICK ')):
                ok = False; msg = 'the new connection starts with %r instead of the registration (CAP LS / NICK / USER): left-over of the reply cut by the partial send()' % first[:80]
        cases.append(Case({'F': True, 'text': text}, impl=None, oracle_ok=ok, oracle_msg=('%r, send() cut, ECONNRESET, reconnect — ' % text[:60]) + msg if not ok else '',
                          kind='F-reconnect', tags=('reconnect-after-partial-send',)))
        lines.append('cut\t0\t')
        rig.taken = []
        bot.register_welcome  # (the new connection is unregistered; the sweep only needs the Irc to answer commands)
    # Misc.more / Utilities.let: plain copies
    for text in ['echo ' + 'wörd ' * 400, 'more', 'more', 'let x = "a\\nb" in echo $x', 'let x = ' + 'é' * 300 + ' in echo $x $x']:
        res = invoke(b, rig, text, False)
        if res is None: continue
        n += 1
        message_cases('[copy sites] ' + text[:80], {}, False, (), res[0], res[1], cases, lines, kind='E-outfilter')
    return cases, lines, {'outfilter_invocations': n, 'filter_commands': len(filt._filterCommands)}

# ---------------------------------------------------------------- run
_bot = None
def get_bot(thorough):
    names = sorted(d for d in os.listdir('/repo/plugins') if os.path.isdir('/repo/plugins/' + d) and d[0].isupper())
    base = ('Owner', 'Misc', 'User', 'Admin', 'Config', 'Channel', 'Utilities', 'VtOut')
    b = bot.full(plugins=base, plugin_dirs=[os.path.join(VERIF, 'harness', 'plugins')])
    if not getattr(b, '_c06_loaded', False):
        for n in names:
            if n in b.loaded or n in SKIP_PLUGINS: continue
            try:
                bot.load_plugin(b, n)
            except Exception:
                pass
        bot.register_welcome(b)
        b.irc.feedMsg(b.ircmsgs.join('#chan', prefix=b.irc.prefix or 'test!u@h'))
        bot.drain(b)
        b._c06_loaded = True
    return b

_rig = None
def get_rig(b):
    global _rig
    if _rig is None:
        _rig = Rig6(b)
    return _rig

def explore(b, stream, na, nb, nd, budget_c, max_c, per_filter):
    r = rng.make(stream)
    rig = get_rig(b)
    groups = [a_cases(b, r, na) + (None,), b_cases(b, rig, r, nb) + (canon_line,), d_cases(r, nd) + (None,)]
    ec, el, estats = e_cases(b, rig, r, per_filter)
    groups.append((ec, el, canon_line))
    cc, cl, cstats = c_cases(b, rig, r, budget_c, max_c)
    groups.append((cc, cl, canon_line))
    cstats.update(estats)
    return groups, cstats

def run(ctx):
    import threading, warnings
    threading.excepthook = lambda args: None
    warnings.filterwarnings('ignore', category=SyntaxWarning)
    build = leanbuild.ensure(PROPERTY, THEOREMS, thorough=ctx.thorough, extractors=['Out', 'IrcMsgs'])
    b = get_bot(ctx.thorough)
    scale = 12 if ctx.thorough else 1
    groups, cstats = explore(b, 'c06', 6000 * scale, 5000 * scale, 3000 * scale, 40 * scale, 8000 * scale, 6 * scale)
    cases = []
    for cs, ls, canon in groups:
        if build.driver_ok:
            for c, o in zip(cs, wire.run_driver(PROPERTY, ls)):
                if c.impl is not None:
                    c.model = canon(o) if canon else o
        cases += cs
    def search(disagreements, broken):
        os.environ['VERIF_SEED'] = str(ctx.seed + 7919)
        try:
            g, _ = explore(b, 'c06-search', 8000, 6000, 100, 40, 5000, 10)
        finally:
            os.environ['VERIF_SEED'] = str(ctx.seed)
        return [c for cs, _, _ in g for c in cs if c.oracle_ok is False]
    return verdict.conclude(PROPERTY, ctx.tier, ctx.seed, build, cases, search=search, rule=RULE, trusted_base=TRUSTED,
                            assumptions=['Python asserts enabled', 'non-owner callers (Owner.ircquote / Debug.sendquote construct messages from raw strings by design)',
                                         'the 512-byte bound excludes the tag part (as in the property statement)',
                                         'sweep (C) skips plugins that need the network or external programs'],
                            extra={'sweep': cstats}, t0=ctx.t0)

def replay(ctx, path):
    d = json.load(open(path))
    c = d.get('case') or d.get('first_disagreement')
    if not c:
        print(json.dumps(d, indent=1)[:3000]); return 0
    print('recorded:', c.get('oracle_msg') or '(correspondence disagreement)', '\nimpl :', (c.get('impl') or '')[:300], '\nmodel:', (c.get('model') or '')[:300])
    inp = c['input']
    b = get_bot(False)
    if inp.get('C'):
        rig = get_rig(b)
        set_cfg(b.conf, inp.get('cfg') or {})
        rig.set_caps(inp.get('caps') or ())
        text = inp['text']
        if text.startswith('[outfilter '):
            cmd, text = text[len('[outfilter '):].split('] ', 1)
            print('(install the outFilter first: @filter outfilter #chan %s, as a #chan,op user)' % cmd)
            ircdb = b.ircdb
            try: ircdb.users.getUserId('op!u@h')
            except KeyError:
                u = ircdb.users.newUser(); u.name = 'vtop'; u.addHostmask('op!u@h'); u.addCapability('#chan,op'); ircdb.users.setUser(u)
            signal.signal(signal.SIGALRM, _alarm)
            invoke(b, rig, 'filter outfilter #chan %s' % cmd, False, prefix='op!u@h')
        signal.signal(signal.SIGALRM, _alarm)
        res = invoke(b, rig, text, inp.get('private', False))
        data = res[0] if res else b''
        print('  wire:', data[:400])
        ok, msg = wire_check(data)
        print('  property on the wire:', 'holds' if ok else 'FAILS — ' + msg)
        return 0 if ok else 1
    print(json.dumps(inp)[:1000])
    return 0
