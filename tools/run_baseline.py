#!/usr/bin/env python3
"""Run the pinned baseline test command and compare with BASELINE.json's stable_pass list.
Usage: tools/run_baseline.py   (exit 0 iff all 347 stable tests still pass)"""
import json, subprocess, sys, tempfile, os, xml.etree.ElementTree as ET
base = json.load(open('/root/.vp/BASELINE.json'))
out = tempfile.mktemp(suffix='.xml', prefix='vbase')
cmd = base['cmd'].replace('<file>', out)
env = dict(os.environ)
env.pop('LIMNORIA_VERIF', None)
r = subprocess.run(cmd, shell=True, stdout=subprocess.PIPE, stderr=subprocess.STDOUT, env=env)
passed = set()
for tc in ET.parse(out).getroot().iter('testcase'):
    if not any(ch.tag in ('failure', 'error', 'skipped') for ch in tc):
        passed.add('%s::%s' % (tc.get('classname'), tc.get('name')))
os.unlink(out)
missing = [t for t in base['stable_pass'] if t not in passed]
print('stable_pass: %d, passing now: %d, missing: %d' % (len(base['stable_pass']), len(base['stable_pass']) - len(missing), len(missing)))
for m in missing: print('  MISSING', m)
sys.exit(1 if missing else 0)
