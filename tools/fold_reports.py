#!/usr/bin/env python3
"""Rewrite DESIGN.md §13 (per-property as-built reports + final defect table) from reports/*.md and KNOWN_FINDINGS.json."""
import os, json, re, glob
V = os.path.dirname(os.path.dirname(os.path.abspath(__file__)))
p = os.path.join(V, 'DESIGN.md')
s = open(p).read()
BEGIN = '<!-- BEGIN GENERATED §13 -->'
END = '<!-- END GENERATED §13 -->'
order = ['C01', 'C02', 'C03', 'C04', 'C05', 'C06', 'C07', 'C08', 'C09', 'C10', 'C11', 'C12', 'C13', 'C14', 'C15', 'C16', 'C17', 'C18', 'C19', 'C20']
files = sorted(glob.glob(os.path.join(V, 'reports', '*.md')), key=lambda f: min(order.index(x) for x in re.findall(r'C\d\d', os.path.basename(f))))
body = ['## 13. Per-property as built, and the final list of defects', '',
        'Condensed from the builders\' final reports (`reports/*.md`); the theorem names are those audited by each check',
        '(`THEOREMS` in `harness/cNN.py`), the statements are in `lean/LimnoriaModel/Cxx/Props.lean`.', '']
for f in files:
    body.append(open(f).read().rstrip())
    body.append('')
k = json.load(open(os.path.join(V, 'KNOWN_FINDINGS.json')))
body += ['### Final defect list', '',
         'Every entry was reproduced on the real code before being acted on.  `fix:` commits are in `/repo` (one defect each,',
         'baseline 347/347 after each); reverting one turns the named property\'s check red with a concrete replay.', '',
         '**Repaired (%d)**' % len(k['fixed']), '']
for x in k['fixed']:
    m = re.match(r'fixed: property=(C\d+) (\w+) (.*)', x, flags=re.S)
    if m:
        body.append('* %s `%s` — %s' % (m.group(1), m.group(2), m.group(3).replace('\n', ' ')[:400]))
    else:
        body.append('* ' + x[:400])
body += ['', '**Recorded as known findings (%d)** — the check prints `KNOWN-FINDING` for each and still reports any *other* failure of the property' % len(k['findings']), '']
for f in k['findings']:
    body.append('* %s `%s` — %s' % (f['property'], f['id'], str(f.get('what_fails', '')).replace('\n', ' ')[:400]))
block = BEGIN + '\n' + '\n'.join(body) + '\n' + END
if BEGIN in s:
    s = s[:s.index(BEGIN)] + block + s[s.index(END) + len(END):]
else:
    s = s.rstrip() + '\n\n---------------------------------------------------------------------------\n\n' + block + '\n'
open(p, 'w').write(s)
print('folded', len(files), 'reports;', len(k['fixed']), 'fixed;', len(k['findings']), 'findings')
