#!/usr/bin/env python3
"""Rewrite DESIGN.md §12.1 (between the CONTROLS markers) from controls/*/{meta.json,result.txt}."""
import json, os, re
V = os.path.dirname(os.path.dirname(os.path.abspath(__file__)))
rows = []
for d in sorted(os.listdir(os.path.join(V, 'controls'))):
    base = os.path.join(V, 'controls', d)
    try:
        m = json.load(open(os.path.join(base, 'meta.json')))
    except Exception:
        m = {}
    res = open(os.path.join(base, 'result.txt')).read() if os.path.exists(os.path.join(base, 'result.txt')) else ''
    per = []
    cur = None
    for l in res.split('\n'):
        mm = re.match(r'== (C\d\d) exit=(\d+)', l)
        if mm:
            cur = [mm.group(1), mm.group(2), '']; per.append(cur)
        elif 'VIOLATION' in l and cur is not None and not cur[2]:
            cur[2] = 'no-failing-input-found' if 'no-failing-input-found' in l else 'CONCRETE REPLAY'
    verdict = (re.search(r'verdict: (.*)', res) or [None, '?'])[1]
    note = ''
    np_ = os.path.join(base, 'note.txt')
    if os.path.exists(np_):
        note = ' — ' + open(np_).read().strip().replace('\n', ' ')
    esc = lambda s: str(s).replace('|', '\\|').replace('\n', ' ')
    rows.append('| %s | %s | %s | %s |' % (d, esc(m.get('summary', ''))[:260],
                ', '.join('%s: %s' % (c, 'quiet' if e == '0' else ('exit 2' if e == '2' else v or 'red')) for c, e, v in per), esc(verdict + note)))
p = os.path.join(V, 'DESIGN.md')
s = open(p).read()
a = s.index('<!-- BEGIN CONTROLS -->') + len('<!-- BEGIN CONTROLS -->')
b = s.index('<!-- END CONTROLS -->')
head = '\n| control | what it refactors | checks run on it | verdict |\n|---|---|---|---|\n'
s = s[:a] + head + '\n'.join(rows) + '\n' + s[b:]
open(p, 'w').write(s)
print(len(rows), 'controls')
