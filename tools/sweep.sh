#!/bin/bash
# tools/sweep.sh [seed] [tier]: run every claimed check on /repo, print exit code, time and VIOLATION/KNOWN-FINDING counts
cd "$(dirname "$0")/.."
seed=${1:-0}; tier=${2:-quick}
for p in $(python3 -c "import json;print(' '.join(c['property_id'] for c in json.load(open('MANIFEST.json'))['checks']))"); do
  s=$(date +%s)
  out=$(VERIF_SEED=$seed timeout 3000 ./check $p --tier $tier 2>/tmp/sweep_$p.err); rc=$?
  e=$(date +%s)
  echo "$p exit=$rc $((e-s))s viol=$(echo "$out" | grep -c '^VIOLATION') known=$(echo "$out" | grep -c '^KNOWN-FINDING')"
  [ $rc -ne 0 ] && { echo "$out" | grep '^VIOLATION' | head -2; tail -3 /tmp/sweep_$p.err; }
done
