#!/bin/bash
# tools/stress_sweep.sh [seed] [nloops] [checks…]: run the quick checks one after the other while <nloops> busy
# loops compete for the cores; a check whose verdict depends on wall-clock time shows up as a red run here.
cd "$(dirname "$0")/.."
seed=${1:-0}; n=${2:-14}; shift; shift
checks=${@:-C01 C02 C03 C04 C05 C06 C07 C08 C09 C10 C11 C12 C13 C14 C15 C16 C17 C18 C19 C20}
pids=""
for i in $(seq $n); do python3 -c "while True: pass" & pids="$pids $!"; done
trap "kill $pids 2>/dev/null" EXIT
for c in $checks; do
  s=$(date +%s)
  out=$(VERIF_SEED=$seed ./check $c 2>&1); rc=$?
  echo "$c exit=$rc $(( $(date +%s) - s ))s $(echo "$out" | grep -E "^VIOLATION" | head -2 | cut -c1-160)"
done
