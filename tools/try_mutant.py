#!/usr/bin/env python3
"""tools/try_mutant.py Cxx[,Cyy…] <patch.diff> [--tier quick] [--keep]
Run checks against a scratch worktree of /repo (HEAD) with the patch applied, using a scratch copy
of /verif (so that neither /repo nor /verif's Gen files / evidence are disturbed while other work
is going on).  Prints each check's exit code and VIOLATION lines.  Scratch is removed afterwards."""
import sys, os, subprocess, shutil, tempfile
props = sys.argv[1].split(',')
patch = os.path.abspath(sys.argv[2])
tier = 'quick'
if '--tier' in sys.argv:
    tier = sys.argv[sys.argv.index('--tier') + 1]
base = tempfile.mkdtemp(prefix='vm_')
repo = os.path.join(base, 'repo'); verif = os.path.join(base, 'verif')
try:
    subprocess.check_call(['git', '-C', '/repo', 'worktree', 'add', '-q', '--detach', repo, 'HEAD'])
    r = subprocess.run(['git', '-C', repo, 'apply', patch], stdout=subprocess.PIPE, stderr=subprocess.STDOUT)
    if r.returncode != 0:
        print('PATCH DOES NOT APPLY:', r.stdout.decode()[:500]); sys.exit(3)
    rc_ = subprocess.call(['rsync', '-a', '--exclude', '.git', '--exclude', 'replays', '--exclude', 'seeded', '--exclude', '*.tmp.*', '/verif/', verif + '/'], stderr=subprocess.DEVNULL)
    assert rc_ in (0, 24), rc_
    env = dict(os.environ, VERIF_REPO=repo)
    for p in props:
        r = subprocess.run(['./check', p, '--tier', tier], cwd=verif, env=env, stdout=subprocess.PIPE, stderr=subprocess.PIPE, timeout=3600)
        out = r.stdout.decode('utf-8', 'replace')
        print('== %s exit=%d' % (p, r.returncode))
        for l in out.split('\n'):
            if l.startswith('VIOLATION') or l.startswith('KNOWN-FINDING'):
                print('   ', l)
        if r.returncode == 2:
            print(r.stderr.decode('utf-8', 'replace')[-1500:])
        rp = os.path.join(verif, 'replays')
        if r.returncode == 1 and os.path.isdir(rp):
            for f in sorted(os.listdir(rp)):
                if f.startswith(p):
                    txt = open(os.path.join(rp, f)).read()
                    print('    replay %s: %s' % (f, txt[:600].replace('\n', ' ')))
finally:
    if '--keep' not in sys.argv:
        subprocess.run(['git', '-C', '/repo', 'worktree', 'remove', '--force', repo])
        shutil.rmtree(base, ignore_errors=True)
    else:
        print('kept', base)
