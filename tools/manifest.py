#!/usr/bin/env python3
"""Regenerate MANIFEST.json's checks / not_applicable from harness/cNN.py metadata and validate it.
Every harness module cNN.py may define MANIFEST = {level_text, level_note, technique, design_ref}."""
import json, os, sys, importlib, re
V = os.path.dirname(os.path.dirname(os.path.abspath(__file__)))
sys.path.insert(0, os.path.join(V, 'harness'))
man = json.load(open(os.path.join(V, 'MANIFEST.json')))
props = [json.loads(l)['id'] for l in open(os.path.join(V, 'properties.jsonl'))]
na_path = os.path.join(V, 'tools', 'not_claimed.json')
na_reasons = json.load(open(na_path)) if os.path.exists(na_path) else {}
checks = []; na = []
for p in props:
    f = os.path.join(V, 'harness', p.lower() + '.py')
    meta = None
    if os.path.exists(f):
        # the MANIFEST literal of the harness module, read with ast (never executed); if the module is
        # momentarily unparsable (someone is editing it) the previous manifest entry is kept
        import ast
        try:
            tree = ast.parse(open(f).read())
            for n in tree.body:
                if isinstance(n, ast.Assign) and any(isinstance(t, ast.Name) and t.id == 'MANIFEST' for t in n.targets):
                    meta = ast.literal_eval(n.value)
        except SyntaxError:
            prev = [c for c in man.get('checks', []) if c['property_id'] == p]
            if prev:
                checks.append(prev[0])
                continue
    if meta and not meta.get('disabled'):
        checks.append({
            'property_id': p,
            'quick_cmd': './check %s --tier quick' % p,
            'thorough_cmd': './check %s --tier thorough' % p,
            'evidence_file': 'evidence/%s.json' % p,
            'replay_cmd_template': './check %s --replay {path}' % p,
            'engine': 'lean4-proof+correspondence',
            'level_claimed': {'category': 'proof', 'text': meta['level_text'], 'design_ref': meta.get('design_ref', 'DESIGN.md §6 ' + p)},
            'level_note': meta['level_note'],
            'technique': meta.get('technique', 'Lean 4 theorem about a model of the code + differential correspondence check model vs implementation'),
        })
    else:
        na.append({'property_id': p, 'reason': na_reasons.get(p, 'not yet claimed: model/check under construction (see DESIGN.md §10 order of work); no technique other than Lean proof + correspondence will be substituted')})
man['checks'] = checks
man['not_applicable'] = na
man['engines'][0]['serves_properties'] = [c['property_id'] for c in checks]
exes = ['vdriver_' + c['property_id'] for c in checks]
json.dump(man, open(os.path.join(V, 'MANIFEST.json'), 'w'), indent=1)
try:
    import jsonschema
    jsonschema.validate(man, json.load(open('/root/.vp/MANIFEST.schema.json')))
    print('MANIFEST valid;', len(checks), 'checks,', len(na), 'not claimed')
except ImportError:
    print('jsonschema not available; written', len(checks), 'checks')
