#!/usr/bin/env python3
"""tools/mkmutprompt.py Cxx N  -> creates worktree /tmp/mut_Cxx and prints the prompt for a fresh sub-agent."""
import json, sys, subprocess, os
pid, n = sys.argv[1], int(sys.argv[2])
V = os.path.dirname(os.path.dirname(os.path.abspath(__file__)))
p = [json.loads(l) for l in open(os.path.join(V, 'properties.jsonl')) if json.loads(l)['id'] == pid][0]
wt = '/tmp/mut' + os.environ.get('MUT_ROUND', '') + '_' + pid
if not os.path.exists(wt):
    subprocess.check_call(['git', '-C', '/repo', 'worktree', 'add', '-q', wt, 'HEAD'])
T = open(os.path.join(V, 'tools', 'prompts', os.environ.get('MUT_TEMPLATE', 'mutant_template.txt'))).read()
out = T.format(wt=wt, title=p['title'], statement=p['statement'], quant=p['quantifier']['text'], n=n,
               files=', '.join(p['anchors']['files']), pid=pid)
open('/tmp/mutprompt%s_%s.txt' % (os.environ.get('MUT_ROUND', ''), pid), 'w').write(out)
print('/tmp/mutprompt%s_%s.txt' % (os.environ.get('MUT_ROUND', ''), pid))
