#!/usr/bin/env python3
"""tools/keep_mutant.py <seeded-id> <Cxx> <dir with patch.diff demo.py meta.json> [--checks Cxx,Cyy]
Confirm a seeded change independently and keep it under /verif/seeded/<seeded-id>/:
 1. demo.py passes (exit 0) on a clean scratch worktree of /repo HEAD and fails (exit != 0) with the patch;
 2. the pinned baseline's 347 stable tests still pass with the patch;
 3. run our checks (scratch copy of /verif, VERIF_REPO=worktree) and record which turn red.
Writes seeded/<id>/{patch.diff,demo.py,meta.json}.  Nothing is ever applied to /repo itself."""
import sys, os, subprocess, shutil, tempfile, json, xml.etree.ElementTree as ET
sid, prop, src = sys.argv[1], sys.argv[2], os.path.abspath(sys.argv[3])
checks = [prop]
if '--checks' in sys.argv:
    checks = sys.argv[sys.argv.index('--checks') + 1].split(',')
base = tempfile.mkdtemp(prefix='vk_')
repo = os.path.join(base, 'repo'); verif = os.path.join(base, 'verif')
res = {'property': prop, 'confirmed': False}
def run(cmd, cwd, timeout=1800, env=None):
    p = subprocess.run(cmd, cwd=cwd, stdout=subprocess.PIPE, stderr=subprocess.STDOUT, timeout=timeout, env=env)
    return p.returncode, p.stdout.decode('utf-8', 'replace')
def baseline(cwd):
    b = json.load(open('/root/.vp/BASELINE.json'))
    out = os.path.join(base, 'j.xml')
    cmd = b['cmd'].replace('cd /repo', 'cd ' + cwd).replace('<file>', out)
    subprocess.run(cmd, shell=True, stdout=subprocess.DEVNULL, stderr=subprocess.DEVNULL, timeout=1800)
    passed = set()
    for tc in ET.parse(out).getroot().iter('testcase'):
        if not any(ch.tag in ('failure', 'error', 'skipped') for ch in tc):
            passed.add('%s::%s' % (tc.get('classname'), tc.get('name')))
    return [t for t in b['stable_pass'] if t not in passed]
try:
    subprocess.check_call(['git', '-C', '/repo', 'worktree', 'add', '-q', '--detach', repo, 'HEAD'])
    os.makedirs(os.path.join(repo, '_mutants', 'm'), exist_ok=True)
    shutil.copy(os.path.join(src, 'demo.py'), os.path.join(repo, '_mutants', 'm', 'demo.py'))
    demo = ['timeout', '300', '/venv/bin/python', '_mutants/m/demo.py']
    denv = dict(os.environ, PYTHONPATH=repo)
    rc0, out0 = run(demo, repo, env=denv)
    res['demo_clean_exit'] = rc0
    rc, o = run(['git', 'apply', os.path.join(src, 'patch.diff')], repo)
    if rc != 0:
        res['error'] = 'patch does not apply to /repo HEAD: ' + o[:300]
    else:
        rc1, out1 = run(demo, repo, env=denv)
        res['demo_patched_exit'] = rc1
        res['demo_patched_tail'] = out1[-400:]
        missing = baseline(repo)
        res['baseline_missing_with_patch'] = missing
        rc_ = subprocess.call(['rsync', '-a', '--exclude', '.git', '--exclude', 'replays', '--exclude', 'seeded', '--exclude', '*.tmp.*', '/verif/', verif + '/'], stderr=subprocess.DEVNULL)
        assert rc_ in (0, 24), rc_
        env = dict(os.environ, VERIF_REPO=repo)
        res['checks'] = {}
        for c in checks:
            rcc, oc = run(['./check', c, '--tier', 'quick'], verif, env=env, timeout=3600)
            lines = [l for l in oc.split('\n') if l.startswith('VIOLATION')]
            replay = ''
            rp = os.path.join(verif, 'replays')
            if os.path.isdir(rp):
                for f in sorted(os.listdir(rp)):
                    if f.startswith(c):
                        replay = open(os.path.join(rp, f)).read()[:1500]
                        break
            res['checks'][c] = {'exit': rcc, 'violation_lines': lines, 'replay_head': replay}
        res['confirmed'] = (rc0 == 0 and rc1 != 0 and not missing)
        res['caught_by'] = [c for c, v in res['checks'].items() if v['exit'] == 1]
finally:
    subprocess.run(['git', '-C', '/repo', 'worktree', 'remove', '--force', repo])
    shutil.rmtree(base, ignore_errors=True)
meta = {}
try:
    meta = json.load(open(os.path.join(src, 'meta.json')))
except Exception:
    pass
meta['verification'] = res
meta['what_was_run'] = ('demo.py on a clean scratch worktree of /repo HEAD and with patch.diff applied; pinned baseline test command with '
                        'the patch applied (stable-pass set compared); ./check <property> --tier quick on a scratch copy of /verif with VERIF_REPO=<patched worktree>')
print(json.dumps(res, indent=1)[:3000])
dst = os.path.join('/verif/seeded', sid)
refresh = os.path.realpath(src) == os.path.realpath(dst)
if res.get('confirmed'):
    os.makedirs(dst, exist_ok=True)
    if not refresh:
        shutil.copy(os.path.join(src, 'patch.diff'), dst)
        shutil.copy(os.path.join(src, 'demo.py'), dst)
    meta.pop('stale_note', None)
    json.dump(meta, open(os.path.join(dst, 'meta.json'), 'w'), indent=1)
    print('KEPT', dst, 'caught_by=', res.get('caught_by'))
elif refresh and 'error' not in res:
    # the change applied but its own demonstration no longer fails on HEAD (a later fix: made it harmless)
    old = json.load(open(os.path.join(dst, 'meta.json')))
    old['stale_note'] = ('on the current /repo HEAD this change applies but its demonstration no longer fails (demo exit %s with the patch): '
                         'a later fix: commit made it harmless; verification below is from the HEAD it was made against' % res.get('demo_patched_exit'))
    json.dump(old, open(os.path.join(dst, 'meta.json'), 'w'), indent=1)
    print('NOT KEPT (demo no longer fails on HEAD; previous verification kept with a note)')
else:
    print('NOT KEPT (not confirmed)')
