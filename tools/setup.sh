#!/bin/bash
# MANIFEST.setup_cmd: warm build of every property's Lean modules and model driver, offline.
# Each check rebuilds what it needs itself (harness/vlib/leanbuild.py), so a failure here is
# reported by that check, not hidden: this script only pre-builds.
cd "$(dirname "$0")/../lean" || exit 1
python3 ../tools/genroot.py >/dev/null 2>&1
rc=0
for f in Exe_C*.lean; do
  p=${f#Exe_}; p=${p%.lean}
  if ! lake build "LimnoriaModel.$p.Props" "vdriver_$p" >/tmp/setup_$p.log 2>&1; then
    echo "setup: building $p failed (its check will report it)"; tail -5 /tmp/setup_$p.log
  fi
  rm -f /tmp/setup_$p.log
done
# the library root (imports every module: also catches name clashes between modules of one property)
lake build LimnoriaModel >/tmp/setup_root.log 2>&1 || { echo 'setup: building the library root failed'; tail -5 /tmp/setup_root.log; }
rm -f /tmp/setup_root.log
exit 0
