#!/bin/bash
# tools/try_control.sh <id> <Cxx> <dir-with-patch.diff,demo.py,meta.json> <checks>
# A CONTROL is a behaviour-preserving refactor: its demo passes with and without the patch.  Runs the checks on it
# (scratch worktree), keeps patch+demo+meta+result under controls/<id>/.  Expected: exit 0, or exit 1 whose
# VIOLATION line ends no-failing-input-found (a proof obligation / correspondence broke, no failing input exists);
# a VIOLATION with a concrete replay on a control is a FALSE ALARM of the check.
id=$1; prop=$2; src=$3; checks=$4
dst=/verif/controls/$id; mkdir -p $dst; cp $src/patch.diff $src/demo.py $src/meta.json $dst/ 2>/dev/null
out=$(python3 /verif/tools/try_mutant.py $checks $dst/patch.diff 2>&1)
echo "$out" | grep -E "^== |VIOLATION|PATCH DOES NOT APPLY" > $dst/result.txt
verdict=quiet
if grep -q "VIOLATION" $dst/result.txt; then
  if grep "VIOLATION" $dst/result.txt | grep -vq "no-failing-input-found"; then verdict=FALSE-ALARM-concrete-replay; echo "$out" | grep "replay " | cut -c1-1500 >> $dst/result.txt; else verdict=red-no-failing-input; fi
fi
grep -q "exit=2" $dst/result.txt && verdict="$verdict+infrastructure-exit2"
echo "verdict: $verdict" >> $dst/result.txt
echo "$id $verdict"
