#!/usr/bin/env python3
"""Rewrite the table of DESIGN.md §12 from seeded/*/meta.json."""
import json, os, re
V = os.path.dirname(os.path.dirname(os.path.abspath(__file__)))
rows = []
for d in sorted(os.listdir(os.path.join(V, 'seeded'))):
    mp = os.path.join(V, 'seeded', d, 'meta.json')
    if not os.path.exists(mp):
        continue
    m = json.load(open(mp))
    v = m.get('verification', {})
    caught = v.get('caught_by', [])
    how = []
    for c in caught:
        vl = (v.get('checks', {}).get(c, {}).get('violation_lines') or [''])[0]
        how.append(c + (' (no-failing-input-found)' if 'no-failing-input-found' in vl else ' (concrete replay)'))
    esc = lambda s: str(s).replace('|', '\\|').replace('\n', ' ')
    rows.append('| %s | %s | %s | %s | %s |' % (d, m.get('property', v.get('property', '')), esc(m.get('summary', ''))[:300],
                esc(m.get('needs', ''))[:300], (', '.join(how) if how else ('not re-testable on HEAD ' if m.get('stale_note') else '**missed** ') + esc(m.get('missed_note', ''))) + ((' — *' + esc(m['stale_note'])[:160] + '*') if m.get('stale_note') else '')))
p = os.path.join(V, 'DESIGN.md')
s = open(p).read()
head = '| seeded id | property | what it changes | needs | caught by |\n|---|---|---|---|---|\n'
i = s.index(head) + len(head)
j = s.find('\n\n', i)
if j < 0:
    j = len(s)
s = s[:i] + '\n'.join(rows) + s[j:]
open(p, 'w').write(s)
print(len(rows), 'rows')
