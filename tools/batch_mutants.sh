#!/bin/bash
# tools/batch_mutants.sh Cxx [checks]  — confirm+keep every mutant under /tmp/mutstore/Cxx/m*
p=$1; checks=${2:-$1}
for d in ${MUTDIR:-/tmp/mutstore}/$p/m*; do
  i=$(basename $d)
  echo "=== $p-$i"
  python3 /verif/tools/keep_mutant.py $p-${MUTTAG:-}$i $p $d --checks $checks 2>&1 | grep -E "\"confirmed\"|demo_clean_exit|demo_patched_exit|baseline_missing|KEPT|NOT KEPT|VIOLATION|error" | cut -c1-300
done
