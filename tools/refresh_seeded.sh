#!/bin/bash
# tools/refresh_seeded.sh [parallel]: re-confirm every kept seeded change against /repo HEAD and the current checks
# (scratch worktree + scratch /verif copy each), refreshing seeded/<id>/meta.json.  Patches that no longer apply to
# HEAD (the code moved under later fix: commits) keep their previous verification with a note.
cd "$(dirname "$0")/.."
P=${1:-4}
ls seeded | xargs -P $P -I{} bash -c '
  id={}; prop=${id%%-*}
  case $prop in
    C01) c=C01,C04;; C02) c=C02,C16;; C03) c=C03,C04;; C04) c=C04,C03;; C07) c=C07,C11,C05;; C05) c=C05,C07,C11;; C08) c=C08,C09;; C09) c=C09,C08;;
    C11) c=C11,C07;; C13) c=C13,C14;; C14) c=C14,C13;; C16) c=C16,C02;; C17) c=C17,C16;; C06) c=C06,C07;; C12) c=C12,C10;; C20) c=C20,C14;; *) c=$prop;;
  esac
  out=$(python3 tools/keep_mutant.py $id $prop seeded/$id --checks $c 2>&1)
  if echo "$out" | grep -q "patch does not apply"; then
    python3 - "$id" <<PY
import json,sys
p="seeded/%s/meta.json"%sys.argv[1]; m=json.load(open(p)); m["stale_note"]="patch no longer applies to /repo HEAD (the patched lines were changed by later fix: commits); verification below is from the HEAD it was made against"; json.dump(m,open(p,"w"),indent=1)
PY
    echo "$id STALE"
  else
    echo "$id $(echo "$out" | grep -E "^KEPT|^NOT KEPT" | head -1)"
  fi'
