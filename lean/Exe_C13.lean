import LimnoriaModel.C13.Drive
def main : IO Unit := Driver.run C13.handler
