import LimnoriaModel.C17.Drive
def main : IO Unit := Driver.run C17.handler
