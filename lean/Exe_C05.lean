import LimnoriaModel.C05.Drive
def main : IO Unit := Driver.run C05.handler
