import LimnoriaModel.C05.DriveE2E
def main : IO Unit := Driver.run EndToEnd.handler
