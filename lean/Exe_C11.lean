import LimnoriaModel.C11.Drive
def main : IO Unit := Driver.run C11.handler
