import LimnoriaModel.C01.Drive
def main : IO Unit := Driver.run C01.handler
