import LimnoriaModel.C14.Drive
def main : IO Unit := Driver.run C14.handler
