import LimnoriaModel.C16.Drive
def main : IO Unit := Driver.run C16.handler
