import LimnoriaModel.C20.Drive
def main : IO Unit := Driver.run C20.handler
