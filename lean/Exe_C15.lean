import LimnoriaModel.C15.Drive
def main : IO Unit := Driver.run C15.handler
