import LimnoriaModel.C06.Drive
def main : IO Unit := Driver.run C06.handler
