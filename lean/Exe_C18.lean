import LimnoriaModel.C18.Drive
def main : IO Unit := Driver.run C18.handler
