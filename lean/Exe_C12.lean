import LimnoriaModel.C12.Drive
def main : IO Unit := Driver.run C12.handler
