-- Root of the `LimnoriaModel` library.
import LimnoriaModel.Py.Basic
import LimnoriaModel.Py.Wire
import LimnoriaModel.Gen.IrcMsgs
import LimnoriaModel.C05.Model
