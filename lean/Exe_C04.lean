import LimnoriaModel.C04.Drive
def main : IO Unit := Driver.run C04.handler
