/-
Python string semantics used by the models (strings are `List Char`).
No Mathlib, no partial, no unsafe: this file is linked into the driver executable.
-/
namespace Py

abbrev Str := List Char

/-- `s.split(c, 1)` when `c` occurs: text before the first `c`, text after it. -/
def split1 (c : Char) : Str → Option (Str × Str)
  | [] => none
  | x :: xs =>
    if x = c then some ([], xs)
    else match split1 c xs with
      | none => none
      | some (a, b) => some (x :: a, b)

/-- `s.split(c)` for a one-character separator (always at least one piece). -/
def splitChar (c : Char) : Str → List Str
  | [] => [[]]
  | x :: xs =>
    if x = c then [] :: splitChar c xs
    else match splitChar c xs with
      | [] => [[x]]          -- unreachable, keeps the function total
      | p :: ps => (x :: p) :: ps

/-- `sep.join(parts)` for a one-character separator. -/
def joinChar (c : Char) : List Str → Str
  | [] => []
  | [p] => p
  | p :: ps => p ++ c :: joinChar c ps

/-- `sep.join(parts)` for a string separator. -/
def joinStr (sep : Str) : List Str → Str
  | [] => []
  | [p] => p
  | p :: ps => p ++ sep ++ joinStr sep ps

/-- first occurrence of the two-character pattern `a b`: `s.split(ab, 1)` when present. -/
def split2 (a b : Char) : Str → Option (Str × Str)
  | [] => none
  | [_] => none
  | x :: y :: rest =>
    if x = a ∧ y = b then some ([], rest)
    else match split2 a b (y :: rest) with
      | none => none
      | some (p, q) => some (x :: p, q)

/-- `s.rstrip(chars)` -/
def rstripP (p : Char → Bool) (s : Str) : Str :=
  (s.reverse.dropWhile p).reverse

def lstripP (p : Char → Bool) (s : Str) : Str := s.dropWhile p

def isCRLF (c : Char) : Bool := c = '\r' || c = '\n'

/-- `s.rstrip('\r\n')` -/
def rstripCRLF (s : Str) : Str := rstripP isCRLF s

/-- `s.endswith(c)` for one character -/
def endsWithChar (c : Char) (s : Str) : Bool :=
  match s.getLast? with
  | some x => x = c
  | none => false

/-- Python's `str.isspace()` characters that `str.split()` / `strip()` treat as
blank, restricted to the ASCII + Latin-1 + common Unicode set.  (The full
Unicode White_Space table: all code points for which `str.isspace` is true.) -/
def isSpace (c : Char) : Bool :=
  let n := c.toNat
  (9 ≤ n && n ≤ 13) || (28 ≤ n && n ≤ 32) || n = 0x85 || n = 0xa0 || n = 0x1680 ||
  (0x2000 ≤ n && n ≤ 0x200a) || n = 0x2028 || n = 0x2029 || n = 0x202f ||
  n = 0x205f || n = 0x3000

def strip (s : Str) : Str := rstripP isSpace (lstripP isSpace s)

/-- `s.split()` (no argument): split on runs of blanks, no empty pieces. -/
def splitWs (s : Str) : List Str :=
  go s []
where
  go : Str → Str → List Str
    | [], acc => if acc.isEmpty then [] else [acc.reverse]
    | c :: cs, acc =>
      if isSpace c then
        (if acc.isEmpty then go cs [] else acc.reverse :: go cs [])
      else go cs (c :: acc)

/-- `s.split(None, 1)`: first word and the rest with leading blanks removed. -/
def splitNone1 (s : Str) : List Str :=
  let s1 := lstripP isSpace s
  if s1.isEmpty then []
  else
    let w := s1.takeWhile (fun c => !isSpace c)
    let r := lstripP isSpace (s1.dropWhile (fun c => !isSpace c))
    if r.isEmpty then [w] else [w, r]

def asciiLowerChar (c : Char) : Char :=
  if 'A' ≤ c ∧ c ≤ 'Z' then Char.ofNat (c.toNat + 32) else c

def asciiUpperChar (c : Char) : Char :=
  if 'a' ≤ c ∧ c ≤ 'z' then Char.ofNat (c.toNat - 32) else c

/-- `str.lower()` on the ASCII range (non-ASCII is left alone; generators that
compare against Python stay inside the range where this is exact). -/
def asciiLower (s : Str) : Str := s.map asciiLowerChar

def isDigit (c : Char) : Bool := '0' ≤ c && c ≤ '9'

/-- `s.startswith(p)` -/
def startsWith (p s : Str) : Bool := p.isPrefixOf s

/-- `sub in s` -/
def contains (sub : Str) : Str → Bool
  | [] => sub.isEmpty
  | s@(_ :: xs) => sub.isPrefixOf s || contains sub xs

/-- decimal rendering of a natural number -/
def natToStr (n : Nat) : Str := (toString n).toList

end Py
