/-
Line protocol helpers for the correspondence driver.
One operation per line, fields separated by TAB, every string field is the
lower-case hex of its UTF-8 encoding (so control characters survive).
-/
import LimnoriaModel.Py.Basic
namespace Wire

def hexDigit (n : Nat) : Char :=
  if n < 10 then Char.ofNat (48 + n) else Char.ofNat (87 + n)

def hexVal (c : Char) : Option Nat :=
  if '0' ≤ c ∧ c ≤ '9' then some (c.toNat - 48)
  else if 'a' ≤ c ∧ c ≤ 'f' then some (c.toNat - 87)
  else if 'A' ≤ c ∧ c ≤ 'F' then some (c.toNat - 55)
  else none

def bytesToHex (bs : List UInt8) : String :=
  String.ofList (bs.flatMap fun b => [hexDigit (b.toNat / 16), hexDigit (b.toNat % 16)])

def hexToBytes : List Char → Option (List UInt8)
  | [] => some []
  | [_] => none
  | a :: b :: rest => do
    let x ← hexVal a
    let y ← hexVal b
    let r ← hexToBytes rest
    pure (UInt8.ofNat (x * 16 + y) :: r)

/-- encode a model string as a wire field -/
def enc (s : Py.Str) : String := bytesToHex (String.ofList s).toUTF8.toList

/-- decode a wire field into a model string (`none` on bad hex / bad UTF-8) -/
def dec (f : String) : Option Py.Str := do
  let bs ← hexToBytes f.toList
  let s ← String.fromUTF8? (ByteArray.mk bs.toArray)
  pure s.toList

def decBytes (f : String) : Option (List UInt8) := hexToBytes f.toList

def encBytes (bs : List UInt8) : String := bytesToHex bs

/-- encode a list of strings as one field: items joined by ',' ("-" = empty list) -/
def encList (xs : List Py.Str) : String :=
  if xs.isEmpty then "-" else ",".intercalate (xs.map enc)

def decList (f : String) : Option (List Py.Str) :=
  if f = "-" then some [] else (f.splitOn ",").mapM dec

/-- optional string: "~" is None -/
def encOpt : Option Py.Str → String
  | none => "~"
  | some s => enc s

def decOpt (f : String) : Option (Option Py.Str) :=
  if f = "~" then some none else (dec f).map some

def fields (line : String) : List String :=
  let l := if line.endsWith "\n" then (line.dropEnd 1).toString else line
  l.splitOn "\t"

end Wire
