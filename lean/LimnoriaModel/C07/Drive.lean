import LimnoriaModel.C07.Model
import LimnoriaModel.C11.Drive
import LimnoriaModel.Driver.Core
namespace C07
open Py Wire

def decExc (f : String) : Option (Option Exc) :=
  match f.toList with
  | ['-'] => some none
  | 'x' :: n => some (some (.exception (String.ofList n)))
  | 'b' :: n => some (some (.base (String.ofList n)))
  | _ => none

def items (f : String) : List String := if f = "~" then [] else f.splitOn ","

def decFilter (f : String) : Option (Outcome Bool) :=
  match f.toList with
  | ['p'] => some (.ret true)
  | ['d'] => some (.ret false)
  | 'x' :: n => some (.raise (.exception (String.ofList n)))
  | 'b' :: n => some (.raise (.base (String.ofList n)))
  | _ => none

def decOwn (f : String) : Option (Option (Option Exc)) :=
  if f = "n" then some none else (decExc f).map some

def showStage : Stage → String
  | .own => "own"
  | .addMsg => "addMsg"
  | .inFilter i => "in" ++ toString i
  | .call i => "call" ++ toString i

def showUnit : Outcome Unit → String
  | .ret _ => "ret"
  | .raise e => "raise:" ++ e.name

def decMap (f : String) : Option FwMap :=
  if f = "-" then some [] else
  (f.splitOn ",").mapM fun it =>
    match it.splitOn ":" with
    | [a, "0"] => some (a, false)
    | [a, "1"] => some (a, true)
    | _ => none

def decAncestry (f : String) : Option Ancestry := (f.splitOn "|").mapM decMap

def decBases (f : String) : Option (List Ancestry) :=
  if f = "~" then some [] else (f.splitOn ";").mapM decAncestry

def showMap (m : FwMap) : String :=
  if m.isEmpty then "-" else ",".intercalate (m.map fun p => p.1 ++ ":" ++ (if p.2 then "1" else "0"))

def decOutcomeStr (f : String) : Option (Outcome String) :=
  match f.toList with
  | 'r' :: v => some (.ret (String.ofList v))
  | 'x' :: n => some (.raise (.exception (String.ofList n)))
  | 'b' :: n => some (.raise (.base (String.ofList n)))
  | _ => none

/-- the environment of the end-to-end correspondence: real-Irc PING handling, nothing raises -/
def liveBehaviour (timeOk : Str → Bool) : IrcBehaviour :=
  { timeOk := timeOk, react := pingPongReal, feedRaises := fun _ _ => none,
    takeRaises := fun _ => none, unencodable := fun _ => false }

def drive (s : C11.DState) (fs : List String) : C11.DState × String :=
  match fs with
  | ["fw", f, h] =>
    (s, match decOutcomeStr f, (if h = "-" then some none else (decOutcomeStr h).map some) with
        | some f, some h =>
          (match firewall f h with
           | .ret (some v) => "ret:" ++ v
           | .ret none => "ret:None"
           | .raise e => "raise:" ++ e.name)
        | _, _ => "bad-op")
  | ["meta", bases, own, cd] =>
    (s, match decBases bases, decMap own with
        | some b, some o => showMap (wrapped b o (items cd))
        | _, _ => "bad-op")
  | ["feed", pre, own, am, inf, calls] =>
    (s, match decExc pre, decOwn own, decExc am, (items inf).mapM decFilter, (items calls).mapM decExc with
        | some pre, some own, some am, some inf, some calls =>
          let r := feedMsg { pre := pre, own := own, addMsg := am, inFilters := inf, calls := calls }
          (if r.1.isEmpty then "-" else ",".intercalate (r.1.map showStage)) ++ " " ++ showUnit r.2
        | _, _, _, _, _ => "bad-op")
  | ["take", outf] =>
    (s, match (items outf).mapM decFilter with
        | some o =>
          (match takeMsg o with
           | .ret (some true) => "msg"
           | .ret (some false) => "dropped"
           | .ret none => "None"
           | .raise e => "raise:" ++ e.name)
        | none => "bad-op")
  | ["isup", toks, ints, x] =>
    (s, match decList toks, decList ints, dec x with
        | some toks, some ints, some x =>
          -- `ints`: for every token its `int(value)` ("~" = ValueError / not applicable), by position
          let tbl : List (Str × Option Int) := (toks.zip ints).map fun (t, i) =>
            ((match split1 '=' t with | some (_, v) => v | none => []), (String.ofList i).toInt?)
          let intOf : Str → Option Int := fun v => (tbl.lookup v).join
          (match ircIsChannel (do005 intOf [] toks) x with
           | .ok b => if b then "true" else "false"
           | .error e => "raise:" ++ e)
        | _, _, _ => "bad-op")
  | "d" :: rest => C11.driveWith (fun s => envOf (liveBehaviour (C11.timeOkOf s))) s rest
  | _ => (s, "bad-op")

def handler : Driver.Handler := { σ := C11.DState, init := {}, step := drive }
end C07
