/-
C07 — property theorems.  (Helper lemmas: `Lemmas.lean`; the driver model and its invariant: C11.)

"Whatever the server sends, the connection loop survives": stated for every behaviour of the
handlers and plugins (`IrcBehaviour`, `FeedScript` are universally quantified), every byte stream,
every chunking and every socket outcome script.
-/
import LimnoriaModel.C07.Lemmas
namespace C07
open Py

/-- The facts about `/repo` the theorems rest on, re-checked against the *extracted* tables:
`Irc.feedMsg`/`takeMsg`, `IrcState.addMsg`, `IrcCallback.inFilter`/`outFilter`/`__call__` are
firewalled; `log.firewall` catches `Exception` around the body and around the error handler;
`drivers.run` has a bare `except`; `drivers.parseMsg` catches `MalformedIrcMsg`; the three protected
regions of `feedMsg` have bare `except`s; the driver does not encode with `errors='strict'`. -/
theorem firewall_tables_ok : TablesOk := by decide

/-- **`log.firewall` is total on `Exception`s**: if the wrapped body and the error handler raise
nothing but `Exception`s, the wrapper returns. -/
theorem firewall_total {α : Type} (f : Outcome α) (h : Option (Outcome α))
    (hf : OnlyExc f) (hh : ∀ o, h = some o → OnlyExc o) :
    ∃ r, firewall f h = .ret r := by
  unfold firewall
  rw [firewall_tables_ok.catchF, firewall_tables_ok.catchH]
  exact firewallWith_total firewall_tables_ok.deadlyOk f h hf hh

example : OnlyExc (Outcome.raise (.exception "ValueError") : Outcome Unit) := trivial

/-- **Every overridden hook is wrapped**: a class created by `MetaFirewall` that defines `attr` in
its body gets it firewalled as soon as *any* ancestor of *any* base (or the class itself) names it in
a `__firewalled__` map — e.g. a plugin (`callbacks.Plugin` subclass) overriding `outFilter`,
`inFilter` or `__call__`, which `IrcCallback.__firewalled__` names four levels up. -/
theorem plugin_hooks_wrapped (bases : List Ancestry) (own : FwMap) (classdict : List String) (attr : String)
    (hcd : classdict.contains attr = true)
    (hfw : (bases.any (fun anc => anc.any (fun m => isFirewalled m attr)) || isFirewalled own attr) = true) :
    isFirewalled (wrapped bases own classdict) attr = true := by
  unfold wrapped
  rw [isFirewalled_filter, isFirewalled_merged, hfw, hcd]
  rfl

-- callbacks.Plugin's ancestry as MetaFirewall sees it: IrcCallback's map, then Commands' map
example : isFirewalled
    (wrapped [[Gen.ircCallbackFirewalled, [("isCommand", false), ("_callCommand", false)]]] []
      ["outFilter", "myCommand"]) "outFilter" = true := by decide

/-- **Every hook of every bundled plugin is firewalled** (the c24111e bug class as an obligation over
the extracted inventory): for each plugin class of `plugins/*/plugin.py` that overrides `__call__`,
`inFilter`, `outFilter`, `die`, `reset`, `callPrecedence`, `name`, … the metaclass — given the
ancestry `IrcCallback.__firewalled__`, `Commands.__firewalled__` — wraps every one of them. -/
theorem all_plugin_hooks_firewalled :
    Gen.pluginHookDefs.all (fun row => row.2.2.all (fun a =>
      isFirewalled (wrapped [[Gen.ircCallbackFirewalled, Gen.commandsFirewalled]] [] row.2.2) a)) = true := by
  decide

/-- **Logging an `Exception` never raises it again**: the classes the log formatter re-raises
(`log.deadlyExceptions`, extracted) are not below `Exception` — so every `except` clause that logs
what it caught really swallows a `MemoryError`, `RecursionError`, `StopIteration`, … -/
theorem logging_swallows_exceptions (n : String) : deadly (.exception n) = false :=
  deadly_exception firewall_tables_ok.deadlyOk n

/-- **`Irc.feedMsg` returns** whatever `IrcState.addMsg`, every `inFilter` and every callback do —
any `Exception`, and any other `BaseException` (`GeneratorExit`, `asyncio.CancelledError`) except
the two the log formatter re-raises by design (KeyboardInterrupt, SystemExit: `NoDeadly`) —
provided what is raised before and inside the Irc's own handler is an `Exception`. -/
theorem feedMsg_total (s : FeedScript) (h : ScriptOnlyExc s) (hn : NoDeadly s) : (feedMsg s).2 = .ret () :=
  feedMsg_ret firewall_tables_ok s h hn

example : ScriptOnlyExc { own := some (some (.exception "IndexError")),
                          addMsg := some (.exception "MemoryError"),
                          inFilters := [.raise (.base "CancelledError")],
                          calls := [some (.base "GeneratorExit"), some (.exception "ValueError")] } ∧
    NoDeadly { own := some (some (.exception "IndexError")),
               addMsg := some (.exception "MemoryError"),
               inFilters := [.raise (.base "CancelledError")],
               calls := [some (.base "GeneratorExit"), some (.exception "ValueError")] } :=
  ⟨⟨trivial, by intro e h; cases h; trivial⟩,
   ⟨by show deadly _ = false; decide, by intro o h; simp at h; subst h; show deadly _ = false; decide,
    by intro o h; simp at h; rcases h with rfl | rfl <;> (show deadly _ = false; decide)⟩⟩

/-- … and the two deadly classes do get through a logging `except:` (by design: they end the bot) -/
example : deadly (.base "SystemExit") = true ∧ deadly (.base "KeyboardInterrupt") = true := by decide

/-- **A faulty callback is skipped, not fatal**: when no `inFilter` drops the message, *every*
callback's `__call__` runs, in order, whatever the earlier ones (and `addMsg`, and the `inFilter`s)
raised. -/
theorem callbacks_all_run (s : FeedScript) (hpre : s.pre = none)
    (hown : s.own = none ∨ s.own = some none) (hin : ∀ o ∈ s.inFilters, PassOrExc o)
    (ham : NotDeadlyOpt s.addMsg) (hcalls : ∀ o ∈ s.calls, NotDeadlyOpt o) :
    (feedMsg s).1 =
      (if s.own.isSome then [Stage.own] else []) ++ [Stage.addMsg] ++
      (List.range s.inFilters.length).map Stage.inFilter ++
      (List.range s.calls.length).map Stage.call := by
  have tk := firewall_tables_ok
  obtain ⟨i1, i2⟩ := inFilterLoop_pass tk 0 s.inFilters hin
  obtain ⟨-, c2⟩ := callLoop_total tk 0 s.calls hcalls
  unfold feedMsg feedBody
  simp only [hpre]
  rcases hown with h | h <;>
  · simp only [h, protect_addMsg tk _ ham, i1, i2, c2, Nat.zero_add]

example : ∀ o ∈ [Outcome.ret true, .raise (.exception "KeyError")], PassOrExc o := by
  intro o h; simp at h; rcases h with rfl | rfl <;> trivial

/-- **An `outFilter` that raises does not lose the message** (since fix c24111e it is firewalled
for plugins too, and its error handler passes the message on). -/
theorem outFilter_exception_keeps_message (outf : List (Outcome Bool)) (h : ∀ o ∈ outf, PassOrExc o) :
    takeMsg outf = .ret (some true) := by
  have tk := firewall_tables_ok
  unfold takeMsg
  simp only [outFilterLoop_pass tk outf h, tk.takeFw, ↓reduceIte, firewall]
  rfl

/-- **`Irc.takeMsg` returns** when the `outFilter`s raise only `Exception`s. -/
theorem takeMsg_total (outf : List (Outcome Bool)) (h : ∀ o ∈ outf, OnlyExc o) :
    ∃ r, takeMsg outf = .ret r := by
  have tk := firewall_tables_ok
  unfold takeMsg
  simp only [tk.takeFw, ↓reduceIte]
  exact firewall_total _ none (outFilterLoop_onlyExc tk outf h) (by intro o ho; cases ho)

/-- **No ISUPPORT advertisement can deafen the bot**: whatever 005 tokens the server sent — with
values, without (`CHANTYPES`, `CHANNELLEN` stored as `None`), repeated, contradicting, with values
`int()` rejects — the channel test `_tagMsg` performs on *every* incoming message returns
(since fix 8cfa9e2; before it a valueless `CHANTYPES` made it raise `TypeError` for every later
message, so that nothing, not even PING, was processed). -/
theorem isupport_never_deafens (intOf : Str → Option Int) (tokens : List Str) (s : Str) :
    ∃ b, ircIsChannel (do005 intOf [] tokens) s = .ok b :=
  ircIsChannel_total _ (supTyped_do005 intOf tokens [] supTyped_nil) s

/-! ## the driver loop (C11's model of `SocketDriver`, instantiated with a firewalled Irc) -/

/-- nothing escapes `irc.feedMsg`, `irc.takeMsg`, the encoding or `parseMsg` into the driver -/
theorem no_escape (b : IrcBehaviour) (hb : OnlyExceptions b) : C11.NoEscape (envOf b) :=
  envOf_noEscape firewall_tables_ok b hb

/-- **No exception escapes `SocketDriver.run()`**: for every Irc behaviour raising only
`Exception`s and every history of received bytes (any content, any chunking), socket outcomes,
queued messages and loop passes. -/
theorem read_never_raises (b : IrcBehaviour) (hb : OnlyExceptions b) (ops : List C11.Op) :
    (C11.runOps (envOf b) C11.init ops).crashed = none :=
  (C11.inv_runOps (no_escape b hb) ops C11.init (C11.inv_init _)).nocrash

/-- **The driver is never removed from the loop** (`drivers.run` removes a driver only when its
`run()` raises or when the bot itself is dying) — unless somebody calls `Irc.die()`. -/
theorem driver_never_removed (b : IrcBehaviour) (hb : OnlyExceptions b) (ops : List C11.Op)
    (hn : noDie ops) :
    (C11.runOps (envOf b) C11.init ops).removed = false :=
  (alive_runOps (no_escape b hb) ops C11.init ⟨rfl, rfl, rfl, rfl⟩ hn).removed

/-- and what `drivers.run` does with a driver whose `run()` returns: it stays -/
theorem driversRun_keeps : driversRun (.ret ()) = some true := rfl

example : noDie [C11.Op.scriptRecv (.data [58, 13, 10]), C11.Op.loop] := by
  intro op h; simp at h; rcases h with rfl | rfl <;> simp

/-- the Irc answers a PING whose payload is a valid argument with the corresponding PONG -/
def PingAnswered (b : IrcBehaviour) : Prop :=
  ∀ h m a rest, asciiLower m.command = "ping".toList → m.args = a :: rest → C11.validArg a = true →
    C05.format ⟨[], "PONG".toList, [a], []⟩ ∈ b.react h m

/-- **A later PING is answered**: after *any* history — including server-requested and error-induced
reconnects — that leaves the (current) connection quiet (connected, nothing scripted to fail, no
partial line buffered), a line that parses as `PING a` and one loop pass put `PONG :a\r\n` on the
wire (after whatever was still pending), and the connection stays quiet. -/
theorem later_ping_answered (b : IrcBehaviour) (hb : OnlyExceptions b) (hp : PingAnswered b)
    (ops : List C11.Op)
    (hcalm : C11.Calm (C11.runOps (envOf b) C11.init ops))
    (hr : (C11.runOps (envOf b) C11.init ops).recvScript = [])
    (hib : (C11.runOps (envOf b) C11.init ops).inbuffer = [])
    (l : C11.Bytes) (hl : C11.LF ∉ l) (m : C05.Msg) (hm : C11.lineMsg (envOf b) l = some m)
    (a : Str) (rest : List Str) (hcmd : asciiLower m.command = "ping".toList)
    (hargs : m.args = a :: rest) (ha : C11.validArg a = true)
    (hnr : ∀ hist, b.reconnects hist m = none) :
    let w := C11.runOps (envOf b) C11.init ops
    let w' := C11.runOps (envOf b) w [.scriptRecv (.data (l ++ [C11.LF])), .loop]
    (∃ pre post, w'.wire = w.wire ++ pre ++ C11.utf8 (C05.format ⟨[], "PONG".toList, [a], []⟩) ++ post) ∧
    C11.Calm w' := by
  intro w w'
  obtain ⟨hw, hc⟩ := ping_wire (no_escape b hb) w hcalm hr hib l hl m hm hnr
  have e : w' = C11.loop (envOf b) (C11.step (envOf b) w (.scriptRecv (.data (l ++ [C11.LF])))) := by
    simp [w', C11.runOps, C11.step]
  rw [e]
  refine ⟨?_, hc⟩
  obtain ⟨p1, p2, hp'⟩ := utf8_mem_infix _ _ (hp w.allFed m a rest hcmd hargs ha)
  refine ⟨w.outbuffer ++ C11.utf8 w.queue.flatten ++ p1, p2, ?_⟩
  rw [hw]
  show w.wire ++ (w.outbuffer ++ C11.utf8 w.queue.flatten) ++ C11.utf8 (b.react w.allFed m).flatten = _
  rw [hp']
  simp only [List.append_assoc]

/-- the live environment of the correspondence run (real-Irc PING handling, nothing raises) -/
def liveB : IrcBehaviour :=
  { timeOk := fun _ => true, react := pingPongReal, feedRaises := fun _ _ => none,
    takeRaises := fun _ => none, unencodable := fun _ => false }

theorem liveB_pingAnswered : PingAnswered liveB := by
  intro h m a rest hc ha hv
  simp [liveB, pingPongReal, hc, ha, hv]

-- non-vacuity: the line `PING :k42` parses to a PING with a valid payload, in any quiet state
example : C11.lineMsg (envOf liveB) (C11.utf8 "PING :k42".toList) =
    some ⟨[], "PING".toList, ["k42".toList], []⟩ := by decide

end C07
