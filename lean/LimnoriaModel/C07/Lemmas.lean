import LimnoriaModel.C07.Model
import LimnoriaModel.C11.Lemmas
namespace C07
open Py

/-! ### what the theorems need from the extracted tables (checked by `decide` in Props) -/

structure TablesOk : Prop where
  feedFw : isFirewalled Gen.ircFirewalled "feedMsg" = true
  takeFw : isFirewalled Gen.ircFirewalled "takeMsg" = true
  addMsgFw : isFirewalled Gen.ircStateFirewalled "addMsg" = true
  inFilterFw : isFirewalled Gen.ircCallbackFirewalled "inFilter" = true
  outFilterFw : isFirewalled Gen.ircCallbackFirewalled "outFilter" = true
  callFw : isFirewalled Gen.ircCallbackFirewalled "__call__" = true
  inFilterH : passHandler Gen.ircCallbackFirewalled "inFilter" = some (.ret true)
  outFilterH : passHandler Gen.ircCallbackFirewalled "outFilter" = some (.ret true)
  catchF : Gen.firewallCatch = "Exception"
  catchH : Gen.firewallHandlerCatch = "Exception"
  runCatch : Gen.driversRunCatch = ""
  malformed : malformedCaught = true
  regAddMsg : regionCatch "addMsg" = some ""
  regInFilter : regionCatch "inFilter" = some ""
  regCallback : regionCatch "callback" = some ""
  encode : encodeStrict = false
  /-- no log call on the read/write path formats server text before handing it to the logger
  (supybot's `Logger._log` formats every record: pre-formatted text is formatted twice) -/
  logs : Gen.preformattedLogCalls = []
  /-- the socket never goes into blocking mode, and `_read` calls `recv` once: the loop cannot hang on a read
  (the model's `recv` outcomes — data, timeout, error — are then the only ones) -/
  nonBlocking : Gen.socketMayBlock = false ∧ Gen.readRecvCalls = 1
  /-- the classes the log formatter re-raises are not below `Exception` (KeyboardInterrupt, SystemExit): logging an
  `Exception` never raises it again -/
  deadlyOk : Gen.deadlyExceptions.all notExceptionClass = true

instance : Decidable TablesOk :=
  decidable_of_iff
    (isFirewalled Gen.ircFirewalled "feedMsg" = true ∧ isFirewalled Gen.ircFirewalled "takeMsg" = true ∧
     isFirewalled Gen.ircStateFirewalled "addMsg" = true ∧ isFirewalled Gen.ircCallbackFirewalled "inFilter" = true ∧
     isFirewalled Gen.ircCallbackFirewalled "outFilter" = true ∧ isFirewalled Gen.ircCallbackFirewalled "__call__" = true ∧
     Gen.ircCallbackFirewalled.lookup "inFilter" = some true ∧ Gen.ircCallbackFirewalled.lookup "outFilter" = some true ∧
     Gen.firewallCatch = "Exception" ∧ Gen.firewallHandlerCatch = "Exception" ∧ Gen.driversRunCatch = "" ∧
     malformedCaught = true ∧ regionCatch "addMsg" = some "" ∧ regionCatch "inFilter" = some "" ∧
     regionCatch "callback" = some "" ∧ encodeStrict = false ∧ Gen.preformattedLogCalls = [] ∧
     (Gen.socketMayBlock = false ∧ Gen.readRecvCalls = 1) ∧ Gen.deadlyExceptions.all notExceptionClass = true)
    ⟨fun ⟨a, b, c, d, e, f, x, y, g, h, i, j, k, l, m, n, o, p, q⟩ =>
      ⟨a, b, c, d, e, f, by simp [passHandler, x], by simp [passHandler, y], g, h, i, j, k, l, m, n, o, p, q⟩,
     fun ⟨a, b, c, d, e, f, x, y, g, h, i, j, k, l, m, n, o, p, q⟩ =>
      ⟨a, b, c, d, e, f,
       by unfold passHandler at x; split at x <;> simp_all,
       by unfold passHandler at y; split at y <;> simp_all, g, h, i, j, k, l, m, n, o, p, q⟩⟩

/-! ### exceptions -/

/-- raises nothing but (subclasses of) `Exception` -/
def OnlyExc {α : Type} : Outcome α → Prop
  | .ret _ => True
  | .raise (.exception _) => True
  | .raise (.base _) => False

def OnlyExcOpt : Option Exc → Prop
  | none => True
  | some (.exception _) => True
  | some (.base _) => False

theorem catches_exception (n : String) : catches "Exception" (.exception n) = true := by
  simp [catches]

theorem catches_bare (e : Exc) : catches "" e = true := by
  simp [catches]

theorem deadly_exception (hd : Gen.deadlyExceptions.all notExceptionClass = true) (n : String) :
    deadly (.exception n) = false := by
  unfold deadly
  by_cases hm : n ∈ Gen.deadlyExceptions
  · have := List.all_eq_true.1 hd n hm
    simp [this]
  · simp [hm]

/-- nothing the log formatter would re-raise -/
def NotDeadly {α : Type} : Outcome α → Prop
  | .ret _ => True
  | .raise e => deadly e = false

def NotDeadlyOpt : Option Exc → Prop
  | none => True
  | some e => deadly e = false

theorem firewallWith_total {α : Type} (hd : Gen.deadlyExceptions.all notExceptionClass = true)
    (f : Outcome α) (h : Option (Outcome α))
    (hf : OnlyExc f) (hh : ∀ o, h = some o → OnlyExc o) :
    ∃ r, firewallWith "Exception" "Exception" f h = .ret r := by
  unfold firewallWith
  match f, hf with
  | .ret a, _ => exact ⟨_, rfl⟩
  | .raise (.exception n), _ =>
    simp only [catches_exception, deadly_exception hd, Bool.false_eq_true, ↓reduceIte]
    match h, hh with
    | none, _ => exact ⟨_, rfl⟩
    | some (.ret a), _ => exact ⟨_, rfl⟩
    | some (.raise (.exception m)), _ =>
      simp only [catches_exception, deadly_exception hd, Bool.false_eq_true, ↓reduceIte]; exact ⟨_, rfl⟩
    | some (.raise (.base m)), hh => exact absurd (hh _ rfl) (by simp [OnlyExc])

/-- a firewalled method without error handler, seen by its caller, when the body raises only Exceptions -/
theorem viaFirewall_ret (tk : Gen.firewallCatch = "Exception") (hd : Gen.deadlyExceptions.all notExceptionClass = true)
    (fw : FwMap) (attr : String)
    (hfw : isFirewalled fw attr = true) (o : Outcome Unit) (ho : OnlyExc o) :
    viaFirewall fw attr o = .ret () := by
  unfold viaFirewall firewall
  rw [hfw, tk]
  simp only [↓reduceIte]
  unfold firewallWith
  match o, ho with
  | .ret a, _ => rfl
  | .raise (.exception n), _ => simp [catches_exception, deadly_exception hd]

theorem optExc_onlyExc (e : Option Exc) (h : OnlyExcOpt e) : OnlyExc (optExc e) := by
  match e, h with
  | none, _ => trivial
  | some (.exception _), _ => trivial

/-! ### MetaFirewall -/

theorem isFirewalled_fwSet (m : FwMap) (k : String) (v : Bool) (a : String) :
    isFirewalled (fwSet m k v) a = (isFirewalled m a || k == a) := by
  induction m with
  | nil => simp [fwSet, isFirewalled]
  | cons p rest ih =>
    obtain ⟨k', v'⟩ := p
    unfold fwSet
    split
    · rename_i heq
      subst heq
      simp only [isFirewalled, List.any_cons] at ih ⊢
      cases (k' == a) <;> simp
    · simp only [isFirewalled, List.any_cons] at ih ⊢
      rw [ih, Bool.or_assoc]

theorem isFirewalled_fwUpdate (m u : FwMap) (a : String) :
    isFirewalled (fwUpdate m u) a = (isFirewalled m a || isFirewalled u a) := by
  induction u generalizing m with
  | nil => simp [fwUpdate, isFirewalled]
  | cons p rest ih =>
    simp only [fwUpdate, List.foldl_cons] at ih ⊢
    rw [ih, isFirewalled_fwSet]
    simp only [isFirewalled, List.any_cons, Bool.or_assoc]

theorem isFirewalled_foldl_anc (anc : Ancestry) (m : FwMap) (a : String) :
    isFirewalled (anc.foldl fwUpdate m) a = (isFirewalled m a || anc.any (fun x => isFirewalled x a)) := by
  induction anc generalizing m with
  | nil => simp
  | cons x rest ih =>
    simp only [List.foldl_cons, List.any_cons]
    rw [ih, isFirewalled_fwUpdate, Bool.or_assoc]

theorem isFirewalled_foldl_bases (bases : List Ancestry) (m : FwMap) (a : String) :
    isFirewalled (bases.foldl (fun m anc => anc.foldl fwUpdate m) m) a =
      (isFirewalled m a || bases.any (fun anc => anc.any (fun x => isFirewalled x a))) := by
  induction bases generalizing m with
  | nil => simp
  | cons b rest ih =>
    simp only [List.foldl_cons, List.any_cons]
    rw [ih, isFirewalled_foldl_anc, Bool.or_assoc]

theorem isFirewalled_merged (bases : List Ancestry) (own : FwMap) (a : String) :
    isFirewalled (mergedFirewalled bases own) a =
      (bases.any (fun anc => anc.any (fun x => isFirewalled x a)) || isFirewalled own a) := by
  unfold mergedFirewalled
  rw [isFirewalled_fwUpdate, isFirewalled_foldl_bases]
  simp [isFirewalled]

theorem isFirewalled_filter (m : FwMap) (cd : List String) (a : String) :
    isFirewalled (m.filter (fun p => cd.contains p.1)) a = (isFirewalled m a && cd.contains a) := by
  induction m with
  | nil => simp [isFirewalled]
  | cons p rest ih =>
    simp only [isFirewalled] at ih ⊢
    by_cases hc : cd.contains p.1 = true
    · rw [List.filter_cons_of_pos (by simpa using hc)]
      simp only [List.any_cons, ih]
      cases hp : (p.1 == a)
      · simp
      · have : p.1 = a := by simpa using hp
        rw [← this, hc]
        simp
    · rw [List.filter_cons_of_neg (by simpa using hc)]
      simp only [List.any_cons, ih]
      cases hp : (p.1 == a)
      · simp
      · have : p.1 = a := by simpa using hp
        have hc' : cd.contains p.1 = false := by simpa using hc
        rw [← this, hc']
        simp

/-! ### feedMsg -/

theorem protect_notDeadly (what : String) (hreg : regionCatch what = some "") (o : Outcome Unit) (ho : NotDeadly o) :
    protect what o = .ret () := by
  unfold protect
  cases o with
  | ret a => rfl
  | raise e =>
    have : deadly e = false := ho
    simp [hreg, catches_bare, this]

theorem viaFirewall_notDeadly (tk : TablesOk) (fw : FwMap) (attr : String) (o : Outcome Unit) (ho : NotDeadly o) :
    NotDeadly (viaFirewall fw attr o) := by
  unfold viaFirewall
  split
  · unfold firewall firewallWith
    rw [tk.catchF, tk.catchH]
    cases o with
    | ret a => trivial
    | raise e =>
      have hde : deadly e = false := ho
      cases hc : catches "Exception" e <;> simp [hc, hde, NotDeadly]
  · exact ho

theorem optExc_notDeadly (e : Option Exc) (h : NotDeadlyOpt e) : NotDeadly (optExc e) := by
  cases e with
  | none => trivial
  | some e => exact h

theorem inFilterLoop_total (tk : TablesOk) (i : Nat) (l : List (Outcome Bool)) (hl : ∀ o ∈ l, NotDeadly o) :
    ∃ b, (inFilterLoop i l).2 = .ret b := by
  induction l generalizing i with
  | nil => exact ⟨true, rfl⟩
  | cons o rest ih =>
    have ihr := fun j => ih j (fun o' ho' => hl o' (by simp [ho']))
    have ho : NotDeadly o := hl o (by simp)
    unfold inFilterLoop
    simp only [tk.inFilterFw, tk.inFilterH, ↓reduceIte, firewall, tk.catchF, tk.catchH]
    cases o with
    | ret b =>
      cases b
      · simp only [firewallWith]; exact ⟨false, rfl⟩
      · simp only [firewallWith]; exact ihr (i + 1)
    | raise e =>
      have hde : deadly e = false := ho
      unfold firewallWith
      cases hc : catches "Exception" e
      · simp only [hc, Bool.false_eq_true, ↓reduceIte, protect, tk.regInFilter, catches_bare, hde]
        exact ihr (i + 1)
      · simp only [hc, hde, Bool.false_eq_true, ↓reduceIte]
        exact ihr (i + 1)

theorem callLoop_total (tk : TablesOk) (i : Nat) (l : List (Option Exc)) (hl : ∀ o ∈ l, NotDeadlyOpt o) :
    (callLoop i l).2 = .ret () ∧ (callLoop i l).1 = (List.range l.length).map (fun j => Stage.call (i + j)) := by
  induction l generalizing i with
  | nil => exact ⟨rfl, rfl⟩
  | cons o rest ih =>
    unfold callLoop
    have hp : protect "callback" (viaFirewall Gen.ircCallbackFirewalled "__call__" (optExc o)) = .ret () :=
      protect_notDeadly _ tk.regCallback _ (viaFirewall_notDeadly tk _ _ _ (optExc_notDeadly o (hl o (by simp))))
    simp only [hp]
    obtain ⟨h1, h2⟩ := ih (i + 1) (fun o' ho' => hl o' (by simp [ho']))
    refine ⟨h1, ?_⟩
    rw [h2, List.length_cons, List.range_succ_eq_map]
    simp only [List.map_cons, List.map_map, Nat.add_zero, List.cons.injEq, true_and]
    apply List.map_congr_left
    intro j _
    simp only [Function.comp]
    congr 1
    omega

/-- `try: state.addMsg(...) except:` lets nothing through but what the log formatter re-raises -/
theorem protect_addMsg (tk : TablesOk) (e : Option Exc) (he : NotDeadlyOpt e) :
    protect "addMsg" (viaFirewall Gen.ircStateFirewalled "addMsg" (optExc e)) = .ret () :=
  protect_notDeadly _ tk.regAddMsg _ (viaFirewall_notDeadly tk _ _ _ (optExc_notDeadly e he))

/-- nothing raised by `IrcState.addMsg`, the `inFilter`s or the callbacks is one of the classes the log
formatter re-raises (KeyboardInterrupt, SystemExit) -/
structure NoDeadly (s : FeedScript) : Prop where
  addMsg : NotDeadlyOpt s.addMsg
  inFilters : ∀ o ∈ s.inFilters, NotDeadly o
  calls : ∀ o ∈ s.calls, NotDeadlyOpt o

/-- the body of `feedMsg` raises only what `pre` or the Irc's own handler raise -/
theorem feedBody_outcome (tk : TablesOk) (s : FeedScript) (hn : NoDeadly s) :
    (feedBody s).2 =
      (match s.pre with
       | some e => .raise e
       | none => match s.own with
         | some (some e) => .raise e
         | _ => .ret ()) := by
  unfold feedBody
  cases hpre : s.pre with
  | some e => rfl
  | none =>
    simp only
    cases hown : s.own with
    | none =>
      simp only [protect_addMsg tk _ hn.addMsg]
      obtain ⟨b, hb⟩ := inFilterLoop_total tk 0 s.inFilters hn.inFilters
      rw [hb]
      cases b
      · rfl
      · exact (callLoop_total tk 0 s.calls hn.calls).1
    | some oe =>
      cases oe with
      | some e => rfl
      | none =>
        simp only [protect_addMsg tk _ hn.addMsg]
        obtain ⟨b, hb⟩ := inFilterLoop_total tk 0 s.inFilters hn.inFilters
        rw [hb]
        cases b
        · rfl
        · exact (callLoop_total tk 0 s.calls hn.calls).1

/-- all exceptions raised before/inside the Irc's own handler are `Exception`s
(what `state.addMsg`, the `inFilter`s and the callbacks raise only matters through `NoDeadly`) -/
structure ScriptOnlyExc (s : FeedScript) : Prop where
  pre : OnlyExcOpt s.pre
  own : ∀ e, s.own = some e → OnlyExcOpt e

theorem feedMsg_ret (tk : TablesOk) (s : FeedScript) (h : ScriptOnlyExc s) (hn : NoDeadly s) : (feedMsg s).2 = .ret () := by
  unfold feedMsg
  simp only
  apply viaFirewall_ret tk.catchF tk.deadlyOk _ _ tk.feedFw
  rw [feedBody_outcome tk s hn]
  cases hpre : s.pre with
  | some e =>
    have := h.pre; rw [hpre] at this
    cases e with
    | exception n => trivial
    | base n => exact this.elim
  | none =>
    simp only
    cases hown : s.own with
    | none => trivial
    | some oe =>
      cases oe with
      | none => trivial
      | some e =>
        have := h.own _ hown
        cases e with
        | exception n => trivial
        | base n => exact this.elim

/-- `inFilter` bodies that pass the message on or raise an `Exception` -/
def PassOrExc : Outcome Bool → Prop
  | .ret true => True
  | .ret false => False
  | .raise (.exception _) => True
  | .raise (.base _) => False

theorem inFilterLoop_pass (tk : TablesOk) (i : Nat) (l : List (Outcome Bool)) (h : ∀ o ∈ l, PassOrExc o) :
    (inFilterLoop i l).2 = .ret true ∧
    (inFilterLoop i l).1 = (List.range l.length).map (fun j => Stage.inFilter (i + j)) := by
  induction l generalizing i with
  | nil => exact ⟨rfl, rfl⟩
  | cons o rest ih =>
    obtain ⟨h1, h2⟩ := ih (i + 1) (fun o' ho' => h o' (by simp [ho']))
    have ho := h o (by simp)
    have hs : ∀ j : Nat, List.map (fun j => Stage.inFilter (i + 1 + j)) (List.range j)
        = List.map ((fun j => Stage.inFilter (i + j)) ∘ Nat.succ) (List.range j) := by
      intro j
      apply List.map_congr_left
      intro k _
      simp only [Function.comp]
      congr 1
      omega
    unfold inFilterLoop
    simp only [tk.inFilterFw, tk.inFilterH, ↓reduceIte, firewall, tk.catchF, tk.catchH]
    match o, ho with
    | .ret true, _ =>
      simp only [firewallWith]
      refine ⟨h1, ?_⟩
      rw [h2, List.length_cons, List.range_succ_eq_map]
      simp [hs]
    | .raise (.exception n), _ =>
      simp only [firewallWith, catches_exception, deadly_exception tk.deadlyOk, Bool.false_eq_true, ↓reduceIte]
      refine ⟨h1, ?_⟩
      rw [h2, List.length_cons, List.range_succ_eq_map]
      simp [hs]

/-! ### takeMsg -/

theorem outFilterLoop_pass (tk : TablesOk) (l : List (Outcome Bool)) (h : ∀ o ∈ l, PassOrExc o) :
    outFilterLoop l = .ret true := by
  induction l with
  | nil => rfl
  | cons o rest ih =>
    have ho := h o (by simp)
    have hr := ih (fun o' ho' => h o' (by simp [ho']))
    unfold outFilterLoop
    simp only [tk.outFilterFw, tk.outFilterH, ↓reduceIte, firewall, tk.catchF, tk.catchH]
    match o, ho with
    | .ret true, _ => simp only [firewallWith]; exact hr
    | .raise (.exception n), _ =>
      simp only [firewallWith, catches_exception, deadly_exception tk.deadlyOk, Bool.false_eq_true, ↓reduceIte]; exact hr

theorem outFilterLoop_onlyExc (tk : TablesOk) (l : List (Outcome Bool)) (h : ∀ o ∈ l, OnlyExc o) :
    OnlyExc (outFilterLoop l) := by
  induction l with
  | nil => trivial
  | cons o rest ih =>
    have ho := h o (by simp)
    have hr := ih (fun o' ho' => h o' (by simp [ho']))
    unfold outFilterLoop
    simp only [tk.outFilterFw, tk.outFilterH, ↓reduceIte, firewall, tk.catchF, tk.catchH]
    match o, ho with
    | .ret true, _ => simp only [firewallWith]; exact hr
    | .ret false, _ => simp only [firewallWith]; trivial
    | .raise (.exception n), _ =>
      simp only [firewallWith, catches_exception, deadly_exception tk.deadlyOk, Bool.false_eq_true, ↓reduceIte]; exact hr

/-! ### the driver: nothing escapes; the driver is never removed -/

theorem envOf_noEscape (tk : TablesOk) (b : IrcBehaviour) (hb : OnlyExceptions b) : C11.NoEscape (envOf b) := by
  refine ⟨?_, ?_, ?_⟩
  · intro h m
    show escName (viaFirewall Gen.ircFirewalled "feedMsg" (optExc (b.feedRaises h m))) = none
    rw [viaFirewall_ret tk.catchF tk.deadlyOk _ _ tk.feedFw]
    · rfl
    · apply optExc_onlyExc
      cases hf : b.feedRaises h m with
      | none => trivial
      | some e =>
        cases e with
        | exception n => trivial
        | base n => exact absurd hf (hb.1 h m n)
  · intro q
    show (match escName (viaFirewall Gen.ircFirewalled "takeMsg" (optExc (b.takeRaises q))) with
      | some e => some e
      | none => if encodeStrict && q.any b.unencodable then some "UnicodeEncodeError" else none) = none
    rw [viaFirewall_ret tk.catchF tk.deadlyOk _ _ tk.takeFw]
    · simp [escName, tk.encode]
    · apply optExc_onlyExc
      cases hf : b.takeRaises q with
      | none => trivial
      | some e =>
        cases e with
        | exception n => trivial
        | base n => exact absurd hf (hb.2 q n)
  · show (!malformedCaught) = false
    rw [tk.malformed]; rfl

/-! ### the driver stays in the loop (C11 model, any environment from which nothing escapes) -/

open C11 in
/-- nobody asked the bot to quit, and nothing went wrong -/
structure Alive (w : C11.World) : Prop where
  ircZombie : w.ircZombie = false
  zombie : w.zombie = false
  removed : w.removed = false
  crashed : w.crashed = none

section
open C11
variable {env : C11.Env} (hne : C11.NoEscape env)
include hne

omit hne in
theorem alive_handleSocketError (e : Option Nat) (w : World) (h : Alive w) : Alive (handleSocketError e w) := by
  unfold handleSocketError
  split <;> exact ⟨h.ircZombie, h.zombie, h.removed, h.crashed⟩

theorem alive_sendIfMsgs (w : World) (h : Alive w) : Alive (sendIfMsgs env w) := by
  rcases sendIfMsgs_cases hne w with e | e <;> rw [e]
  · obtain ⟨h1, h2, h3, h4⟩ := h
    refine ⟨?_, ?_, ?_, ?_⟩ <;>
    · simp only [sendPlain, sendTake, takeAll, sendFlush, sendFinish, doSend, reallyDie, driverDie, handleSocketError]
      (repeat' split) <;> simp_all
  · unfold reconnect
    exact ⟨h.ircZombie, h.zombie, h.removed, h.crashed⟩

omit hne in
theorem alive_reconnect (wait : Bool) (w : World) (h : Alive w) : Alive (reconnect env wait w) := by
  unfold reconnect
  cases wait <;> exact ⟨h.ircZombie, h.zombie, h.removed, h.crashed⟩

theorem alive_feedLines (ls : List Bytes) (w : World) (h : Alive w) : Alive (feedLines env ls w) := by
  induction ls generalizing w with
  | nil => exact h
  | cons l ls ih =>
    unfold feedLines
    cases h' : parseMsg env.timeOk (decode l) with
    | empty => exact ih w h
    | malformed =>
      simp only [hne.2.2, Bool.false_eq_true, ↓reduceIte]
      exact ih w h
    | crash e => exact absurd h' (parseMsg_no_crash _ _ _)
    | msg m =>
      simp only [hne.1 w.allFed m]
      have hf : Alive (C11.feedMsg env m w) := ⟨h.ircZombie, h.zombie, h.removed, h.crashed⟩
      cases env.reconnects w.allFed m with
      | some wait => exact alive_reconnect wait _ hf
      | none => exact ih _ hf

theorem alive_readData (b : Bytes) (w : World) (h : Alive w) : Alive (readData env b w) := by
  unfold readData
  exact alive_feedLines hne _ _ ⟨h.ircZombie, h.zombie, h.removed, h.crashed⟩

omit hne in
theorem alive_setRecv (w : World) (rs : List RecvRes) (h : Alive w) : Alive { w with recvScript := rs } :=
  ⟨h.ircZombie, h.zombie, h.removed, h.crashed⟩

theorem alive_sendAfterRead (w : World) (h : Alive w) : Alive (sendAfterRead env w) := by
  unfold sendAfterRead
  split
  · exact h
  · split
    · exact h
    · exact alive_sendIfMsgs hne w h

theorem alive_read (w : World) (h : Alive w) : Alive (C11.read env w) := by
  unfold C11.read
  split
  · exact alive_sendAfterRead hne w h
  · exact alive_handleSocketError _ _ (alive_setRecv w _ h)
  · exact alive_sendAfterRead hne _ (alive_readData hne _ _ (alive_setRecv w _ h))
  · exact alive_sendAfterRead hne _ (alive_setRecv w _ h)
  · exact alive_handleSocketError _ _ (alive_setRecv w _ h)

theorem alive_loop (w : World) (h : Alive w) : Alive (loop env w) := by
  unfold loop
  split
  · exact h
  · have h0 : Alive (runTimer env w) := by
      unfold runTimer
      split
      · exact alive_reconnect false w h
      · exact h
    have h1 : Alive (run env w) := by
      unfold run
      split
      · exact h0
      · unfold select
        split
        · exact alive_sendIfMsgs hne _ h0
        · split
          · exact alive_sendIfMsgs hne _ h0
          · have h2 : Alive (selectRead env (sendIfMsgs env (runTimer env w))) := by
              unfold selectRead
              split
              · exact alive_sendIfMsgs hne _ h0
              · exact alive_read hne _ (alive_sendIfMsgs hne _ h0)
            unfold selectSend
            split
            · exact h2
            · split
              · exact h2
              · exact alive_sendIfMsgs hne _ h2
    unfold loopCatch
    rw [h1.crashed]
    exact h1

/-- histories in which nobody calls `Irc.die()` -/
def noDie (ops : List Op) : Prop := ∀ op ∈ ops, op ≠ .ircDie

theorem alive_runOps (ops : List Op) (w : World) (h : Alive w) (hn : noDie ops) : Alive (runOps env w ops) := by
  induction ops generalizing w with
  | nil => exact h
  | cons op ops ih =>
    refine ih _ ?_ (fun o ho => hn o (by simp [ho]))
    cases op with
    | queue s =>
      simp only [step]
      split
      · exact h
      · exact ⟨h.ircZombie, h.zombie, h.removed, h.crashed⟩
    | scriptSend r => exact ⟨h.ircZombie, h.zombie, h.removed, h.crashed⟩
    | scriptRecv r => exact ⟨h.ircZombie, h.zombie, h.removed, h.crashed⟩
    | ircDie => exact absurd rfl (hn .ircDie (by simp))
    | tick => exact ⟨h.ircZombie, h.zombie, h.removed, h.crashed⟩
    | pingTimeout => exact ⟨h.ircZombie, h.zombie, h.removed, h.crashed⟩
    | loop => exact alive_loop hne w h

/-! ### a PING line on a quiet connection -/

/-- on a calm connection `_sendIfMsgs` writes the whole buffer and the whole queue -/
theorem calm_sendIfMsgs_wire (w : World) (h : Calm w) :
    (sendIfMsgs env w).wire = w.wire ++ (w.outbuffer ++ utf8 w.queue.flatten) ∧
    (sendIfMsgs env w).outbuffer = [] ∧ (sendIfMsgs env w).queue = [] ∧
    (sendIfMsgs env w).fed = w.fed ∧ (sendIfMsgs env w).inbuffer = w.inbuffer ∧
    (sendIfMsgs env w).allFed = w.allFed := by
  obtain ⟨h1, h2, h3, h4, h5, h6, h7, h8⟩ := h
  rw [sendIfMsgs_eq hne w h8]
  refine ⟨?_, ?_, ?_, ?_, ?_, ?_⟩ <;>
  · simp only [sendPlain, sendTake, takeAll, sendFlush, sendFinish, doSend, reallyDie, driverDie]
    (repeat' split) <;> simp_all

omit hne in
theorem splitLF_line (l : Bytes) (h : LF ∉ l) : splitLF (l ++ [LF]) = ([l], []) := by
  induction l with
  | nil => simp [splitLF]
  | cons c cs ih =>
    simp only [List.mem_cons, not_or] at h
    rw [List.cons_append, splitLF_cons_ne (fun hc => h.1 hc.symm), ih h.2]

theorem ping_wire (w : World) (h : Calm w) (hr : w.recvScript = []) (hib : w.inbuffer = [])
    (l : Bytes) (hl : LF ∉ l) (m : C05.Msg) (hm : lineMsg env l = some m)
    (hnr : ∀ hist, env.reconnects hist m = none) :
    (loop env (step env w (.scriptRecv (.data (l ++ [LF]))))).wire =
      w.wire ++ (w.outbuffer ++ utf8 w.queue.flatten) ++ utf8 (env.react w.allFed m).flatten ∧
    Calm (loop env (step env w (.scriptRecv (.data (l ++ [LF]))))) := by
  obtain ⟨b, bs, hc⟩ : ∃ b bs, l ++ [LF] = b :: bs := by
    cases l with
    | nil => exact ⟨LF, [], rfl⟩
    | cons x xs => exact ⟨x, xs ++ [LF], rfl⟩
  have hsplit : splitLF (b :: bs) = ([l], []) := by rw [← hc]; exact splitLF_line l hl
  have hon : NoReconnectOn env (msgsOf env (splitLF (w.inbuffer ++ b :: bs)).1) := by
    rw [hib]; simp only [List.nil_append]; rw [hsplit]
    intro m' hm' hist
    have : m' = m := by simpa [msgsOf, hm] using hm'
    subst this; exact hnr hist
  rw [hc]
  refine ⟨?_, (calm_chunk hne (b :: bs) (by simp) w h hr hon).1⟩
  rw [loop_chunk_eq hne b bs w h hr hon]
  have c1 := calm_setRecv w [.data (b :: bs)] h
  obtain ⟨a1, a2, a3, a4, a5, a6⟩ := calm_sendIfMsgs_wire hne _ c1
  obtain ⟨c2, -, -, -⟩ := calm_sendIfMsgs hne _ c1
  generalize sendIfMsgs env { w with recvScript := [.data (b :: bs)] } = w2 at a1 a2 a3 a4 a5 a6 c2 ⊢
  have c3 := calm_setRecv w2 [] c2
  have k1 : ({ w2 with recvScript := [] } : World).wire = w2.wire := rfl
  have k2 : ({ w2 with recvScript := [] } : World).outbuffer = w2.outbuffer := rfl
  have k3 : ({ w2 with recvScript := [] } : World).queue = w2.queue := rfl
  have k4 : ({ w2 with recvScript := [] } : World).allFed = w2.allFed := rfl
  have k5 : ({ w2 with recvScript := [] } : World).inbuffer = w2.inbuffer := rfl
  have k6 : ({ w2 with recvScript := [] } : World).ircZombie = w2.ircZombie := rfl
  generalize ({ w2 with recvScript := [] } : World) = w3 at c3 k1 k2 k3 k4 k5 k6 ⊢
  have hon3 : NoReconnectOn env (msgsOf env (splitLF (w3.inbuffer ++ b :: bs)).1) := by
    rw [k5, a5]; exact hon
  obtain ⟨c4, -, -⟩ := calm_readData hne (b :: bs) w3 c3 hon3
  have hw : (readData env (b :: bs) w3).wire = w3.wire := by
    unfold readData; rw [feedLines_eq env hne _ _ hon3]
  have hob : (readData env (b :: bs) w3).outbuffer = w3.outbuffer := by
    unfold readData; rw [feedLines_eq env hne _ _ hon3]
  have hq : (readData env (b :: bs) w3).queue = env.react w.allFed m := by
    unfold readData
    rw [feedLines_eq env hne _ _ hon3]
    show w3.queue ++ reactsOf env w3.ircZombie w3.allFed (splitLF (w3.inbuffer ++ (b :: bs))).1 = _
    rw [k3, a3, k6, c2.ircZombie, k4, a6, k5, a5]
    show [] ++ reactsOf env false w.allFed (splitLF (w.inbuffer ++ (b :: bs))).1 = _
    rw [hib]
    simp only [List.nil_append]
    rw [hsplit]
    simp [reactsOf, msgsOf, hm, reactsFrom]
  generalize readData env (b :: bs) w3 = w4 at c4 hw hob hq ⊢
  obtain ⟨d1, d2, d3, -, -, -⟩ := calm_sendIfMsgs_wire hne w4 c4
  obtain ⟨c5, -, -, -⟩ := calm_sendIfMsgs hne w4 c4
  generalize sendIfMsgs env w4 = w5 at d1 d2 d3 c5 ⊢
  obtain ⟨e1, -, -, -, -, -⟩ := calm_sendIfMsgs_wire hne w5 c5
  rw [e1, d2, d3, d1, hw, hob, hq, k1, k2, a1, a2]
  simp [utf8_nil]

end

/-! ### the ISUPPORT preamble -/

theorem supGet_supSet (d : Supported) (k k' : Str) (v : Val) :
    supGet (supSet d k v) k' = if k' = k then some v else supGet d k' := by
  induction d with
  | nil =>
    simp only [supSet, supGet]
    by_cases h : k = k'
    · subst h; simp
    · have h' : ¬ k' = k := fun e => h e.symm
      simp [h, h']
  | cons p rest ih =>
    obtain ⟨a, b⟩ := p
    unfold supSet
    by_cases hak : a = k
    · subst hak
      simp only [↓reduceIte, supGet]
      by_cases h : a = k'
      · subst h; simp
      · have h' : ¬ k' = a := fun e => h e.symm
        simp [h, h']
    · simp only [hak, ↓reduceIte, supGet]
      by_cases h : a = k'
      · subst h
        have : ¬ a = k := hak
        simp [this]
      · simp only [h, ↓reduceIte]
        exact ih

/-- what `Irc.isChannel` may find: `chantypes` is `None` or a str, `channellen` is `None` or an int -/
structure SupTyped (d : Supported) : Prop where
  ct : ∀ v, supGet d "chantypes".toList = some v → v = .none ∨ ∃ s, v = .str s
  cl : ∀ v, supGet d "channellen".toList = some v → v = .none ∨ ∃ n, v = .int n

theorem supTyped_nil : SupTyped [] := ⟨fun v h => by simp [supGet] at h, fun v h => by simp [supGet] at h⟩

theorem supTyped_token (intOf : Str → Option Int) (d : Supported) (arg : Str) (h : SupTyped d) :
    SupTyped (do005Token intOf d arg) := by
  unfold do005Token
  cases hs : split1 '=' arg with
  | none =>
    simp only
    refine ⟨fun v hv => ?_, fun v hv => ?_⟩ <;>
    · rw [supGet_supSet] at hv
      split at hv
      · injection hv with hv; exact Or.inl hv.symm
      · first | exact h.ct v hv | exact h.cl v hv
  | some p =>
    obtain ⟨name, value⟩ := p
    simp only
    split
    · rename_i hname
      cases hi : intOf value with
      | none => exact h
      | some n =>
        refine ⟨fun v hv => ?_, fun v hv => ?_⟩
        · rw [supGet_supSet, hname] at hv
          simp only [show ("chantypes".toList = "channellen".toList) = False by decide, ↓reduceIte] at hv
          exact h.ct v hv
        · rw [supGet_supSet] at hv
          split at hv
          · injection hv with hv; exact Or.inr ⟨n, hv.symm⟩
          · exact h.cl v hv
    · rename_i hname
      refine ⟨fun v hv => ?_, fun v hv => ?_⟩
      · rw [supGet_supSet] at hv
        split at hv
        · injection hv with hv; exact Or.inr ⟨value, hv.symm⟩
        · exact h.ct v hv
      · rw [supGet_supSet] at hv
        split at hv
        · rename_i heq; exact absurd heq.symm hname
        · exact h.cl v hv

theorem supTyped_do005 (intOf : Str → Option Int) (tokens : List Str) (d : Supported) (h : SupTyped d) :
    SupTyped (do005 intOf d tokens) := by
  induction tokens generalizing d with
  | nil => exact h
  | cons t ts ih => exact ih _ (supTyped_token intOf d t h)

theorem utilsIsChannel_total (s ct : Str) (n : Int) : ∃ b, utilsIsChannel s (.str ct) (.int n) = .ok b := by
  unfold utilsIsChannel
  cases s with
  | nil => exact ⟨_, rfl⟩
  | cons c cs =>
    simp only [pyIn, pyLe]
    split
    · exact ⟨_, rfl⟩
    · split
      · rename_i e he; cases he
      · exact ⟨_, rfl⟩
      · split
        · rename_i e he; cases he
        · exact ⟨_, rfl⟩
        · exact ⟨_, rfl⟩

theorem ircIsChannel_total (d : Supported) (h : SupTyped d) (s : Str) : ∃ b, ircIsChannel d s = .ok b := by
  have hct : ∃ t, ctOf d = Val.str t := by
    unfold ctOf
    cases hg : supGet d "chantypes".toList with
    | none => exact ⟨_, rfl⟩
    | some v =>
      rcases h.ct v hg with rfl | ⟨t, rfl⟩
      · exact ⟨_, rfl⟩
      · exact ⟨t, by simp⟩
  have hcl : ∃ n, clOf d = Val.int n := by
    unfold clOf
    cases hg : supGet d "channellen".toList with
    | none => exact ⟨_, rfl⟩
    | some v =>
      rcases h.cl v hg with rfl | ⟨n, rfl⟩
      · exact ⟨_, rfl⟩
      · exact ⟨n, by simp⟩
  obtain ⟨t, ht⟩ := hct
  obtain ⟨n, hn⟩ := hcl
  unfold ircIsChannel
  rw [ht, hn]
  exact utilsIsChannel_total s t n

theorem utf8_mem_infix (s : Str) (l : List Str) (h : s ∈ l) :
    ∃ pre post, C11.utf8 l.flatten = pre ++ C11.utf8 s ++ post := by
  obtain ⟨l1, l2, rfl⟩ := List.append_of_mem h
  refine ⟨C11.utf8 l1.flatten, C11.utf8 l2.flatten, ?_⟩
  simp [C11.utf8_append]

end C07
