/-
C07 — exception-flow model of the connection loop:
`log.firewall` / `log.MetaFirewall` (src/log.py:357-404), `Irc.feedMsg` (src/irclib.py:1357-1420),
the take/encode stage of `SocketDriver._sendIfMsgs`, `drivers.parseMsg`, `drivers.run`
(src/drivers/__init__.py:144-172, 242-255), on top of the driver model of C11
(`SocketDriver._read`/`run`/`_select`, `decode_raw_line`, framing).

Which method is firewalled, which exception class each `except` clause names and how the driver
encodes are *extracted* (`Gen.Firewall`); the behaviour of handlers / plugins is a parameter:
every handler may return or raise any exception.
-/
import LimnoriaModel.C11.Model
import LimnoriaModel.Gen.Firewall
namespace C07
open Py

/-- a raised exception: an instance of (a subclass of) `Exception`, or of another `BaseException`
(`KeyboardInterrupt`, `SystemExit`, `GeneratorExit`) -/
inductive Exc where
  | exception (name : String)
  | base (name : String)
deriving DecidableEq, Repr

def Exc.name : Exc → String
  | .exception n => n
  | .base n => n

inductive Outcome (α : Type) where
  | ret (a : α)
  | raise (e : Exc)
deriving Repr

/-- does `except <cls>:` catch `e`?  `""` is a bare `except:`; a specific class name catches the
exceptions of exactly that name (the subclass lattice below `Exception` is not modelled). -/
def catches (cls : String) (e : Exc) : Bool :=
  cls == "" || cls == "BaseException" ||
  (match e with
   | .exception n => cls == "Exception" || cls == n
   | .base n => cls == n)

/-- the classes `log.Formatter.formatException` re-raises instead of formatting: every `except`
clause that *logs* what it caught (the firewall, the bare `except`s of `feedMsg`, `drivers.run`)
lets such an exception through again -/
def notExceptionClass (n : String) : Bool :=
  n == "KeyboardInterrupt" || n == "SystemExit" || n == "GeneratorExit" || n == "BaseException"

/-- (`.exception n` is an instance of a subclass of `Exception` named `n`: the builtin classes that
are not below `Exception` cannot occur under that constructor) -/
def deadly : Exc → Bool
  | .base n => Gen.deadlyExceptions.contains n
  | .exception n => Gen.deadlyExceptions.contains n && !notExceptionClass n

/-! ### `log.firewall(f, errorHandler)` with `log.testing == False` -/

/-- `catchF` / `catchH`: the classes named by the two `except` clauses of the wrapper;
`f`: outcome of the wrapped body; `handler`: outcome of `errorHandler(self, *args)` if there is one. -/
def firewallWith (catchF catchH : String) {α : Type} (f : Outcome α) (handler : Option (Outcome α)) :
    Outcome (Option α) :=
  match f with
  | .ret a => .ret (some a)
  | .raise e =>
    if catches catchF e then
      if deadly e then .raise e                          -- `logException` re-raises it
      else match handler with
        | none => .ret none
        | some (.ret a) => .ret (some a)
        | some (.raise e') => if catches catchH e' then (if deadly e' then .raise e' else .ret none) else .raise e'
    else .raise e

def firewall {α : Type} (f : Outcome α) (handler : Option (Outcome α)) : Outcome (Option α) :=
  firewallWith Gen.firewallCatch Gen.firewallHandlerCatch f handler

/-! ### `MetaFirewall.__new__`: which attributes of a new class get wrapped -/

abbrev FwMap := List (String × Bool)        -- attribute ↦ "has an error handler"

/-- `firewalled[attr] = handler` (dict update: keeps the position of an existing key) -/
def fwSet (m : FwMap) (k : String) (v : Bool) : FwMap :=
  match m with
  | [] => [(k, v)]
  | (k', v') :: rest => if k' = k then (k, v) :: rest else (k', v') :: fwSet rest k v

def fwUpdate (m : FwMap) (upd : FwMap) : FwMap := upd.foldl (fun m p => fwSet m p.1 p.2) m

/-- a base class as `MetaFirewall.__new__` sees it since fix c24111e: the `__firewalled__` maps found
in the `__dict__`s of `reversed(base.__mro__)` (most generic ancestor first) -/
abbrev Ancestry := List FwMap

/-- the `firewalled` dict built from every ancestor of every base (in order) and the class's own map -/
def mergedFirewalled (bases : List Ancestry) (own : FwMap) : FwMap :=
  fwUpdate (bases.foldl (fun m anc => anc.foldl fwUpdate m) []) own

/-- `for (attr, errorHandler) in firewalled.items(): if attr in classdict: wrap` -/
def wrapped (bases : List Ancestry) (own : FwMap) (classdict : List String) : FwMap :=
  (mergedFirewalled bases own).filter (fun p => classdict.contains p.1)

def isFirewalled (m : FwMap) (attr : String) : Bool := m.any (fun p => p.1 == attr)

/-- the error handlers `IrcCallback.__firewalled__` gives `inFilter` / `outFilter` return the message
unchanged (`lambda self, irc, msg: msg`); `none` when the map names no handler for `attr` -/
def passHandler (fw : FwMap) (attr : String) : Option (Outcome Bool) :=
  if fw.lookup attr = some true then some (.ret true) else none

/-! ### `Irc.feedMsg`: which stages run, and whether it returns -/

/-- what the code reached by `feedMsg(msg)` does — parameters of the model -/
structure FeedScript where
  /-- `_tagMsg`, nick/prefix/server bookkeeping before the dispatch (e.g. `msg.args[0]` of a
  nick-setting numeric without arguments) -/
  pre : Option Exc := none
  /-- the Irc's own `doCommand` handler: `none` = `dispatchCommand` found no method;
  `some none` = returns; `some (some e)` = raises `e` -/
  own : Option (Option Exc) := none
  /-- the body of `IrcState.addMsg` -/
  addMsg : Option Exc := none
  /-- per callback, the body of `inFilter`: `ret true` = passes a message on, `ret false` =
  returns `None` (drops the message), or raises -/
  inFilters : List (Outcome Bool) := []
  /-- per callback, the body of `__call__` -/
  calls : List (Option Exc) := []
deriving Repr

inductive Stage where
  | own | addMsg | inFilter (i : Nat) | call (i : Nat)
deriving DecidableEq, Repr

def regionCatch (what : String) : Option String := (Gen.feedMsgRegions.lookup what)

/-- `try: <region> except <cls>:` — `none` if the region is not inside a `try` at all -/
def protect (what : String) (o : Outcome Unit) : Outcome Unit :=
  match o with
  | .ret a => .ret a
  | .raise e =>
    match regionCatch what with
    | some cls => if catches cls e then (if deadly e then .raise e else .ret ()) else .raise e
    | none => .raise e

def optExc : Option Exc → Outcome Unit
  | none => .ret ()
  | some e => .raise e

/-- a method of a `Firewalled` class as seen by its caller -/
def viaFirewall (fw : FwMap) (attr : String) (body : Outcome Unit) : Outcome Unit :=
  if isFirewalled fw attr then
    match firewall body none with
    | .ret _ => .ret ()
    | .raise e => .raise e
  else body

/-- the `inFilter` loop from callback `i` on; `true` = all callbacks passed the message on -/
def inFilterLoop : Nat → List (Outcome Bool) → List Stage × Outcome Bool
  | _, [] => ([], .ret true)
  | i, o :: rest =>
    -- `inFilter` is firewalled with an error handler that returns the message unchanged
    let seen : Outcome Bool :=
      if isFirewalled Gen.ircCallbackFirewalled "inFilter" then
        match firewall o (passHandler Gen.ircCallbackFirewalled "inFilter") with
        | .ret (some b) => .ret b
        | .ret none => .ret false
        | .raise e => .raise e
      else o
    match seen with
    | .ret true => let r := inFilterLoop (i + 1) rest; (.inFilter i :: r.1, r.2)
    | .ret false => ([.inFilter i], .ret false)          -- `if not m: return`
    | .raise e =>
      match protect "inFilter" (.raise e) with
      | .ret _ => let r := inFilterLoop (i + 1) rest; (.inFilter i :: r.1, r.2)
      | .raise e' => ([.inFilter i], .raise e')

def callLoop : Nat → List (Option Exc) → List Stage × Outcome Unit
  | _, [] => ([], .ret ())
  | i, o :: rest =>
    match protect "callback" (viaFirewall Gen.ircCallbackFirewalled "__call__" (optExc o)) with
    | .ret _ => let r := callLoop (i + 1) rest; (.call i :: r.1, r.2)
    | .raise e => ([.call i], .raise e)

/-- the body of `Irc.feedMsg` (before its own firewall): stages started, outcome -/
def feedBody (s : FeedScript) : List Stage × Outcome Unit :=
  match s.pre with
  | some e => ([], .raise e)
  | none =>
    let ownStages : List Stage := if s.own.isSome then [.own] else []
    match s.own with
    | some (some e) => (ownStages, .raise e)             -- `method(msg)` is not inside a try
    | _ =>
      match protect "addMsg" (viaFirewall Gen.ircStateFirewalled "addMsg" (optExc s.addMsg)) with
      | .raise e => (ownStages ++ [.addMsg], .raise e)
      | .ret _ =>
        let f := inFilterLoop 0 s.inFilters
        match f.2 with
        | .raise e => (ownStages ++ [.addMsg] ++ f.1, .raise e)
        | .ret false => (ownStages ++ [.addMsg] ++ f.1, .ret ())
        | .ret true =>
          let c := callLoop 0 s.calls
          (ownStages ++ [.addMsg] ++ f.1 ++ c.1, c.2)

/-- `irc.feedMsg(msg)` as the driver sees it -/
def feedMsg (s : FeedScript) : List Stage × Outcome Unit :=
  let b := feedBody s
  (b.1, viaFirewall Gen.ircFirewalled "feedMsg" b.2)

/-! ### `Irc.takeMsg`: the `outFilter` chain (called without a `try`, inside the firewalled `takeMsg`) -/

/-- per callback (in `reversed(self.callbacks)` order) the body of `outFilter`: `ret true` = passes a
message on, `ret false` = returns `None`, or raises.  Result: `ret true` = the message reaches the
driver, `ret false` = dropped (`takeMsg` goes on with the next one), `raise` = escapes the body. -/
def outFilterLoop : List (Outcome Bool) → Outcome Bool
  | [] => .ret true
  | o :: rest =>
    let seen : Outcome Bool :=
      if isFirewalled Gen.ircCallbackFirewalled "outFilter" then
        match firewall o (passHandler Gen.ircCallbackFirewalled "outFilter") with
        | .ret (some b) => .ret b
        | .ret none => .ret false
        | .raise e => .raise e
      else o
    match seen with
    | .ret true => outFilterLoop rest
    | .ret false => .ret false
    | .raise e => .raise e

/-- `irc.takeMsg()` for one dequeued message, as the driver sees it: `some true` = gets the message,
`some false` = gets `None`/the next one (this message is gone) -/
def takeMsg (outFilters : List (Outcome Bool)) : Outcome (Option Bool) :=
  let body := outFilterLoop outFilters
  if isFirewalled Gen.ircFirewalled "takeMsg" then firewall body none
  else match body with
    | .ret b => .ret (some b)
    | .raise e => .raise e

/-! ### the per-message preamble of `feedMsg`: `_tagMsg` → `_setMsgChannel` → `Irc.isChannel`,
which reads what `IrcState.do005` stored (src/irclib.py:841-852, 1144-1155, ircutils.py:147-155).
Python values are dynamically typed: a token without `=` is stored as `None`. -/

inductive Val where
  | none                       -- `None`
  | str (s : Str)
  | int (n : Int)
deriving DecidableEq, Repr

/-- `state.supported` (an `InsensitivePreservingDict`: keys compared lower-cased) -/
abbrev Supported := List (Str × Val)

def supSet (d : Supported) (k : Str) (v : Val) : Supported :=
  match d with
  | [] => [(k, v)]
  | (k', v') :: rest => if k' = k then (k, v) :: rest else (k', v') :: supSet rest k v

def supGet : Supported → Str → Option Val
  | [], _ => none
  | (k', v') :: rest, k => if k' = k then some v' else supGet rest k

/-- one argument of a 005 line; `intOf` is Python's `int()` (`none` = `ValueError`, which do005
catches: nothing is stored).  Only the two tokens `Irc.isChannel` reads are tracked precisely; any
other token is stored as a string / None under its own name. -/
def do005Token (intOf : Str → Option Int) (d : Supported) (arg : Str) : Supported :=
  match split1 '=' arg with
  | some (name, value) =>
    if asciiLower name = "channellen".toList then
      (match intOf value with
       | some n => supSet d (asciiLower name) (.int n)
       | none => d)
    else supSet d (asciiLower name) (.str value)
  | none => supSet d (asciiLower arg) .none

def do005 (intOf : Str → Option Int) (d : Supported) (tokens : List Str) : Supported :=
  tokens.foldl (do005Token intOf) d

/-- `c in v` -/
def pyIn (c : Char) : Val → Except String Bool
  | .str s => .ok (s.contains c)
  | _ => .error "TypeError"

/-- `n <= v` -/
def pyLe (n : Nat) : Val → Except String Bool
  | .int k => .ok (decide ((n : Int) ≤ k))
  | _ => .error "TypeError"

/-- `ircutils.isChannel(s, chantypes, channellen)` (truthiness of the `and` chain) -/
def utilsIsChannel (s : Str) (chantypes channellen : Val) : Except String Bool :=
  match s with
  | [] => .ok false
  | c :: _ =>
    if s.contains ',' || s.contains (Char.ofNat 7) then .ok false
    else match pyIn c chantypes with
      | .error e => .error e
      | .ok false => .ok false
      | .ok true =>
        match pyLe s.length channellen with
        | .error e => .error e
        | .ok false => .ok false
        | .ok true => .ok (splitWs s == [s])

/-- the `chantypes` / `channellen` keyword arguments `Irc.isChannel` passes since fix 8cfa9e2:
a stored `None` does not override the default -/
def ctOf (d : Supported) : Val :=
  match supGet d "chantypes".toList with
  | some v => if v = Val.none then Val.str "#&!".toList else v
  | none => Val.str "#&!".toList

def clOf (d : Supported) : Val :=
  match supGet d "channellen".toList with
  | some v => if v = Val.none then Val.int 50 else v
  | none => Val.int 50

/-- `Irc.isChannel(s)` -/
def ircIsChannel (d : Supported) (s : Str) : Except String Bool := utilsIsChannel s (ctOf d) (clOf d)

/-! ### instantiating the driver model of C11 -/

/-- an Irc object as far as the driver loop is concerned: what it queues, and what exception (if
any) is raised inside the bodies of `feedMsg` / `takeMsg`; `unencodable s` = "`s` contains a code
point `str.encode('utf-8')` rejects" (a lone surrogate; not representable in `Str`) -/
structure IrcBehaviour where
  timeOk : Str → Bool
  react : List C05.Msg → C05.Msg → List Str
  feedRaises : List C05.Msg → C05.Msg → Option Exc
  takeRaises : List Str → Option Exc
  unencodable : Str → Bool
  /-- `feedMsg(m)` makes the Irc call `driver.reconnect(wait=…)` (doError, STS, SASL abort …) -/
  reconnects : List C05.Msg → C05.Msg → Option Bool := fun _ _ => none
  /-- what `Irc.reset()` queues -/
  onReset : List Str := []

def escName : Outcome Unit → Option String
  | .ret _ => none
  | .raise e => some e.name

/-- `.encode('utf-8', errors)` raises only with `errors='strict'` -/
def encodeStrict : Bool := Gen.encodeErrors == "strict"

def malformedCaught : Bool :=
  Gen.parseMsgCatches.any (fun c => catches c (.exception "MalformedIrcMsg"))

def envOf (b : IrcBehaviour) : C11.Env :=
  { timeOk := b.timeOk
    react := b.react
    feedEscapes := fun h m => escName (viaFirewall Gen.ircFirewalled "feedMsg" (optExc (b.feedRaises h m)))
    takeEscapes := fun q =>
      match escName (viaFirewall Gen.ircFirewalled "takeMsg" (optExc (b.takeRaises q))) with
      | some e => some e
      | none => if encodeStrict && q.any b.unencodable then some "UnicodeEncodeError" else none
    malformedEscapes := !malformedCaught
    reconnects := b.reconnects
    onReset := b.onReset }

/-- handlers and plugins raise nothing but `Exception`s -/
def OnlyExceptions (b : IrcBehaviour) : Prop :=
  (∀ h m n, b.feedRaises h m ≠ some (.base n)) ∧ (∀ q n, b.takeRaises q ≠ some (.base n))

/-- `drivers.run`: `try: driver.run() except <cls>: _deadDrivers.add(name)` — a raising driver is
removed; `none` = the exception is not even caught there and ends the main loop -/
def driversRun (o : Outcome Unit) : Option Bool :=     -- some true = driver stays, some false = removed
  match o with
  | .ret _ => some true
  | .raise e => if catches Gen.driversRunCatch e then (if deadly e then none else some false) else none

/-- the real Irc answers PING whatever the letter case of the command (`dispatchCommand` upper-cases
it); `ircmsgs.pong` asserts the payload is a valid argument -/
def pingPongReal (_ : List C05.Msg) (m : C05.Msg) : List Str :=
  if asciiLower m.command = "ping".toList then
    match m.args with
    | a :: _ => if C11.validArg a then [C05.format ⟨[], "PONG".toList, [a], []⟩] else []
    | [] => []
  else []

end C07
