import LimnoriaModel.C16.Lemmas
import LimnoriaModel.C03.Lemmas

/-!
# C16 — when does the iteration order of a capability set matter?

`CapabilitySet` is a Python `set`: `preserve` writes its elements in hash order, which the model
does not determine (capability sets are lists here, and every theorem about `dumpUsers` holds for
whatever order the list has).  This file states what that freedom amounts to:

* `capsOk_perm`, `storableUser_caps_perm`: storability does not depend on the order;
* `users_roundtrip_any_cap_order`: for a storable database, *whatever* order each capability set
  is written in, every account is loaded with exactly the capabilities written, in that order —
  so as sets, the outcome is the same for all orders;
* `inverse_pair_some_order_loses`: conversely, as soon as a set holds a capability together with
  its inverse (possible for `--foo` with `-foo`, finding C16-capability-inverse-pair) there is an
  order in which the file loses a capability.  `capsOk` is therefore exactly the condition under
  which the order is immaterial.
-/

namespace C16
open Py

theorem pairwiseB_map {α β : Type} (r : β → β → Bool) (h : α → β) (l : List α) :
    pairwiseB r (l.map h) = pairwiseB (fun a b => r (h a) (h b)) l := by
  induction l with
  | nil => rfl
  | cons x xs ih => simp only [List.map_cons, pairwiseB, ih, List.all_map]; rfl

theorem capsOk_perm {l l' : List Str} (hp : l.Perm l') : capsOk l = capsOk l' := by
  unfold capsOk
  have h1 : pairwiseB (fun a b : Str => a != b) l = pairwiseB (fun a b => a != b) l' := by
    rw [Bool.eq_iff_iff, pairwiseB_iff, pairwiseB_iff]
    exact hp.pairwise_iff (fun h => by simpa [bne_iff_ne, ne_comm] using h)
  rw [h1, hp.all_eq]
  simp only [hp.contains_eq]

/-- storability of an account does not depend on the order of its capability list -/
theorem storableUser_caps_perm (u : User) (caps : List Str) (hp : caps.Perm u.caps) :
    storableUser { u with caps := caps } = storableUser u := by
  unfold storableUser
  simp only [capsOk_perm hp, hp.all_eq]

/-- the same account with its capability list replaced -/
def withCaps (g : Nat × User → List Str) (p : Nat × User) : Nat × User := (p.1, { p.2 with caps := g p })

theorem insertBy_map {α : Type} (le : α → α → Bool) (h : α → α) (hle : ∀ a b, le (h a) (h b) = le a b)
    (x : α) (l : List α) : insertBy le (h x) (l.map h) = (insertBy le x l).map h := by
  induction l with
  | nil => rfl
  | cons y ys ih =>
    simp only [List.map_cons, insertBy, hle]
    split
    · rfl
    · rw [ih]; rfl

theorem sortBy_map {α : Type} (le : α → α → Bool) (h : α → α) (hle : ∀ a b, le (h a) (h b) = le a b)
    (l : List α) : sortBy le (l.map h) = (sortBy le l).map h := by
  induction l with
  | nil => rfl
  | cons x xs ih => simp only [List.map_cons, sortBy, ih, insertBy_map le h hle]

theorem sortedUsers_withCaps (g : Nat × User → List Str) (db : UsersDb) :
    sortedUsers { db with users := db.users.map (withCaps g) } = (sortedUsers db).map (withCaps g) := by
  unfold sortedUsers
  exact sortBy_map _ (withCaps g) (fun a b => rfl) _

theorem storableUsers_withCaps (E : Env) (g : Nat × User → List Str) (l : List (Nat × User))
    (hg : ∀ p ∈ l, (g p).Perm p.2.caps) :
    storableUsers E (l.map (withCaps g)) = storableUsers E l := by
  unfold storableUsers
  rw [pairwiseB_map]
  have h1 : (fun a b : Nat × User => decide ((withCaps g a).1 < (withCaps g b).1) && noClash E (withCaps g a) (withCaps g b)) =
      (fun p q => decide (p.1 < q.1) && noClash E p q) := by
    funext a b; rfl
  rw [h1]
  congr 1
  rw [List.all_map, Bool.eq_iff_iff, List.all_eq_true, List.all_eq_true]
  constructor
  · intro h p hp
    have := h p hp
    simp only [Function.comp, withCaps] at this
    rwa [storableUser_caps_perm p.2 (g p) (hg p hp)] at this
  · intro h p hp
    simp only [Function.comp, withCaps]
    rw [storableUser_caps_perm p.2 (g p) (hg p hp)]
    exact h p hp

/-- **The order in which capability sets are written is immaterial for a storable database**:
write each account's capabilities in any order `g` (a permutation of the set); the load then
completes and every account holds exactly the capabilities written. -/
theorem users_roundtrip_any_cap_order (E : Env) (db : UsersDb) (g : Nat × User → List Str)
    (hg : ∀ p ∈ db.users, (g p).Perm p.2.caps) (h : storableUsers E (sortedUsers db) = true) :
    (loadUsers E none (dumpUsers { db with users := db.users.map (withCaps g) })).1.db.users =
        (sortedUsers db).map (withCaps g) ∧
    (loadUsers E none (dumpUsers { db with users := db.users.map (withCaps g) })).2 = none := by
  have hs : storableUsers E (sortedUsers { db with users := db.users.map (withCaps g) }) = true := by
    rw [sortedUsers_withCaps, storableUsers_withCaps E g (sortedUsers db) (fun p hp => hg p ((mem_sortBy _ _ _).mp hp)), h]
  rw [loadUsers_dumpUsers E _ hs, sortedUsers_withCaps]
  exact ⟨rfl, rfl⟩

/-- what the `capability` lines of one record add up to, read in the order `l` -/
def foldCaps (l : List Str) : List Str := l.foldl (fun acc c => (userCapAdd acc c).1) []

/-- **… and only then**: if a set holds `c` and the inverse `i` of `c`, then in the order that
writes `c` last the inverse is gone after the load (`add(c)` discards `i`) -/
theorem inverse_pair_some_order_loses (l : List Str) (c i : Str) (hc : c ∈ l)
    (hna : C03.toLower c ≠ C03.antiOwnerS) (hi : C03.invertCapability (C03.toLower c) = .ok i)
    (hne : i ≠ C03.toLower c) :
    ∃ l', l'.Perm l ∧ i ∉ foldCaps l' := by
  refine ⟨l.erase c ++ [c], ?_, ?_⟩
  · exact (List.perm_append_comm.trans (List.perm_cons_erase hc).symm)
  · unfold foldCaps
    rw [List.foldl_append]
    simp only [List.foldl_cons, List.foldl_nil]
    have hb : (C03.toLower c == C03.antiOwnerS) = false := by simpa using hna
    simp only [userCapAdd, liftR, C03.uadd, hb, C03.CapSet.add, C03.toLower_idem, hi]
    intro hmem
    rcases (mem_capInsert _ _ _).mp hmem with h | h
    · exact hne h
    · exact ((mem_capErase _ _ _).mp h).2 rfl

/-- the instance of the finding: `{--foo, -foo}` -/
example : ∃ l', l'.Perm ["--foo".toList, "-foo".toList] ∧ "-foo".toList ∉ foldCaps l' :=
  inverse_pair_some_order_loses _ "--foo".toList "-foo".toList (by simp) (by decide) rfl (by decide)

example : foldCaps ["--foo".toList, "-foo".toList] = ["--foo".toList, "-foo".toList] ∧
          foldCaps ["-foo".toList, "--foo".toList] = ["--foo".toList] := by decide

end C16
