/-
C16 — helper lemmas (free to change).  Layers:
  0. lists / Python string helpers (dropWhile/takeWhile, strip, fileLines, expandTabs, numbers)
  1. `parseLine` on the lines the writers produce
  2. the reader machine over a written block
  3. round trips of the four databases
-/
import LimnoriaModel.C16.Storable
namespace C16
open Py

/-! ## 0. lists and strings -/

theorem takeWhile_append_stop {α : Type} (p : α → Bool) (a : List α) (b : α) (c : List α)
    (ha : ∀ x ∈ a, p x = true) (hb : p b = false) : (a ++ b :: c).takeWhile p = a := by
  induction a with
  | nil => simp [List.takeWhile, hb]
  | cons x xs ih =>
    have hx : p x = true := ha x (by simp)
    simp only [List.cons_append, List.takeWhile_cons, hx, if_true]
    rw [ih (fun y hy => ha y (by simp [hy]))]

theorem dropWhile_append_stop {α : Type} (p : α → Bool) (a : List α) (b : α) (c : List α)
    (ha : ∀ x ∈ a, p x = true) (hb : p b = false) : (a ++ b :: c).dropWhile p = b :: c := by
  induction a with
  | nil => simp [List.dropWhile, hb]
  | cons x xs ih =>
    have hx : p x = true := ha x (by simp)
    simp only [List.cons_append, List.dropWhile_cons, hx, if_true]
    exact ih (fun y hy => ha y (by simp [hy]))

theorem dropWhile_head_false {α : Type} (p : α → Bool) (b : α) (c : List α) (hb : p b = false) :
    (b :: c).dropWhile p = b :: c := by
  simp [List.dropWhile, hb]

theorem dropWhile_eq_nil_of_all {α : Type} (p : α → Bool) (l : List α) (h : ∀ x ∈ l, p x = true) :
    l.dropWhile p = [] := by
  induction l with
  | nil => rfl
  | cons x xs ih =>
    simp only [List.dropWhile_cons, h x (by simp), if_true]
    exact ih (fun y hy => h y (by simp [hy]))

/-- a string with a non-blank character is not blank after `strip()` -/
theorem strip_ne_nil (s : Str) (c : Char) (hc : c ∈ s) (hn : isSpace c = false) : (strip s).isEmpty = false := by
  unfold strip rstripP lstripP
  -- the dropped prefix cannot swallow `c`
  have h1 : c ∈ s.dropWhile isSpace := by
    induction s with
    | nil => cases hc
    | cons x xs ih =>
      by_cases hx : isSpace x = true
      · simp only [List.dropWhile_cons, hx, if_true]
        rcases List.mem_cons.mp hc with h | h
        · subst h; rw [hn] at hx; cases hx
        · exact ih h
      · have : isSpace x = false := by simpa using hx
        simp only [List.dropWhile_cons, this]
        simpa using hc
  generalize s.dropWhile isSpace = t at h1
  have h2 : c ∈ t.reverse.dropWhile isSpace := by
    have hr : c ∈ t.reverse := by simpa using h1
    generalize t.reverse = r at hr
    induction r with
    | nil => cases hr
    | cons x xs ih =>
      by_cases hx : isSpace x = true
      · simp only [List.dropWhile_cons, hx, if_true]
        rcases List.mem_cons.mp hr with h | h
        · subst h; rw [hn] at hx; cases hx
        · exact ih h
      · have : isSpace x = false := by simpa using hx
        simp only [List.dropWhile_cons, this]
        simpa using hr
  cases h : (t.reverse.dropWhile isSpace).reverse with
  | nil =>
    have : t.reverse.dropWhile isSpace = [] := by simpa using h
    rw [this] at h2; cases h2
  | cons _ _ => rfl

theorem strip_nil : strip [] = [] := by decide

/-- line break characters -/
def isBreak (c : Char) : Bool := c = '\n' || c = '\r'

theorem fileLinesAux_line (l rest : Str) (h : ∀ c ∈ l, isBreak c = false) :
    fileLinesAux false (l ++ '\n' :: rest) = l :: fileLinesAux false rest := by
  induction l with
  | nil => simp [fileLinesAux]
  | cons c cs ih =>
    have hc := h c (by simp)
    have h1 : c ≠ '\n' := by intro e; subst e; revert hc; decide
    have h2 : c ≠ '\r' := by intro e; subst e; revert hc; decide
    simp only [List.cons_append, fileLinesAux, h1, h2, if_false]
    rw [ih (fun x hx => h x (by simp [hx]))]

/-- reading back a text made of CR/LF-free lines, each terminated by LF, gives those lines -/
theorem fileLines_unlines (ls : List Str) (h : ∀ l ∈ ls, ∀ c ∈ l, isBreak c = false) :
    fileLines (unlines ls) = ls := by
  unfold fileLines
  induction ls with
  | nil => simp [unlines, fileLinesAux]
  | cons l ls ih =>
    have : unlines (l :: ls) = l ++ '\n' :: unlines ls := by simp [unlines]
    rw [this, fileLinesAux_line l _ (h l (by simp)), ih (fun x hx => h x (by simp [hx]))]

theorem expandTabsFrom_noTab (s : Str) (col : Nat) (h : ∀ c ∈ s, c ≠ '\t') : expandTabsFrom col s = s := by
  induction s generalizing col with
  | nil => rfl
  | cons c cs ih =>
    have hc : c ≠ '\t' := h c (by simp)
    unfold expandTabsFrom
    simp only [hc, if_false]
    split <;> rw [ih _ (fun x hx => h x (by simp [hx]))]

/-! ## 1. `parseLine` on written lines -/

structure KwOk (kw : Str) : Prop where
  ne : kw ≠ []
  nosp : ∀ c ∈ kw, isSpace c = false

theorem isSpace_space : isSpace ' ' = true := by decide
theorem isSpace_tab : isSpace '\t' = true := by decide

theorem clean_elim {v : Str} (h : clean v = true) :
    ∃ c cs, v = c :: cs ∧ isSpace c = false ∧ ∀ x ∈ v, x ≠ '\t' ∧ x ≠ '\n' ∧ x ≠ '\r' := by
  cases v with
  | nil => simp [clean] at h
  | cons c cs =>
    simp only [clean, noTabBreak, Bool.and_eq_true, Bool.not_eq_true', List.all_eq_true, bne_iff_ne, ne_eq] at h
    exact ⟨c, cs, rfl, h.1, fun x hx => by have := h.2 x hx; exact ⟨this.1.1, this.1.2, this.2⟩⟩

theorem splitNone1_kw (kw v : Str) (hk : KwOk kw) (c : Char) (cs : Str) (hv : v = c :: cs)
    (hc : isSpace c = false) : splitNone1 (kw ++ ' ' :: v) = [kw, v] := by
  obtain ⟨k, ks, rfl⟩ : ∃ k ks, kw = k :: ks := by
    cases kw with
    | nil => exact absurd rfl hk.ne
    | cons k ks => exact ⟨k, ks, rfl⟩
  have hk0 : isSpace k = false := hk.nosp k (by simp)
  have hnot : ∀ x ∈ k :: ks, (fun c => !isSpace c) x = true := by
    intro x hx; simp [hk.nosp x hx]
  unfold splitNone1
  have h1 : lstripP isSpace ((k :: ks) ++ ' ' :: v) = (k :: ks) ++ ' ' :: v := by
    simp [lstripP, List.dropWhile, hk0]
  simp only [h1]
  have h2 : ((k :: ks) ++ ' ' :: v).takeWhile (fun c => !isSpace c) = k :: ks :=
    takeWhile_append_stop _ _ _ _ hnot (by simp [isSpace_space])
  have h3 : ((k :: ks) ++ ' ' :: v).dropWhile (fun c => !isSpace c) = ' ' :: v :=
    dropWhile_append_stop _ _ _ _ hnot (by simp [isSpace_space])
  have h4 : lstripP isSpace (' ' :: v) = v := by
    subst hv
    simp [lstripP, List.dropWhile, isSpace_space, hc]
  rw [h2, h3, h4]
  subst hv
  simp

/-- a written line: `n` blanks of indentation, keyword, one blank, a clean value -/
theorem parseLine_written (n : Nat) (kw v : Str) (hk : KwOk kw) (hv : clean v = true) :
    parseLine (List.replicate n ' ' ++ sp kw v) = .cmd n (asciiLower kw) v := by
  obtain ⟨c, cs, hvc, hc, hall⟩ := clean_elim hv
  obtain ⟨k, ks, hkw⟩ : ∃ k ks, kw = k :: ks := by
    cases kw with
    | nil => exact absurd rfl hk.ne
    | cons k ks => exact ⟨k, ks, rfl⟩
  have hk0 : isSpace k = false := hk.nosp k (by simp [hkw])
  have hkne : k ≠ ' ' := by intro e; rw [e, isSpace_space] at hk0; cases hk0
  unfold parseLine
  have hblank : (strip (List.replicate n ' ' ++ sp kw v)).isEmpty = false :=
    strip_ne_nil _ k (by simp [sp, hkw]) hk0
  have htab : ∀ x ∈ List.replicate n ' ' ++ sp kw v, x ≠ '\t' := by
    intro x hx
    simp only [sp, List.mem_append, List.mem_replicate, List.mem_cons] at hx
    rcases hx with ⟨_, rfl⟩ | hx | rfl | hx
    · decide
    · intro e; subst e; have := hk.nosp _ hx; rw [isSpace_tab] at this; cases this
    · decide
    · exact (hall x hx).1
  have hexp : expandTabs (List.replicate n ' ' ++ sp kw v) = List.replicate n ' ' ++ sp kw v :=
    expandTabsFrom_noTab _ _ htab
  have hls : lstripP (fun c => decide (c = ' ')) (List.replicate n ' ' ++ sp kw v) = sp kw v := by
    unfold lstripP
    have : sp kw v = k :: (ks ++ ' ' :: v) := by simp [sp, hkw]
    rw [this]
    exact dropWhile_append_stop _ _ _ _ (by intro x hx; simp [List.mem_replicate] at hx; simp [hx.2]) (by simp [hkne])
  simp only [hblank, hexp, hls]
  have hsplit : splitNone1 (sp kw v) = [kw, v] := splitNone1_kw kw v hk c cs hvc hc
  rw [hsplit]
  simp [sp]

theorem parseLine_nil : parseLine [] = .blank := by decide

theorem indent2_eq (l : Str) : indent2 l = List.replicate 2 ' ' ++ l := rfl

/-! ## 2. the reader machine -/

theorem readLines_append {σ : Type} (C : Creator σ) (rs : RState σ) (a b : List Str) :
    readLines C rs (a ++ b) =
      match readLines C rs a with
      | (rs', none) => readLines C rs' b
      | (rs', some e) => (rs', some e) := by
  induction a generalizing rs with
  | nil => simp [readLines]
  | cons l ls ih =>
    simp only [List.cons_append, readLines]
    cases h : (readParsed C rs (parseLine l)).2 with
    | some e => simp
    | none => simp only []; exact ih _

theorem readLines_blank {σ : Type} (C : Creator σ) (rs : RState σ) (ls : List Str) :
    readLines C rs ([] :: ls) = readLines C rs ls := by
  simp [readLines, parseLine_nil, readParsed]

/-- run a list of commands through `call`, stopping at the first exception -/
def callAll {σ : Type} (C : Creator σ) : σ → List (Str × Str) → σ × Option Err
  | st, [] => (st, none)
  | st, p :: rest =>
    match C.call st (asciiLower p.1) p.2 with
    | (st', none) => callAll C st' rest
    | (st', some e) => (st', some e)

theorem callAll_append {σ : Type} (C : Creator σ) (st : σ) (a b : List (Str × Str)) :
    callAll C st (a ++ b) =
      match callAll C st a with
      | (st', none) => callAll C st' b
      | (st', some e) => (st', some e) := by
  induction a generalizing st with
  | nil => simp [callAll]
  | cons p ps ih =>
    simp only [List.cons_append, callAll]
    cases h : C.call st (asciiLower p.1) p.2 with
    | mk st' o =>
      cases o with
      | none => simp only []; exact ih _
      | some e => simp

theorem callAll_cons_ok {σ : Type} (C : Creator σ) (st st1 : σ) (p : Str × Str) (rest : List (Str × Str))
    (h : C.call st (asciiLower p.1) p.2 = (st1, none)) : callAll C st (p :: rest) = callAll C st1 rest := by
  simp [callAll, h]

/-- written lines at indentation `n` -/
def linesAt (n : Nat) (cmds : List (Str × Str)) : List Str :=
  cmds.map (fun p => List.replicate n ' ' ++ cmdLine p)

/-- a run of well-formed lines at the current indentation is a run of `call`s -/
theorem readLines_same_indent {σ : Type} (C : Creator σ) (rs : RState σ) (n : Nat)
    (cmds : List (Str × Str)) (hind : rs.indent = some n)
    (hok : ∀ p ∈ cmds, KwOk p.1 ∧ clean p.2 = true) (st' : σ)
    (hcall : callAll C rs.st cmds = (st', none)) :
    readLines C rs (linesAt n cmds) =
      ({ rs with modified := rs.modified || !cmds.isEmpty, st := st' }, none) := by
  induction cmds generalizing rs with
  | nil =>
    simp only [callAll, Prod.mk.injEq] at hcall
    cases rs
    simp_all [linesAt, readLines]
  | cons p ps ih =>
    have hp := hok p (by simp)
    simp only [linesAt, List.map_cons, readLines, cmdLine]
    rw [parseLine_written n p.1 p.2 hp.1 hp.2]
    simp only [callAll] at hcall
    cases hc : C.call rs.st (asciiLower p.1) p.2 with
    | mk st1 o =>
      rw [hc] at hcall
      cases o with
      | some e => simp at hcall
      | none =>
        simp only [] at hcall
        simp only [readParsed, reindent, hind, if_true, hc]
        have := ih { rs with modified := true, st := st1 } hind (fun q hq => hok q (by simp [hq])) hcall
        simp only [linesAt, cmdLine, hind] at this
        rw [this]
        simp

/-- the first line of a run when the indentation changes and the old creator's `finish` and the
new creator's constructor leave the state alone -/
theorem readLines_new_indent {σ : Type} (C : Creator σ) (rs : RState σ) (n : Nat)
    (p : Str × Str) (ps : List (Str × Str)) (hcr : rs.hasCreator = true) (hind : rs.indent ≠ some n)
    (hfin : C.finish rs.st = (rs.st, none)) (hnew : C.new rs.st = rs.st)
    (hok : ∀ q ∈ p :: ps, KwOk q.1 ∧ clean q.2 = true) (st' : σ)
    (hcall : callAll C rs.st (p :: ps) = (st', none)) :
    readLines C rs (linesAt n (p :: ps)) =
      ({ hasCreator := true, indent := some n, modified := true, st := st' }, none) := by
  have hp := hok p (by simp)
  simp only [linesAt, List.map_cons, readLines, cmdLine]
  rw [parseLine_written n p.1 p.2 hp.1 hp.2]
  simp only [callAll] at hcall
  cases hc : C.call rs.st (asciiLower p.1) p.2 with
  | mk st1 o =>
    rw [hc] at hcall
    cases o with
    | some e => simp at hcall
    | none =>
      simp only [] at hcall
      simp only [readParsed, reindent, hind, if_false, hcr, if_true, hfin, hnew, hc]
      have := readLines_same_indent C { hasCreator := true, indent := some n, modified := true, st := st1 } n ps rfl
        (fun q hq => hok q (by simp [hq])) st' hcall
      simp only [linesAt, cmdLine] at this
      rw [this]
      simp

/-! ## 3. users: what the commands of a written record do -/

theorem pairwiseB_iff {α : Type} (r : α → α → Bool) (l : List α) :
    pairwiseB r l = true ↔ l.Pairwise (fun a b => r a b = true) := by
  induction l with
  | nil => simp [pairwiseB]
  | cons x xs ih => simp [pairwiseB, ih, List.pairwise_cons, List.all_eq_true]

theorem evalBool_boolStr (b : Bool) : evalBool (boolStr b) = some b := by
  cases b <;> decide

theorem clean_boolStr (b : Bool) : clean (boolStr b) = true := by
  cases b <;> decide

theorem kwOk_name : KwOk kwName := ⟨by decide, by decide⟩
theorem kwOk_ignore : KwOk kwIgnore := ⟨by decide, by decide⟩
theorem kwOk_secure : KwOk kwSecure := ⟨by decide, by decide⟩
theorem kwOk_hashed : KwOk kwHashed := ⟨by decide, by decide⟩
theorem kwOk_password : KwOk kwPassword := ⟨by decide, by decide⟩
theorem kwOk_capability : KwOk kwCapability := ⟨by decide, by decide⟩
theorem kwOk_hostmask : KwOk kwHostmask := ⟨by decide, by decide⟩
theorem kwOk_nicks : KwOk kwNicks := ⟨by decide, by decide⟩
theorem kwOk_gpgkey : KwOk kwGpgkey := ⟨by decide, by decide⟩
theorem kwOk_user : KwOk kwUser := ⟨by decide, by decide⟩

/-- the creator state while the body of record `i` is being read -/
abbrev ust (i : Nat) (r : User) (db : UsersDb) : UState := ⟨some ⟨some i, r⟩, db⟩

theorem userCall_name (i : Nat) (r : User) (db : UsersDb) (v : Str) :
    userCall (ust i r db) kwName v = (ust i { r with name := v } db, none) := by
  simp [userCall, withCu, setRec, kwName, kwUser]

theorem userCall_ignore (i : Nat) (r : User) (db : UsersDb) (b : Bool) :
    userCall (ust i r db) kwIgnore (boolStr b) = (ust i { r with ignore := b } db, none) := by
  simp [userCall, withCu, setRec, boolField, evalBool_boolStr, kwName, kwUser, kwIgnore]

theorem userCall_secure (i : Nat) (r : User) (db : UsersDb) (b : Bool) :
    userCall (ust i r db) kwSecure (boolStr b) = (ust i { r with secure := b } db, none) := by
  simp [userCall, withCu, setRec, boolField, evalBool_boolStr, kwName, kwUser, kwIgnore, kwSecure]

theorem userCall_hashed (i : Nat) (r : User) (db : UsersDb) (b : Bool) :
    userCall (ust i r db) kwHashed (boolStr b) = (ust i { r with hashed := b } db, none) := by
  simp [userCall, withCu, setRec, boolField, evalBool_boolStr, kwName, kwUser, kwIgnore, kwSecure, kwHashed]

theorem userCall_password (i : Nat) (r : User) (db : UsersDb) (v : Str) :
    userCall (ust i r db) kwPassword v = (ust i { r with password := v } db, none) := by
  simp [userCall, withCu, setRec, kwName, kwUser, kwIgnore, kwSecure, kwHashed, kwPassword]

theorem userCall_hostmask (i : Nat) (r : User) (db : UsersDb) (v : Str) :
    userCall (ust i r db) kwHostmask v = (ust i { r with hostmasks := ircSetAdd r.hostmasks v } db, none) := by
  simp [userCall, withCu, setRec, kwName, kwUser, kwIgnore, kwSecure, kwHashed, kwPassword, kwHostmask]

theorem userCall_capability (i : Nat) (r : User) (db : UsersDb) (v : Str) :
    userCall (ust i r db) kwCapability v =
      (ust i { r with caps := (userCapAdd r.caps v).1 } db, (userCapAdd r.caps v).2) := by
  simp [userCall, withCu, kwName, kwUser, kwIgnore, kwSecure, kwHashed, kwPassword, kwHostmask,
    kwNicks, kwCapability]

theorem userCall_gpgkey (i : Nat) (r : User) (db : UsersDb) (v : Str) :
    userCall (ust i r db) kwGpgkey v = (ust i { r with gpgkeys := r.gpgkeys ++ [v] } db, none) := by
  simp [userCall, withCu, setRec, kwName, kwUser, kwGpgkey, kwIgnore, kwSecure, kwHashed, kwPassword,
    kwHostmask, kwNicks, kwCapability]

theorem userCall_nicks (i : Nat) (r : User) (db : UsersDb) (net nicks : Str)
    (h : split1 ' ' (sp net nicks) = some (net, nicks)) :
    userCall (ust i r db) kwNicks (sp net nicks) =
      (ust i { r with nicks := dictSet net (splitChar ' ' nicks) r.nicks } db, none) := by
  simp [userCall, withCu, setRec, h, kwName, kwUser, kwIgnore, kwSecure, kwHashed, kwPassword,
    kwHostmask, kwNicks]

theorem userCall_user (db : UsersDb) (n : Nat) (v : Str) (h : parseNat v = some n) :
    userCall ⟨some {}, db⟩ kwUser v = (ust n {} db, none) := by
  simp [userCall, h]

/-! ### strings inside the `nicks` line -/

theorem split1_sp (a b : Str) (h : ∀ c ∈ a, c ≠ ' ') : split1 ' ' (a ++ ' ' :: b) = some (a, b) := by
  induction a with
  | nil => simp [split1]
  | cons x xs ih =>
    have hx : x ≠ ' ' := h x (by simp)
    simp only [List.cons_append, split1, hx, if_false]
    rw [ih (fun c hc => h c (by simp [hc]))]

theorem splitChar_single (sep : Char) (n : Str) (h : ∀ c ∈ n, c ≠ sep) : splitChar sep n = [n] := by
  induction n with
  | nil => rfl
  | cons x xs ih =>
    have hx : x ≠ sep := h x (by simp)
    simp only [splitChar, hx, if_false]
    rw [ih (fun c hc => h c (by simp [hc]))]

theorem splitChar_cons (sep : Char) (n rest : Str) (h : ∀ c ∈ n, c ≠ sep) :
    splitChar sep (n ++ sep :: rest) = n :: splitChar sep rest := by
  induction n with
  | nil => simp [splitChar]
  | cons x xs ih =>
    have hx : x ≠ sep := h x (by simp)
    simp only [List.cons_append, splitChar, hx, if_false]
    rw [ih (fun c hc => h c (by simp [hc]))]

theorem splitChar_joinChar (sep : Char) (ns : List Str) (hne : ns ≠ [])
    (h : ∀ n ∈ ns, ∀ c ∈ n, c ≠ sep) : splitChar sep (joinChar sep ns) = ns := by
  induction ns with
  | nil => exact absurd rfl hne
  | cons n rest ih =>
    cases rest with
    | nil => simp [joinChar, splitChar_single sep n (h n (by simp))]
    | cons m ms =>
      have : joinChar sep (n :: m :: ms) = n ++ sep :: joinChar sep (m :: ms) := rfl
      rw [this, splitChar_cons sep n _ (h n (by simp)), ih (by simp) (fun x hx => h x (by simp [hx]))]

/-! ### folds over the repeated lines -/

theorem capsOk_elim {l : List Str} (h : capsOk l = true) :
    l.Pairwise (fun a b => a ≠ b) ∧
    ∀ c ∈ l, clean c = true ∧ C03.toLower c = c ∧ ∃ i, C03.invertCapability c = .ok i ∧ i ∉ l := by
  simp only [capsOk, Bool.and_eq_true, pairwiseB_iff, List.all_eq_true] at h
  refine ⟨?_, ?_⟩
  · exact h.1.imp (fun hab => by simpa using hab)
  · intro c hc
    have := h.2 c hc
    refine ⟨this.1.1, by simpa using this.1.2, ?_⟩
    cases hi : C03.invertCapability c with
    | error e => simp [hi] at this
    | ok i =>
      refine ⟨i, rfl, ?_⟩
      have h3 := this.2
      simp only [hi] at h3
      simpa using h3

theorem userCapAdd_ok (caps : List Str) (c i : Str) (hl : C03.toLower c = c) (hn : c ≠ C03.antiOwnerS)
    (hi : C03.invertCapability c = .ok i) (hni : i ∉ caps) (hc : c ∉ caps) :
    userCapAdd caps c = (caps ++ [c], none) := by
  have he : C03.CapSet.erase caps i = caps := by
    unfold C03.CapSet.erase
    rw [List.filter_eq_self]
    intro x hx
    have : x ≠ i := fun e => hni (e ▸ hx)
    simpa using this
  have hb : (c == C03.antiOwnerS) = false := by simpa using hn
  simp [userCapAdd, liftR, C03.uadd, C03.CapSet.add, C03.CapSet.insert, hl, hb, hi, he, hc]

theorem capAdd_ok (caps : List Str) (c i : Str) (hl : C03.toLower c = c)
    (hi : C03.invertCapability c = .ok i) (hni : i ∉ caps) (hc : c ∉ caps) :
    capAdd caps c = (caps ++ [c], none) := by
  have he : C03.CapSet.erase caps i = caps := by
    unfold C03.CapSet.erase
    rw [List.filter_eq_self]
    intro x hx
    have : x ≠ i := fun e => hni (e ▸ hx)
    simpa using this
  simp [capAdd, liftR, C03.CapSet.add, C03.CapSet.insert, hl, hi, he, hc]

theorem callAll_caps (E : Env) (i : Nat) (db : UsersDb) (caps pre : List Str) (r : User)
    (hr : r.caps = pre) (hok : capsOk (pre ++ caps) = true)
    (hno : ∀ c ∈ pre ++ caps, c ≠ C03.antiOwnerS) :
    callAll (userCreator E) (ust i r db) (caps.map (fun c => (kwCapability, c))) =
      (ust i { r with caps := pre ++ caps } db, none) := by
  induction caps generalizing pre r with
  | nil => subst hr; simp [callAll]
  | cons c cs ih =>
    obtain ⟨hpw, hall⟩ := capsOk_elim hok
    obtain ⟨_, hl, inv, hinv, hninv⟩ := hall c (by simp)
    have hcpre : c ∉ pre := by
      intro hmem
      have := List.pairwise_append.mp hpw
      exact this.2.2 c hmem c (by simp) rfl
    have hipre : inv ∉ pre := fun hmem => hninv (by simp [hmem])
    have hlow : asciiLower kwCapability = kwCapability := by decide
    rw [List.map_cons, callAll_cons_ok (userCreator E) _ (ust i { r with caps := pre ++ [c] } db) _ _ (by
      show userCall (ust i r db) (asciiLower kwCapability) c = _
      rw [hlow, userCall_capability, hr, userCapAdd_ok pre c inv hl (hno c (by simp)) hinv hipre hcpre])]
    have := ih (pre ++ [c]) { r with caps := pre ++ [c] } rfl (by simpa using hok) (by simpa using hno)
    rw [this]
    simp

theorem ircSetAdd_new (hs : List Str) (h : Str) (hn : ∀ x ∈ hs, C03.toLower x ≠ C03.toLower h) :
    ircSetAdd hs h = hs ++ [h] := by
  unfold ircSetAdd
  have : hs.any (fun x => decide (C03.toLower x = C03.toLower h)) = false := by
    simp only [List.any_eq_false, decide_eq_true_eq]
    exact hn
  simp [this]

theorem callAll_hostmasks (E : Env) (i : Nat) (db : UsersDb) (hms pre : List Str) (r : User)
    (hr : r.hostmasks = pre)
    (hok : (pre ++ hms).Pairwise (fun a b => C03.toLower a ≠ C03.toLower b)) :
    callAll (userCreator E) (ust i r db) (hms.map (fun c => (kwHostmask, c))) =
      (ust i { r with hostmasks := pre ++ hms } db, none) := by
  induction hms generalizing pre r with
  | nil => subst hr; simp [callAll]
  | cons c cs ih =>
    have hnew : ∀ x ∈ pre, C03.toLower x ≠ C03.toLower c := by
      intro x hx
      exact (List.pairwise_append.mp hok).2.2 x hx c (by simp)
    have hlow : asciiLower kwHostmask = kwHostmask := by decide
    rw [List.map_cons, callAll_cons_ok (userCreator E) _ (ust i { r with hostmasks := pre ++ [c] } db) _ _ (by
      show userCall (ust i r db) (asciiLower kwHostmask) c = _
      rw [hlow, userCall_hostmask, hr, ircSetAdd_new pre c hnew])]
    have := ih (pre ++ [c]) { r with hostmasks := pre ++ [c] } rfl (by simpa using hok)
    rw [this]
    simp

theorem dictSet_new {α β : Type} [DecidableEq α] (k : α) (v : β) (l : List (α × β))
    (h : ∀ p ∈ l, p.1 ≠ k) : dictSet k v l = l ++ [(k, v)] := by
  unfold dictSet
  have : l.any (fun p => decide (p.1 = k)) = false := by
    simp only [List.any_eq_false, decide_eq_true_eq]
    exact h
  simp [this]

theorem nicksEntryOk_elim {p : Str × List Str} (h : nicksEntryOk p = true) :
    clean p.1 = true ∧ (∀ c ∈ p.1, c ≠ ' ') ∧ p.2 ≠ [] ∧ ∀ n ∈ p.2, ∀ c ∈ n, c ≠ ' ' ∧ c ≠ '\t' ∧ c ≠ '\n' ∧ c ≠ '\r' := by
  simp only [nicksEntryOk, nickOk, Bool.and_eq_true, List.all_eq_true, bne_iff_ne, ne_eq,
    Bool.not_eq_true', List.isEmpty_eq_false_iff] at h
  refine ⟨h.1.1.1, h.1.1.2, h.1.2, ?_⟩
  intro n hn c hc
  have := h.2 n hn c hc
  exact ⟨this.1.1.1, this.1.1.2, this.1.2, this.2⟩

theorem callAll_nicks (E : Env) (i : Nat) (db : UsersDb) (nk pre : List (Str × List Str)) (r : User)
    (hr : r.nicks = pre) (hok : ∀ p ∈ nk, nicksEntryOk p = true)
    (hpw : (pre ++ nk).Pairwise (fun a b => a.1 ≠ b.1)) :
    callAll (userCreator E) (ust i r db) (nk.map (fun p => (kwNicks, sp p.1 (joinChar ' ' p.2)))) =
      (ust i { r with nicks := pre ++ nk } db, none) := by
  induction nk generalizing pre r with
  | nil => subst hr; simp [callAll]
  | cons p ps ih =>
    obtain ⟨_, hsp, hne, hn⟩ := nicksEntryOk_elim (hok p (by simp))
    have hnew : ∀ q ∈ pre, q.1 ≠ p.1 := by
      intro q hq
      exact (List.pairwise_append.mp hpw).2.2 q hq p (by simp)
    have hlow : asciiLower kwNicks = kwNicks := by decide
    rw [List.map_cons, callAll_cons_ok (userCreator E) _ (ust i { r with nicks := pre ++ [p] } db) _ _ (by
      show userCall (ust i r db) (asciiLower kwNicks) (sp p.1 (joinChar ' ' p.2)) = _
      rw [hlow, userCall_nicks _ _ _ _ _ (split1_sp _ _ hsp),
        splitChar_joinChar ' ' p.2 hne (fun n hn' c hc => (hn n hn' c hc).1), hr, dictSet_new _ _ _ hnew])]
    have := ih (pre ++ [p]) { r with nicks := pre ++ [p] } rfl (fun q hq => hok q (by simp [hq]))
      (by simpa using hpw)
    rw [this]
    simp

theorem callAll_gpgkeys (E : Env) (i : Nat) (db : UsersDb) (ks pre : List Str) (r : User)
    (hr : r.gpgkeys = pre) :
    callAll (userCreator E) (ust i r db) (ks.map (fun c => (kwGpgkey, c))) =
      (ust i { r with gpgkeys := pre ++ ks } db, none) := by
  induction ks generalizing pre r with
  | nil => subst hr; simp [callAll]
  | cons c cs ih =>
    have hlow : asciiLower kwGpgkey = kwGpgkey := by decide
    rw [List.map_cons, callAll_cons_ok (userCreator E) _ (ust i { r with gpgkeys := pre ++ [c] } db) _ _ (by
      show userCall (ust i r db) (asciiLower kwGpgkey) c = _
      rw [hlow, userCall_gpgkey, hr])]
    have := ih (pre ++ [c]) { r with gpgkeys := pre ++ [c] } rfl
    rw [this]
    simp

/-! ### a whole record body -/

structure UserOk (u : User) : Prop where
  name : clean u.name = true
  notHm : C03.isUserHostmask u.name = false
  pwEmpty : u.password = [] → u.hashed = false
  pwClean : u.password ≠ [] → clean u.password = true
  caps : capsOk u.caps = true
  noAntiOwner : ∀ c ∈ u.caps, c ≠ C03.antiOwnerS
  hmClean : ∀ h ∈ u.hostmasks, clean h = true
  hmDistinct : u.hostmasks.Pairwise (fun a b => C03.toLower a ≠ C03.toLower b)
  nicksOk : ∀ p ∈ u.nicks, nicksEntryOk p = true
  nicksDistinct : u.nicks.Pairwise (fun a b => a.1 ≠ b.1)
  gpgClean : ∀ k ∈ u.gpgkeys, clean k = true

theorem storableUser_elim {u : User} (h : storableUser u = true) : UserOk u := by
  simp only [storableUser, Bool.and_eq_true, pairwiseB_iff, List.all_eq_true, Bool.not_eq_true',
    bne_iff_ne, ne_eq] at h
  obtain ⟨⟨⟨⟨⟨⟨⟨⟨⟨h1, h2⟩, h3⟩, h4⟩, h5⟩, h6⟩, h7⟩, h8⟩, h9⟩, h10⟩ := h
  refine ⟨h1, h2, ?_, ?_, h4, h5, h6, ?_, h8, ?_, h10⟩
  · intro hp; simpa [hp] using h3
  · intro hp
    have : u.password.isEmpty = false := by simpa using hp
    simpa [this] using h3
  · exact h7.imp (fun hab => by simpa using hab)
  · exact h9.imp (fun hab => by simpa using hab)

theorem clean_sp_nicks {p : Str × List Str} (h : nicksEntryOk p = true) :
    clean (sp p.1 (joinChar ' ' p.2)) = true := by
  obtain ⟨hc, _, _, hn⟩ := nicksEntryOk_elim h
  obtain ⟨c, cs, hv, hsp, hall⟩ := clean_elim hc
  have hj : ∀ (ns : List Str), (∀ n ∈ ns, ∀ x ∈ n, x ≠ ' ' ∧ x ≠ '\t' ∧ x ≠ '\n' ∧ x ≠ '\r') →
      ∀ x ∈ joinChar ' ' ns, x ≠ '\t' ∧ x ≠ '\n' ∧ x ≠ '\r' := by
    intro ns
    induction ns with
    | nil => intro _ x hx; simp [joinChar] at hx
    | cons n rest ih =>
      intro hns x hx
      cases rest with
      | nil =>
        simp only [joinChar] at hx
        exact (hns n (by simp) x hx).2
      | cons m ms =>
        have : joinChar ' ' (n :: m :: ms) = n ++ ' ' :: joinChar ' ' (m :: ms) := rfl
        rw [this] at hx
        simp only [List.mem_append, List.mem_cons] at hx
        rcases hx with hx | rfl | hx
        · exact (hns n (by simp) x hx).2
        · decide
        · exact ih (fun q hq => hns q (by simp [hq])) x hx
  rw [hv]
  simp only [sp, List.cons_append, clean, hsp, Bool.not_false, Bool.true_and, noTabBreak, List.all_eq_true,
    Bool.and_eq_true, bne_iff_ne, ne_eq]
  intro x hx
  have hx' : x ∈ p.1 ∨ x = ' ' ∨ x ∈ joinChar ' ' p.2 := by
    rw [hv]
    simp only [List.mem_cons, List.mem_append] at hx ⊢
    rcases hx with h | h | h | h
    · exact Or.inl (Or.inl h)
    · exact Or.inl (Or.inr h)
    · exact Or.inr (Or.inl h)
    · exact Or.inr (Or.inr h)
  rcases hx' with hx' | rfl | hx'
  · have := hall x hx'; exact ⟨⟨this.1, this.2.1⟩, this.2.2⟩
  · decide
  · have := hj p.2 hn x hx'; exact ⟨⟨this.1, this.2.1⟩, this.2.2⟩

theorem userCmds_ok {u : User} (h : UserOk u) : ∀ p ∈ userCmds u, KwOk p.1 ∧ clean p.2 = true := by
  intro p hp
  simp only [userCmds, List.mem_append, List.mem_cons, List.mem_map, List.not_mem_nil, or_false] at hp
  rcases hp with ((((((rfl | rfl | rfl) | hp) | hp) | hp) | hp) | hp)
  · exact ⟨kwOk_name, h.name⟩
  · exact ⟨kwOk_ignore, clean_boolStr _⟩
  · exact ⟨kwOk_secure, clean_boolStr _⟩
  · by_cases hpw : u.password.isEmpty = true
    · simp [hpw] at hp
    · simp [hpw] at hp
      rcases hp with rfl | rfl
      · exact ⟨kwOk_hashed, clean_boolStr _⟩
      · exact ⟨kwOk_password, h.pwClean (by intro e; simp [e] at hpw)⟩
  · obtain ⟨c, hc, rfl⟩ := hp
    exact ⟨kwOk_capability, ((capsOk_elim h.caps).2 c hc).1⟩
  · obtain ⟨c, hc, rfl⟩ := hp
    exact ⟨kwOk_hostmask, h.hmClean c hc⟩
  · obtain ⟨q, hq, rfl⟩ := hp
    exact ⟨kwOk_nicks, clean_sp_nicks (h.nicksOk q hq)⟩
  · obtain ⟨c, hc, rfl⟩ := hp
    exact ⟨kwOk_gpgkey, h.gpgClean c hc⟩

theorem callAll_userCmds (E : Env) (i : Nat) (db : UsersDb) (u : User) (h : UserOk u) :
    callAll (userCreator E) (ust i {} db) (userCmds u) = (ust i u db, none) := by
  unfold userCmds
  have l1 : asciiLower kwName = kwName := by decide
  have l2 : asciiLower kwIgnore = kwIgnore := by decide
  have l3 : asciiLower kwSecure = kwSecure := by decide
  have l4 : asciiLower kwHashed = kwHashed := by decide
  have l5 : asciiLower kwPassword = kwPassword := by decide
  -- the three fixed lines
  have s1 : callAll (userCreator E) (ust i {} db)
      [(kwName, u.name), (kwIgnore, boolStr u.ignore), (kwSecure, boolStr u.secure)] =
      (ust i { name := u.name, ignore := u.ignore, secure := u.secure } db, none) := by
    rw [callAll_cons_ok (userCreator E) _ (ust i { name := u.name } db) _ _ (by
        dsimp only [userCreator]
        rw [l1, userCall_name]),
      callAll_cons_ok (userCreator E) _ (ust i { name := u.name, ignore := u.ignore } db) _ _ (by
        dsimp only [userCreator]
        rw [l2, userCall_ignore]),
      callAll_cons_ok (userCreator E) _ (ust i { name := u.name, ignore := u.ignore, secure := u.secure } db) _ _ (by
        dsimp only [userCreator]
        rw [l3, userCall_secure])]
    rfl
  -- the password lines
  have s2 : callAll (userCreator E) (ust i { name := u.name, ignore := u.ignore, secure := u.secure } db)
      (if u.password.isEmpty then [] else [(kwHashed, boolStr u.hashed), (kwPassword, u.password)]) =
      (ust i { name := u.name, ignore := u.ignore, secure := u.secure, hashed := u.hashed,
               password := u.password } db, none) := by
    by_cases hpw : u.password = []
    · simp [hpw, callAll, h.pwEmpty hpw]
    · have : u.password.isEmpty = false := by simpa using hpw
      simp only [this, Bool.false_eq_true, if_false]
      rw [callAll_cons_ok (userCreator E) _
          (ust i { name := u.name, ignore := u.ignore, secure := u.secure, hashed := u.hashed } db) _ _ (by
            dsimp only [userCreator]
            rw [l4, userCall_hashed]),
        callAll_cons_ok (userCreator E) _
          (ust i { name := u.name, ignore := u.ignore, secure := u.secure, hashed := u.hashed,
                   password := u.password } db) _ _ (by
            dsimp only [userCreator]
            rw [l5, userCall_password])]
      rfl
  have s3 := callAll_caps E i db u.caps []
    { name := u.name, ignore := u.ignore, secure := u.secure, hashed := u.hashed, password := u.password }
    rfl (by simpa using h.caps) (by simpa using h.noAntiOwner)
  have s4 := callAll_hostmasks E i db u.hostmasks []
    { name := u.name, ignore := u.ignore, secure := u.secure, hashed := u.hashed, password := u.password,
      caps := u.caps } rfl (by simpa using h.hmDistinct)
  have s5 := callAll_nicks E i db u.nicks []
    { name := u.name, ignore := u.ignore, secure := u.secure, hashed := u.hashed, password := u.password,
      caps := u.caps, hostmasks := u.hostmasks } rfl h.nicksOk (by simpa using h.nicksDistinct)
  have s6 := callAll_gpgkeys E i db u.gpgkeys []
    { name := u.name, ignore := u.ignore, secure := u.secure, hashed := u.hashed, password := u.password,
      caps := u.caps, hostmasks := u.hostmasks, nicks := u.nicks } rfl
  simp only [List.nil_append] at s3 s4 s5 s6
  rw [callAll_append, callAll_append, callAll_append, callAll_append, callAll_append, s1]
  simp only [s2, s3, s4, s5, s6]

/-! ### numbers in headers -/

theorem digit_props (c : Char) (h : c.isDigit = true) :
    isSpace c = false ∧ isNumSpace c = false ∧ c ≠ '\t' ∧ c ≠ '\n' ∧ c ≠ '\r' ∧ c ≠ ' ' := by
  have h' := Char.isDigit_iff_toNat.mp h
  have e1 : '0'.toNat = 48 := by decide
  have e2 : '9'.toNat = 57 := by decide
  rw [e1, e2] at h'
  refine ⟨?_, ?_, ?_, ?_, ?_, ?_⟩
  · simp only [isSpace]
    have : c.toNat ≠ 0x85 ∧ c.toNat ≠ 0xa0 ∧ c.toNat ≠ 0x1680 ∧ c.toNat ≠ 0x2028 ∧ c.toNat ≠ 0x2029 ∧
        c.toNat ≠ 0x202f ∧ c.toNat ≠ 0x205f ∧ c.toNat ≠ 0x3000 := by omega
    simp only [Bool.or_eq_false_iff, Bool.and_eq_false_iff, decide_eq_false_iff_not, Nat.not_le]
    omega
  · simp only [isNumSpace, Bool.or_eq_false_iff, Bool.and_eq_false_iff, decide_eq_false_iff_not, Nat.not_le]
    omega
  all_goals (intro e; subst e; revert h'; decide)

theorem dropWhile_all_false {α : Type} (p : α → Bool) (l : List α) (h : ∀ x ∈ l, p x = false) :
    l.dropWhile p = l := by
  cases l with
  | nil => rfl
  | cons x xs => simp [List.dropWhile, h x (by simp)]

theorem natDec_digits (n : Nat) : natDec n ≠ [] ∧ ∀ c ∈ natDec n, c.isDigit = true := by
  have e : natDec n = Nat.toDigits 10 n := rfl
  rw [e]
  exact ⟨Nat.toDigits_ne_nil, fun c hc => Nat.isDigit_of_mem_toDigits (by decide) (by decide) hc⟩

theorem clean_natDec (n : Nat) : clean (natDec n) = true := by
  obtain ⟨hne, hd⟩ := natDec_digits n
  cases h : natDec n with
  | nil => exact absurd h hne
  | cons c cs =>
    rw [h] at hd
    simp only [clean, (digit_props c (hd c (by simp))).1, Bool.not_false, Bool.true_and, noTabBreak,
      List.all_eq_true, Bool.and_eq_true, bne_iff_ne, ne_eq]
    intro x hx
    have := digit_props x (hd x hx)
    exact ⟨⟨this.2.2.1, this.2.2.2.1⟩, this.2.2.2.2.1⟩

theorem parseNat_natDec (n : Nat) : parseNat (natDec n) = some n := by
  obtain ⟨hne, hd⟩ := natDec_digits n
  have hs : numStrip (natDec n) = natDec n := by
    unfold numStrip rstripP lstripP
    rw [dropWhile_all_false _ _ (fun c hc => (digit_props c (hd c hc)).2.1)]
    rw [dropWhile_all_false _ _ (fun c hc => (digit_props c (hd c (by simpa using hc))).2.1)]
    simp
  have ha : allDigits (natDec n) = true := by
    simp only [allDigits, Bool.and_eq_true, Bool.not_eq_true', List.all_eq_true]
    exact ⟨by simpa using hne, hd⟩
  have e : natDec n = Nat.toDigits 10 n := rfl
  simp only [parseNat, hs, ha, if_true]
  rw [e, Nat.ofDigitChars_ten_toDigits]

/-! ### `setUser` while loading a storable database -/

theorem hasLineBreak_clean {v : Str} (h : clean v = true) : hasLineBreak v = false := by
  obtain ⟨_, _, _, _, hall⟩ := clean_elim h
  simp only [hasLineBreak, List.any_eq_false, Bool.or_eq_true, decide_eq_true_eq, not_or]
  intro x hx
  exact ⟨(hall x hx).2.1, (hall x hx).2.2⟩

theorem noClash_elim {E : Env} {p q : Nat × User} (h : noClash E p q = true) :
    E.lower p.2.name ≠ E.lower q.2.name ∧
    ∀ hq ∈ q.2.hostmasks, ∀ o ∈ p.2.hostmasks, E.hm o hq = false ∧ E.hm hq o = false := by
  simp only [noClash, Bool.and_eq_true, bne_iff_ne, ne_eq, List.all_eq_true, Bool.not_eq_true'] at h
  exact ⟨h.1, fun hq hhq o ho => h.2 hq hhq o ho⟩

theorem setUser_ok (E : Env) (pre : List (Nat × User)) (n id : Nat) (u : User) (hu : UserOk u)
    (hids : ∀ p ∈ pre, p.1 < id) (hnc : ∀ p ∈ pre, noClash E p (id, u) = true) :
    setUser E { users := pre, nextId := n } id u =
      ({ users := pre ++ [(id, u)], nextId := max n id }, none) := by
  have hfind : pre.find? (fun p => decide (E.lower p.2.name = E.lower u.name)) = none := by
    rw [List.find?_eq_none]
    intro p hp
    simpa using (noClash_elim (hnc p hp)).1
  have hget : getUserId E pre u.name = (pre, .missing) := by
    simp [getUserId, hu.notHm, hfind]
  have hclash : hostmaskClash E pre id u = false := by
    simp only [hostmaskClash, List.any_eq_false, Bool.and_eq_true, Bool.or_eq_true, not_and, not_or,
      List.any_eq_true, not_exists, Bool.not_eq_true]
    intro h hh p hp _
    have := (noClash_elim (hnc p hp)).2 h hh
    refine ⟨?_, fun o ho => (this o ho).2⟩
    simp only [patMatch, Option.isSome_eq_false_iff, Option.isNone_iff_eq_none, List.find?_eq_none, Bool.not_eq_true]
    exact fun o ho => (this o ho).1
  have hnew : ∀ p ∈ pre, p.1 ≠ id := fun p hp => Nat.ne_of_lt (hids p hp)
  simp [setUser, hasLineBreak_clean hu.name, hget, hclash, dictSet_new id u pre hnew]

/-! ### one written record through the reader -/

/-- reader state after the body of record `(i, u)` -/
def rsMid (i : Nat) (u : User) (db : UsersDb) : RState UState :=
  { hasCreator := true, indent := some 2, modified := true, st := ust i u db }

/-- reader state after the header line of record `i` -/
def rsHdr (i : Nat) (db : UsersDb) : RState UState :=
  { hasCreator := true, indent := some 0, modified := true, st := ust i {} db }

theorem parseLine_userHeader (i : Nat) :
    parseLine (sp kwUser (natDec i)) = .cmd 0 kwUser (natDec i) := by
  have := parseLine_written 0 kwUser (natDec i) kwOk_user (clean_natDec i)
  have hl : asciiLower kwUser = kwUser := by decide
  rw [hl] at this
  simpa using this

theorem header_start (E : Env) (db : UsersDb) (i : Nat) (ls : List Str) :
    readLines (userCreator E) { st := ⟨none, db⟩ } (sp kwUser (natDec i) :: ls) =
      readLines (userCreator E) (rsHdr i db) ls := by
  simp only [readLines, parseLine_userHeader, readParsed, reindent]
  have : (userCreator E).call ((userCreator E).new ⟨none, db⟩) kwUser (natDec i) = (ust i {} db, none) := by
    show userCall (userNew ⟨none, db⟩) kwUser (natDec i) = _
    simp only [userNew]
    exact userCall_user db i _ (parseNat_natDec i)
  simp [this, rsHdr]

theorem userFinish_ok (E : Env) (j : Nat) (v : User) (db db' : UsersDb) (hname : v.name ≠ [])
    (hset : setUser E db j v = (db', none)) :
    userFinish E (ust j v db) = (⟨none, db'⟩, none) := by
  have : v.name.isEmpty = false := by simpa using hname
  simp [userFinish, this, hset]

theorem header_mid (E : Env) (db db' : UsersDb) (j : Nat) (v : User) (i : Nat) (ls : List Str)
    (hname : v.name ≠ []) (hset : setUser E db j v = (db', none)) :
    readLines (userCreator E) (rsMid j v db) (sp kwUser (natDec i) :: ls) =
      readLines (userCreator E) (rsHdr i db') ls := by
  simp only [readLines, parseLine_userHeader, readParsed, reindent, rsMid]
  have hf : (userCreator E).finish (ust j v db) = (⟨none, db'⟩, none) := userFinish_ok E j v db db' hname hset
  have : (userCreator E).call ((userCreator E).new ⟨none, db'⟩) kwUser (natDec i) = (ust i {} db', none) := by
    show userCall (userNew ⟨none, db'⟩) kwUser (natDec i) = _
    simp only [userNew]
    exact userCall_user db' i _ (parseNat_natDec i)
  simp [hf, this, rsHdr]

theorem body_lines (E : Env) (db : UsersDb) (i : Nat) (u : User) (hu : UserOk u) (rest : List Str) :
    readLines (userCreator E) (rsHdr i db) ((userLines u).map indent2 ++ [] :: rest) =
      readLines (userCreator E) (rsMid i u db) rest := by
  have hl : (userLines u).map indent2 = linesAt 2 (userCmds u) := by
    simp [userLines, linesAt, List.map_map, indent2_eq, Function.comp_def]
  obtain ⟨p, ps, hps⟩ : ∃ p ps, userCmds u = p :: ps := ⟨(kwName, u.name), _, rfl⟩
  have hfin : (userCreator E).finish (rsHdr i db).st = ((rsHdr i db).st, none) := by
    show userFinish E (ust i {} db) = _
    simp [userFinish, rsHdr]
  have hnew : (userCreator E).new (rsHdr i db).st = (rsHdr i db).st := by
    show userNew (ust i {} db) = _
    simp [userNew, rsHdr]
  have hbody := readLines_new_indent (userCreator E) (rsHdr i db) 2 p ps rfl (by simp [rsHdr]) hfin hnew
    (by rw [← hps]; exact userCmds_ok hu) (ust i u db)
    (by rw [← hps]; exact callAll_userCmds E i db u hu)
  rw [hl, hps, readLines_append, hbody]
  simp only []
  rw [readLines_blank]
  rfl

/-- `Reader.read` from a given loop state on: the remaining lines, then the final `finish` -/
def readRest (E : Env) (rs : RState UState) (ls : List Str) : UState × Option Err :=
  let r := readLines (userCreator E) rs ls
  match r.2 with
  | some e => (r.1.st, some e)
  | none => if r.1.modified then (userCreator E).finish r.1.st else (r.1.st, none)

def nextIdAfter (n : Nat) (l : List (Nat × User)) : Nat := l.foldl (fun m p => max m p.1) n

theorem storableUsers_elim {E : Env} {l : List (Nat × User)} (h : storableUsers E l = true) :
    l.Pairwise (fun p q => p.1 < q.1 ∧ noClash E p q = true) ∧ ∀ p ∈ l, UserOk p.2 := by
  simp only [storableUsers, Bool.and_eq_true, pairwiseB_iff, List.all_eq_true, decide_eq_true_eq] at h
  exact ⟨h.1, fun p hp => storableUser_elim (h.2 p hp)⟩

theorem load_rest (E : Env) (bs : List (Nat × User)) (pre : List (Nat × User)) (n j : Nat) (v : User)
    (hst : storableUsers E (pre ++ (j, v) :: bs) = true) :
    readRest E (rsMid j v ⟨pre, n⟩) (bs.flatMap userBlock) =
      (⟨none, ⟨pre ++ (j, v) :: bs, nextIdAfter n ((j, v) :: bs)⟩⟩, none) := by
  induction bs generalizing pre n j v with
  | nil =>
    obtain ⟨hpw, hall⟩ := storableUsers_elim hst
    have hv : UserOk v := hall (j, v) (by simp)
    have hcross := (List.pairwise_append.mp hpw).2.2
    have hset := setUser_ok E pre n j v hv (fun p hp => (hcross p hp (j, v) (by simp)).1)
      (fun p hp => (hcross p hp (j, v) (by simp)).2)
    have hname : v.name ≠ [] := by
      obtain ⟨c, cs, hc, _⟩ := clean_elim hv.name
      rw [hc]; simp
    simp only [List.flatMap_nil, readRest, readLines, rsMid, if_true]
    show userFinish E (ust j v ⟨pre, n⟩) = _
    rw [userFinish_ok E j v _ _ hname hset]
    simp [nextIdAfter]
  | cons b bs ih =>
    obtain ⟨hpw, hall⟩ := storableUsers_elim hst
    have hv : UserOk v := hall (j, v) (by simp)
    have hb : UserOk b.2 := hall b (by simp)
    have hcross := (List.pairwise_append.mp hpw).2.2
    have hset := setUser_ok E pre n j v hv (fun p hp => (hcross p hp (j, v) (by simp)).1)
      (fun p hp => (hcross p hp (j, v) (by simp)).2)
    have hname : v.name ≠ [] := by
      obtain ⟨c, cs, hc, _⟩ := clean_elim hv.name
      rw [hc]; simp
    have hst' : storableUsers E ((pre ++ [(j, v)]) ++ (b.1, b.2) :: bs) = true := by
      simpa using hst
    have := ih (pre ++ [(j, v)]) (max n j) b.1 b.2 hst'
    simp only [readRest] at this ⊢
    simp only [List.flatMap_cons, userBlock, blockLines, List.cons_append, List.append_assoc]
    rw [header_mid E ⟨pre, n⟩ _ j v b.1 _ hname hset]
    simp only [List.nil_append]
    rw [body_lines E _ b.1 b.2 hb]
    rw [this]
    simp [nextIdAfter]

/-- users.conf round trip: the users are read back exactly, the loader does not raise, and the
class-level creator state is clean again -/
theorem loadUsers_dumpUsers (E : Env) (db : UsersDb) (h : storableUsers E (sortedUsers db) = true) :
    loadUsers E none (dumpUsers db) =
      (⟨none, ⟨sortedUsers db, nextIdAfter 0 (sortedUsers db)⟩⟩, none) := by
  have hlines : fileLines (dumpUsers db) = (sortedUsers db).flatMap userBlock := by
    unfold dumpUsers
    apply fileLines_unlines
    intro l hl c hc
    simp only [List.mem_flatMap] at hl
    obtain ⟨p, hp, hl⟩ := hl
    have hu : UserOk p.2 := (storableUsers_elim h).2 p hp
    simp only [userBlock, blockLines, List.mem_cons, List.mem_append, List.mem_map, List.not_mem_nil, or_false] at hl
    have hclean : ∀ kw v, KwOk kw → clean v = true → ∀ c ∈ sp kw v, isBreak c = false := by
      intro kw v hk hv c hc
      obtain ⟨_, _, _, _, hall⟩ := clean_elim hv
      simp only [sp, List.mem_append, List.mem_cons] at hc
      rcases hc with hc | rfl | hc
      · have := hk.nosp c hc
        cases hb : isBreak c with
        | false => rfl
        | true =>
          simp only [isBreak, Bool.or_eq_true, decide_eq_true_eq] at hb
          rcases hb with rfl | rfl <;> revert this <;> decide
      · decide
      · have := hall c hc
        simp [isBreak, this.2.1, this.2.2]
    rcases hl with (rfl | ⟨q, hq, rfl⟩) | rfl
    · exact hclean _ _ kwOk_user (clean_natDec _) c hc
    · simp only [userLines, List.mem_map] at hq
      obtain ⟨r, hr, rfl⟩ := hq
      have := userCmds_ok hu r hr
      simp only [indent2, List.mem_cons] at hc
      rcases hc with rfl | rfl | hc
      · decide
      · decide
      · exact hclean _ _ this.1 this.2 c hc
    · cases hc
  unfold loadUsers readText
  rw [hlines]
  change readRest E { st := ⟨none, {}⟩ } ((sortedUsers db).flatMap userBlock) = _
  cases hs : sortedUsers db with
  | nil => simp [readRest, readLines, nextIdAfter]
  | cons b bs =>
    rw [hs] at h
    have hb : UserOk b.2 := (storableUsers_elim h).2 b (by simp)
    have := load_rest E bs [] 0 b.1 b.2 (by simpa using h)
    simp only [readRest] at this ⊢
    simp only [List.flatMap_cons, userBlock, blockLines, List.cons_append, List.append_assoc]
    rw [header_start E {} b.1]
    simp only [List.nil_append]
    rw [body_lines E _ b.1 b.2 hb]
    have e : ({} : UsersDb) = ⟨[], 0⟩ := rfl
    rw [e, this]
    simp

end C16
